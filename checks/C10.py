"""C10 — All tree-comparison implementations report the same changes.

The C09 workload (a working tree driven through a model-generated operation sequence) is
reused; at every k-th step, and on pairs of revision trees taken from the run's history,
`InterTree.get(a, b).iter_changes(...)` (which selects InterDirStateTree /
InterCHKRevisionTree / InterGitTrees) is compared with the generic implementation
(`InterInventoryTree(a, b).iter_changes`, the code every inventory optimiser falls back
to; `breezy.tree.InterTree.iter_changes` itself is abstract) for specific_files in
{None, three seeded path subsets incl. nonexistent paths and directories} x
include_unchanged x want_unversioned, require_versioned=False.  Oracles: equal sets;
a filtered result applied to the source gives a valid tree (every new parent is reported or
unchanged in the source); the unfiltered result applied to a snapshot of the source gives
the snapshot of the target."""

import json

from . import C09
from . import treesim as T

PROPERTY = "C10"
LEVEL = "exploration"
RULE = (
    "one case = one comparison of two trees (working tree vs basis at a step of a seeded C09-style run, or two revision trees of "
    "its history) under one setting of (specific_files, include_unchanged, want_unversioned); a run evaluates many cases; "
    "non-trivial run = at least 3 state-changing operations were executed and at least one compared pair differed in a "
    "versioned entry; distinct = distinct event-log digests of such runs"
)
COMPONENTS = dict(C09.COMPONENTS)
COMPONENTS["real"] = C09.COMPONENTS["real"] + [
    "breezy.bzr.workingtree_4.InterDirStateTree (Rust dirstate iter_changes)",
    "breezy.bzr.inventorytree.InterInventoryTree (generic), InterCHKRevisionTree, _handle_precise_ids",
    "breezy.git.tree.InterGitTrees (dulwich tree_changes + RenameDetector)",
]
ASSUMPTIONS = [
    "the generic comparison is InterInventoryTree.iter_changes instantiated directly (breezy.tree.InterTree.iter_changes is abstract; this is the code InterDirStateTree and InterCHKRevisionTree fall back to); for git trees no second implementation exists, so only the consistency oracles are evaluated there (a filtered result is the part of the unfiltered one that the filter covers; per-path records applied to the source give the target)",
    "representation that is normalised away: order; executable None vs False where the entry does not exist; only the topmost unversioned entry is compared and, with a filter, only unversioned entries literally inside the filter; with a filter and include_unchanged, unchanged entries outside the filter (parents that were merely evaluated) are ignored",
    "a filter path that lies inside another filter path is redundant: the result for the filter and for its minimal form must be equal as sets (redundant_filter_differs), and an entry that did not move and does not lie where a renamed/removed directory used to be must not be reported twice below a redundant root (overlapping_roots_duplicates; kept apart from the recorded duplicate shapes of bzr_filter_duplicates, which all involve a moved entry or the old path of a renamed directory, and whose multiplicity varies from call to call)",
    "revision-tree pairs: consecutive revisions in both directions first, then random pairs; besides the plan's filters, up to two filters derived from the model snapshots that name an entry which stays under its parent (edited / renamed in place) while an ancestor moved",
    "determinism pin (treesim.install_order_pin): results of dirstate iter_changes calls with two or more search roots are handed on sorted by path, because the Rust code walks the roots in per-thread hash order (this order decides the order of texts in the pack a partial commit writes, hence the pack's content-hash name)",
    "valid-delta oracle = every entry hangs off a directory that is in the resulting tree (the property speaks of the parents that are needed); two entries ending on one path (old occupant outside the filter) are counted (probe filtered_name_collision), not judged",
    "differences that are defects already reported (checks/treesim.py GUARDS) are removed from the comparison while the guard is on; lifted as in C09 once known_findings.json has the entry",
    "the working-tree states are the ones the C09 model can reach (see C09 assumptions); trees are read-locked for the whole comparison",
]
STEP_CAP = 400000
ISOLATION = "thread"
P_UNGUARDED = float(__import__("os").environ.get("VERIF_UNGUARDED", "0") or 0)


def warm():
    C09.warm_extra = compare_step
    C09.warm()


def config(tier):
    if tier == "thorough":
        return {"budget_s": 700, "run_timeout": 120, "selftest": 48, "workers": 8}
    return {"budget_s": 45, "run_timeout": 120, "selftest": 24, "workers": 8}


def generate(rng, tier):
    return C09.generate(rng, tier, compare=True)


# -- normalisation ---------------------------------------------------------------------------


def _b(x):
    return bool(x) if x is not None else False


def norm_list(changes, target=None):
    """Like norm_inv, but keeps multiplicity (sorted list)."""
    out = []
    for c in changes:
        out.extend(norm_inv([c], target))
    return sorted(out, key=repr)


def norm_inv(changes, target=None):
    """InventoryTreeChange list -> set of comparable tuples (representation only).
    Unversioned entries: only the topmost one is kept (whether the contents of an
    unversioned directory are listed as well depends on where the filter points)."""
    out = set()
    for c in changes:
        if c.versioned == (False, False):
            if target is not None and not target.is_versioned(T.parent(c.path[1])):
                continue
            out.add(("u", c.path[1], c.kind[1], _b(c.executable[1])))
            continue
        out.add(
            (
                "v",
                c.file_id,
                c.path,
                bool(c.changed_content),
                (bool(c.versioned[0]), bool(c.versioned[1])),
                c.parent_id,
                c.name,
                c.kind,
                (_b(c.executable[0]), _b(c.executable[1])),
            )
        )
    return out


def drop_outside(recs, spec):
    """Without the records whose old and new paths are both outside the filter."""
    return {c for c in recs if c[0] != "v" or any(p is not None and T.inside(s, p) for s in spec for p in c[2])}


def drop_unchanged_outside(recs, spec):
    out = set()
    for c in recs:
        if c[0] == "v":
            _t, _fid, path, ch, ver, par, name, kind, ex = c
            unchanged = not ch and ver == (True, True) and path[0] == path[1] and par[0] == par[1] and name[0] == name[1] and ex[0] == ex[1] and kind[0] == kind[1]
            if unchanged and not any(T.inside(s, path[1]) for s in spec):
                continue
        out.add(c)
    return out


def blank_unchanged_old_path(recs):
    out = set()
    for c in recs:
        if c[0] == "v":
            _t, fid, path, ch, ver, par, name, kind, ex = c
            if not ch and ver == (True, True) and par[0] == par[1] and name[0] == name[1] and ex[0] == ex[1] and kind[0] == kind[1]:
                c = (_t, fid, (None, path[1]), ch, ver, par, name, kind, ex)
        out.add(c)
    return out


def equalise(sim, got, ref, spec, inc, unv, impl, guards, full, a):
    """Remove from both normalised results what is representation (always) or a reported
    defect whose guard is on; what is left must be equal."""
    if spec is not None and unv:
        # unversioned entries are selected by literal path in the generic code and by related
        # (renamed) path in the dirstate: compare inside the filter only
        got = {c for c in got if not (c[0] == "u" and not any(T.inside(s, c[1]) for s in spec))}
        ref = {c for c in ref if not (c[0] == "u" and not any(T.inside(s, c[1]) for s in spec))}
    if spec is not None and unv and "bzr_filter_unversioned_at_removed" in guards:
        got = {c for c in got if not (c[0] == "u" and a.is_versioned(c[1]))}
        ref = {c for c in ref if not (c[0] == "u" and a.is_versioned(c[1]))}
    if inc and impl == "InterCHKRevisionTree" and "chk_unchanged_old_path" in guards:
        got, ref = blank_unchanged_old_path(got), blank_unchanged_old_path(ref)
    if spec is not None and "generic_filter_half_record" in guards:
        broken = {c[1] for c in ref if c[0] == "v" and not c[4][0] and c[2][0] is not None}
        if broken:
            sim.probe("generic_half_record")
            got = {c for c in got if not (c[0] == "v" and c[1] in broken)}
            ref = {c for c in ref if not (c[0] == "v" and c[1] in broken)}
    if spec is not None and impl == "InterDirStateTree" and "dirstate_filter_overinclusion" in guards:
        more = got - ref
        if more and more <= full[inc, unv]:
            sim.probe("dirstate_filter_overinclusion")
            got = got - more
    if spec is not None and inc and "filter_unchanged_parent" in guards:
        got, ref = drop_outside(got, spec), drop_outside(ref, spec)
    if spec is not None and inc:
        # unchanged entries outside the filter (parents that were "evaluated for changes
        # too") carry no information: one implementation lists them
        got, ref = drop_unchanged_outside(got, spec), drop_unchanged_outside(ref, spec)
    return got, ref


def _short(s, n=5):
    return sorted(s, key=repr)[:n]


# -- oracles -----------------------------------------------------------------------------------


def entries_by_id(tree):
    """fid -> (parent_id, name, kind) of a bzr tree (kind as recorded by the tree)."""
    out = {}
    for _path, ie in tree.iter_entries_by_dir():
        out[ie.file_id] = (ie.parent_id, ie.name, ie.kind)
    return out


def apply_inv_delta(source_entries, changes):
    ent = dict(source_entries)
    for c in changes:
        if c[0] != "v":
            continue
        _t, fid, _path, _ch, versioned, parent_id, name, kind, _x = c
        if versioned[1]:
            old = ent.get(fid)
            k = kind[1] if kind[1] is not None else (old[2] if old else None)
            ent[fid] = (parent_id[1], name[1], k)
        else:
            ent.pop(fid, None)
    return ent


def name_collision(ent):
    names = {}
    for f, (par, name, _k) in ent.items():
        if (par, name) in names:
            return "two entries named %r in %r: %r and %r" % (name, par, names[(par, name)], f)
        names[(par, name)] = f
    return None


def valid_inventory(ent):
    """None if every entry of `ent` (fid -> parent, name, kind) hangs off a directory that is
    in the tree, else a description.  (Two entries of one name - a filtered result that
    moves an entry onto a path whose old occupant is outside the filter - are counted by
    the caller, not judged: the property speaks of the parents that are needed.)"""
    roots = [f for f, e in ent.items() if e[0] is None]
    if len(roots) != 1 and ent:
        return "roots: %r" % roots
    for f, (par, name, _k) in ent.items():
        if par is None:
            continue
        if par not in ent:
            return "entry %r (%r) has a parent %r that is not in the tree" % (f, name, par)
        if ent[par][2] not in ("directory", None):
            return "entry %r (%r) has a parent %r that is a %s" % (f, name, par, ent[par][2])
    for f in ent:
        seen = set()
        cur = f
        while cur is not None:
            if cur in seen:
                return "parent loop at %r" % f
            seen.add(cur)
            cur = ent[cur][0]
    return None


def paths_of(ent):
    out = {}

    def path(f):
        par, name, _k = ent[f]
        if par is None:
            return ""
        pp = path(par)
        return pp + "/" + name if pp else name

    for f in ent:
        out[f] = path(f)
    return out


class Ctx:
    def __init__(self, sim, fl, where, risky=None):
        self.sim, self.fl, self.where = sim, fl, where
        self.territory = None  # reported defect (lifted guard) that explains the failure
        self.risky = risky or {}  # filter (tuple) -> guard that would have pruned it

    def fail(self, tag, impl, detail, params):
        T.fail(self.sim, "C10", tag, [self.fl, impl], "%s; %s: %s" % (self.where, json.dumps(params), detail), self.territory)


def compare_pair(ctx, a, b, filters, plan_names, is_wt, guards=frozenset()):
    """All oracles on the pair (source a, target b); both read-locked by the caller."""
    from breezy.tree import InterTree

    sim, fl = ctx.sim, ctx.fl
    inter = InterTree.get(a, b)
    impl = type(inter).__name__
    sim.probe("impl_" + impl)
    evaluations = 0
    differed = False
    if fl == "bzr":
        from breezy.bzr.inventorytree import InterInventoryTree

        src_entries = entries_by_id(a)
        full = {}
        for spec in [None] + filters:
            for inc in (False, True):
                for unv in (False, True) if is_wt else (False,):
                    params = {"specific_files": spec, "include_unchanged": inc, "want_unversioned": unv}
                    evaluations += 1
                    try:
                        raw = list(InterTree.get(a, b).iter_changes(inc, spec, want_unversioned=unv, require_versioned=False))
                    except Exception as e:  # noqa: BLE001
                        if spec is not None and tuple(spec) in ctx.risky:
                            ctx.territory = ctx.risky[tuple(spec)]
                        ctx.fail("optimised_raised", impl, "%s raised %r" % (impl, e), params)
                    try:
                        raw_ref = list(InterInventoryTree(a, b).iter_changes(inc, spec, want_unversioned=unv, require_versioned=False))
                    except Exception as e:  # noqa: BLE001
                        ctx.fail("generic_raised", impl, "generic InterInventoryTree raised %r" % (e,), params)
                    for who, lst in ((impl, raw), ("generic", raw_ref)):
                        ids = [c.file_id for c in lst if c.file_id is not None]
                        if len(ids) != len(set(ids)):
                            if "bzr_filter_duplicates" in guards and spec is not None:
                                sim.probe("duplicate_entries")
                            else:
                                dup = sorted({i for i in ids if ids.count(i) > 1})
                                if spec is not None:
                                    ctx.territory = "bzr_filter_duplicates"
                                ctx.fail("duplicate_entries", who, "%s reports %r more than once" % (who, dup[:4]), params)
                    if spec is not None and len(T.minimal_filter(spec)) < len(spec):
                        # a filter path that lies inside another one selects nothing new: the
                        # result (as a multiset) must be that of the filter without it
                        mn = T.minimal_filter(spec)
                        evaluations += 1
                        for who, cls_, lst in ((impl, None, raw), ("generic", InterInventoryTree, raw_ref)):
                            try:
                                inter2 = InterTree.get(a, b) if cls_ is None else cls_(a, b)
                                alt = list(inter2.iter_changes(inc, mn, want_unversioned=unv, require_versioned=False))
                            except Exception as e:  # noqa: BLE001
                                ctx.fail("optimised_raised" if cls_ is None else "generic_raised", who, "%s raised %r for the minimal filter %r" % (who, e, mn), params)
                            x, y = norm_inv(lst, b), norm_inv(alt, b)
                            if x != y:
                                ctx.fail("redundant_filter_differs", who, "%s: filter %r and its minimal form %r give different results; only with the redundant filter: %r; only with the minimal one: %r" % (who, spec, mn, _short(x - y, 4), _short(y - x, 4)), params)
                        # entries reported twice because filter roots overlap: an entry that did not
                        # move (so not one of the recorded shapes of bzr_filter_duplicates, which
                        # all concern entries whose path changed) and lies below a redundant root
                        inner = [s for s in spec if s not in mn]
                        seen_ids = {}
                        for ch in raw:
                            if ch.file_id is not None:
                                seen_ids.setdefault(ch.file_id, []).append(ch)
                        for fid, chs in sorted(seen_ids.items()):
                            ch = chs[0]
                            if len(chs) > 1 and (ch.path[0] == ch.path[1] or None in ch.path):
                                p = ch.path[1] if ch.path[1] is not None else ch.path[0]
                                # ... nor lies where a moved / removed entry (of any kind) used to be (the
                                # other recorded shape: anything at or below the OLD path of such an entry)
                                old_dirs = [r[2][0] for r in full.get((False, False), ()) if r[0] == "v" and r[2][0] is not None and r[2][0] != r[2][1]]
                                if any(T.inside(o, p) for o in old_dirs):
                                    continue
                                if any(T.inside(s, p) for s in inner):
                                    ctx.fail("overlapping_roots_duplicates", impl, "%s reports %r (%r, not moved) %d times; it lies below %r, which the filter %r names in addition to an enclosing path" % (impl, fid, ch.path, len(chs), [s for s in inner if T.inside(s, p)], spec), params)
                    got_all, ref_all = norm_inv(raw, b), norm_inv(raw_ref, b)
                    got, ref = equalise(sim, got_all, ref_all, spec, inc, unv, impl, guards, full, a)
                    if got != ref:
                        # which lifted guard (reported defect) explains the difference?
                        lifted = sorted(T.active_guards() - set(guards))
                        for g in lifted + ["+".join(lifted)]:
                            x, y = equalise(sim, got_all, ref_all, spec, inc, unv, impl, set(guards) | set(g.split("+")), full, a)
                            if lifted and x == y:
                                ctx.territory = g
                                break
                        tag = "filtered_differs" if spec is not None else "unfiltered_differs"
                        ctx.fail(tag, impl, "only %s: %r; only generic: %r" % (impl, _short(got - ref), _short(ref - got)), params)
                    if spec is None:
                        full[inc, unv] = got
                    if any(c[0] == "v" and (c[3] or c[2][0] != c[2][1] or c[4][0] != c[4][1]) for c in got):
                        differed = True
                    # a (filtered) result must be applicable to the source
                    if not inc:
                        for who, recs in ((impl, got_all), ("generic", ref_all)):
                            applied = apply_inv_delta(src_entries, recs)
                            if spec is not None and name_collision(applied):
                                sim.probe("filtered_name_collision")
                            bad = valid_inventory(applied)
                            if bad:
                                ctx.fail("invalid_delta", who, "applying the result of %s to the source does not give a tree: %s; result %r" % (who, bad, _short(recs, 8)), params)
        # unfiltered changes applied to the source snapshot give the target snapshot
        snap_a, snap_b = T.tree_snapshot(a), T.tree_snapshot(b)
        ent = apply_inv_delta(src_entries, full[False, False])
        got_paths = {p: f for f, p in paths_of(ent).items()}
        want_paths = {p: v[3] for p, v in snap_b.items()}
        if got_paths != want_paths:
            ctx.fail("apply_differs", impl, "source + changes has %r, target has %r" % (_short(set(got_paths.items()) - set(want_paths.items())), _short(set(want_paths.items()) - set(got_paths.items()))), {"specific_files": None})
        ida = {v[3]: (p,) + tuple(v[:3]) for p, v in snap_a.items()}
        idb = {v[3]: (p,) + tuple(v[:3]) for p, v in snap_b.items()}
        reported = {c[1]: c for c in full[False, False] if c[0] == "v"}
        for fid in set(ida) | set(idb):
            oa, ob = ida.get(fid), idb.get(fid)
            c = reported.get(fid)
            if oa is None or ob is None:
                if c is None:
                    ctx.fail("apply_differs", impl, "entry %r exists on one side only and is not reported" % (fid,), {"specific_files": None})
                continue
            same_content = oa[1] == ob[1] and oa[2] == ob[2]
            if c is None:
                if not same_content or bool(oa[3]) != bool(ob[3]):
                    ctx.fail("apply_differs", impl, "entry %r differs (%r -> %r) and is not reported" % (fid, oa, ob), {"specific_files": None})
            else:
                if c[3] == same_content and ob[1] is not None:
                    ctx.fail("apply_differs", impl, "entry %r: changed_content=%r but %r -> %r" % (fid, c[3], oa[1:3], ob[1:3]), {"specific_files": None})
                if c[7] != (oa[1], ob[1]) or c[8] != (bool(oa[3]), bool(ob[3])):
                    ctx.fail("apply_differs", impl, "entry %r: reported kind/exec %r %r, trees have %r -> %r" % (fid, c[7], c[8], oa, ob), {"specific_files": None})
    else:
        snap_a, snap_b = T.tree_snapshot(a), T.tree_snapshot(b)
        full = {}
        for spec in [None] + filters:
            for inc in (False, True):
                for unv in (False, True) if is_wt else (False,):
                    params = {"specific_files": spec, "include_unchanged": inc, "want_unversioned": unv}
                    evaluations += 1
                    try:
                        raw = list(InterTree.get(a, b).iter_changes(inc, spec, want_unversioned=unv, require_versioned=False))
                    except Exception as e:  # noqa: BLE001
                        ctx.fail("optimised_raised", impl, "%s raised %r" % (impl, e), params)
                    got = T.normalise_changes(raw, "git")
                    if spec is not None and len(T.minimal_filter(spec)) < len(spec):
                        mn = T.minimal_filter(spec)
                        evaluations += 1
                        alt = T.normalise_changes(list(InterTree.get(a, b).iter_changes(inc, mn, want_unversioned=unv, require_versioned=False)), "git")
                        if alt != got:
                            ctx.fail("redundant_filter_differs", impl, "filter %r and its minimal form %r give different results: %r" % (spec, mn, _short(alt ^ got)), params)
                    if spec is None:
                        full[inc, unv] = got
                        if any(r[0] == "p" for r in got) and not inc:
                            differed = True
                        continue
                    whole = full[inc, unv]
                    # a filtered result is the part of the unfiltered one that the filter covers
                    wmap = {w[1]: w for w in whole if w[0] == "p"}
                    wother = {w for w in whole if w[0] != "p"}

                    def part_of_whole(r):
                        if r[0] != "p":
                            return r in wother
                        w = wmap.get(r[1])
                        # a path that is both source and target of guessed renames shows one
                        # half only when the other rename partner is outside the filter
                        return w is not None and (r[2] is None or r[2] == w[2]) and (r[3] is None or r[3] == w[3])

                    extra = {r for r in got if not part_of_whole(r)}
                    if extra:
                        ctx.fail("filtered_differs", impl, "filtered result reports %r, the unfiltered one does not" % (_short(extra),), params)
                    must = {w[:4] for w in whole if w[0] == "p" and any(T.inside(s, w[1]) for s in spec)}
                    lost = must - {r[:4] for r in got}
                    if lost:
                        ctx.fail("filtered_differs", impl, "unfiltered result has %r below the filter, the filtered one does not" % (_short(lost),), params)
        # unfiltered records applied to the source give the target (per path, files and links)
        def leaves(snap):
            dirs = {a for p in snap for a in T.ancestors(p)}
            return {p: (v[0], bool(v[2])) for p, v in snap.items() if v[0] not in (None, T.DIR) and p not in dirs}

        pa, pb = leaves(snap_a), leaves(snap_b)
        res = dict(pa)
        for r in full[False, False]:
            if r[0] != "p":
                continue
            if r[3] is None:
                res.pop(r[1], None)
            else:
                res[r[1]] = r[3][1:]
            if r[2] != pa.get(r[1]):
                ctx.fail("apply_differs", impl, "record %r: source has %r" % (r, pa.get(r[1])), {"specific_files": None})
        if res != pb:
            ctx.fail("apply_differs", impl, "source + changes has %r, target has %r" % (_short(set(res.items()) - set(pb.items())), _short(set(pb.items()) - set(res.items()))), {"specific_files": None})
        for p in set(pa) & set(pb):
            if pa[p] == pb[p] and snap_a[p][1] != snap_b[p][1] and not any(r[1] == p for r in full[False, False]):
                ctx.fail("apply_differs", impl, "content of %r differs and is not reported" % p, {"specific_files": None})
    return evaluations, differed


def compare_step(sim, tree, model, i, op):
    plan = sim.plan
    st = sim.notes.setdefault("c10", {"evals": 0, "differed": False, "revs": []})
    if op["o"] == "commit" and not op.get("bad"):
        rid = tree.last_revision()
        if rid not in st["revs"]:
            st["revs"].append(rid)
    if i % plan.get("every", 1) != 0 and i != len(plan["ops"]) - 1:
        return
    fl = model.flavour
    if model.dir_replaced():
        if "bzr_dir_replaced" in model.guards:
            sim.probe("cmp_skipped_guard")
            return
        sim.notes.setdefault("territory", "bzr_dir_replaced")
    filters = [f for f in (model.usable_filter(f) for f in plan.get("filters", [])) if f]
    strict = model.copy()
    strict.guards = T.active_guards()
    risky = {tuple(f): "bzr_enotdir_filter" for f in filters if strict.usable_filter(f) != f}
    with tree.lock_read():
        basis = tree.basis_tree()
        with basis.lock_read():
            n, d = compare_pair(Ctx(sim, fl, "step %d (%s), basis vs working tree" % (i, op["o"]), risky), basis, tree, filters, plan.get("names", []), True, model.guards)
    st["evals"] += n
    st["differed"] = st["differed"] or d
    sim.event("cmp", i, n)


def compare_history(sim, tree, model):
    st = sim.notes.setdefault("c10", {"evals": 0, "differed": False, "revs": []})
    revs = st["revs"]
    if len(revs) < 1:
        return
    from breezy.revision import NULL_REVISION

    rng = sim.rng("pairs")
    cands = [NULL_REVISION] + revs
    # consecutive revisions in both directions first (one commit's worth of change is where a
    # filter on one entry and a renamed ancestor outside the filter meet), then random pairs
    pairs = []
    for i in range(len(cands) - 1):
        pairs += [(cands[i], cands[i + 1]), (cands[i + 1], cands[i])]
    rng.shuffle(pairs)
    rest = [(x, y) for x in cands for y in cands if x != y and (x, y) not in pairs]
    rng.shuffle(rest)
    pairs = pairs[:3] + rest[:2]
    snaps = {NULL_REVISION: {}}
    if model.flavour == "bzr" and len(model.revs) == len(revs):
        for rid, (_name, snap) in zip(revs, model.revs, strict=False):
            snaps[rid] = snap
    repo = tree.branch.repository
    with repo.lock_read():
        for x, y in pairs:
            filters = list(sim.plan.get("filters", []))
            filters += targeted_filters(snaps.get(x), snaps.get(y), rng)
            a, b = repo.revision_tree(x), repo.revision_tree(y)
            with a.lock_read(), b.lock_read():
                n, d = compare_pair(Ctx(sim, model.flavour, "revision trees %s -> %s" % (x.decode()[:12], y.decode()[:12])), a, b, filters, sim.plan.get("names", []), False, model.guards)
            st["evals"] += n
            st["differed"] = st["differed"] or d
            sim.event("cmp-revs", cands.index(x), cands.index(y), n)


def targeted_filters(sa, sb, rng):
    """Filters derived from two model snapshots (bzr: path -> (file id, kind, data, exec)):
    an entry that stays under the same parent (edited, exec bit, or renamed in place) while
    one of its ancestors moved - the case where the parent expansion of a filtered comparison
    has to climb to an entry outside the filter."""
    if not sa or not sb:
        return []
    ia = {e[0]: p for p, e in sa.items()}
    ib = {e[0]: p for p, e in sb.items()}
    out, hot = [], []
    for fid in sorted(set(ia) & set(ib)):
        pa, pb = ia[fid], ib[fid]
        if not pa or not pb:
            continue
        par_a, par_b = sa.get(T.parent(pa)), sb.get(T.parent(pb))
        if par_a is None or par_b is None or par_a[0] != par_b[0]:
            continue  # reparented (or odd): the ordinary expansion handles it
        if T.parent(pa) == T.parent(pb):
            continue  # no ancestor moved
        edited = sa[pa][1:] != sb[pb][1:] or T.posixpath.basename(pa) != T.posixpath.basename(pb)
        (hot if edited else out).append([pb] if rng.random() < 0.6 else [pa])
    rng.shuffle(hot)
    rng.shuffle(out)
    return (hot + out)[:2]


def execute(sim, plan):
    C09.warm_extra = compare_step
    sim.notes["prop"] = "C10"
    tree, model = C09.execute(sim, plan, compare_step)
    ok = sim.nontrivial
    compare_history(sim, tree, model)
    st = sim.notes.get("c10", {"evals": 0, "differed": False})
    sim.notes["evaluations"] = max(1, st["evals"])
    sim.nontrivial = bool(ok and st["differed"])
    for k in ("c10", "prop", "territory", "territory_state"):
        sim.notes.pop(k, None)
