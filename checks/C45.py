"""C45 — End-of-line filters round-trip canonical content.

A rider on simulated working-tree histories: one run = one per-user rules file
(`[name *] eol = S`, optionally preceded by `[name *.x] eol = S2`, S and S2 drawn from
the seven documented settings), one branch in a seeded format whose working trees support
content filtering (2a: CHK repository, a text is one chunk; 1.14 / 1.14-rich-root: knit-pack
repository, one chunk per line) with up to four working trees (the standalone tree and
lightweight checkouts of its branch) and a seeded, model-generated sequence of

    write      the user writes a file (contents over CR / LF / NUL / letters: line-structured
               text with the checkout convention, LF, CRLF or mixed endings, interior bare
               CRs; byte soup; binary (with NUL); the current content re-spelled with the
               other line ending; in a share of the runs one or two LARGE files of 1-3 whole
               32 KiB blocks plus a tail: text whose line ends sit exactly at block boundaries
               of the checkout form or of the written form (CR last byte of a block / LF first
               byte of the next, ending closes a block, ending opens a block), and binaries
               whose first block has line ends but no NUL) - added on first use
    commit     working tree -> repository        (read filters)
    checkout   repository -> fresh working tree (write filters; tip or an older revision;
               with or without accelerator tree)
    revert     repository -> working tree       (write filters), whole tree or selected paths
    update     an out-of-date tree follows the branch (merge; write filters)
    merge      a one-shot side branch (sprout of the tree's basis, new and changed files
               committed there) is merged into a clean tree: new files are created through the
               merger's create_from_tree (32 KiB blocks); the merge is committed by a later commit
    reopen

After every operation the tree is compared with a model that knows nothing about breezy's
converters: the documented table of `brz help eol` (which line ending a setting stores,
which it checks out) applied to text split at its line endings.  Compared: bytes on disk,
`get_file_text` (filtered and unfiltered), `get_file_sha1`, `iter_changes` against the
basis, `has_changes`, the basis tree's texts, and after commit which revision last
changed each file.

There is no schedule and no fault in this check: it is a cross-check over states reached
by simulated histories."""

import hashlib
import json
import os
import re

from simkit import world

from . import treesim as T

PROPERTY = "C45"
LEVEL = "exploration"
RULE = (
    "one case = one seeded run: eol setting for '*' and (70%) a second one for '*.x' out of native, lf, crlf, native-with-crlf-in-repo, "
    "lf-with-crlf-in-repo, crlf-with-crlf-in-repo, exact; branch format 2a | 1.14 | 1.14-rich-root; 6-24 model-generated operations (write / commit / fresh checkout / revert / update / merge of a side branch / reopen) "
    "over 5 paths and up to 4 working trees of one branch, file contents over CR, LF, NUL and letters, in a share of the runs 1-2 files of 33-100 KiB with line ends aligned at 32 KiB block boundaries or with NULs only after the first block; the tree is compared with the model after every operation; "
    "non-trivial = at least one commit and one repository->tree operation (checkout, revert that rewrote a file, update, merge) were executed and compared under a converting setting; "
    "distinct = distinct event-log digests of such runs ((setting, operation, content class) combinations counted as model states). "
    "No schedule and no fault of its own: a cross-check riding on simulated tree histories"
)
COMPONENTS = {
    "real": [
        "breezy.filters (filtered_input_file, filtered_output_bytes, _get_filter_stack_for), breezy.filters.eol (converters, _eol_filter_stack_map)",
        "breezy.rules (_IniBasedRulesSearcher over the rules file under BRZ_HOME), Tree._content_filter_stack / iter_search_rules",
        "breezy.bzr.workingtree_4 (WorkingTree6, ContentFilterAwareSHA1Provider, dirstate iter_changes), breezy.workingtree.get_file_with_stat",
        "breezy.commit, breezy.transform (build_tree incl. accelerator tree, revert, create_from_tree), breezy.merge (update, merge_from_branch of a sprouted side branch), lightweight checkouts",
        "repository formats 2a (CHK, groupcompress) and 1.14 / 1.14-rich-root (KnitPack6: texts handed out line by line) with WorkingTreeFormat6 / 5",
        "a real directory on /dev/shm; bzr control files through the storage seam (sim+file://)",
    ],
    "simulated": ["the user editing, committing, checking out, reverting and updating (seeded operation sequence)", "process restart (drop the object, WorkingTree.open)"],
    "stub": ["UI (SilentUIFactory)", "user identity / BRZ_HOME (scratch; the rules file is written there per run)"],
}
ASSUMPTIONS = [
    "rider, not a simulation of the filters: no scheduling, no fault injection; the only seeded inputs are the settings, the operation sequence and the file contents",
    "POSIX: 'native' checks out LF (sys.platform != win32)",
    "bzr working trees that support content filtering: formats 2a (WorkingTree6) and 1.14 / 1.14-rich-root (WorkingTree5); 1.9, pack-0.92 and older formats have WorkingTreeFormat4/3 without content filtering. Git working trees of this code base also support content filtering (per-user rules stacked under a .gitattributes text/eol searcher, breezy/git/workingtree.py); they are not covered here",
    "rules are cached per process in the module global breezy.rules._per_user_searcher (built at import from the rules path of that moment): every run writes its rules file to rules.rules_path() under its own BRZ_HOME and calls rules.reset_rules() (runs of one worker are sequential, ISOLATION=thread); filters._stack_cache maps (name, value) to immutable stacks and needs no reset",
    "oracle = the table of `brz help eol`: a setting stores LF (native, lf, crlf) or CRLF (*-with-crlf-in-repo) and checks out LF (native, lf, native-/lf-with-crlf-in-repo) or CRLF (crlf, crlf-with-crlf-in-repo); 'exact' and content with a NUL byte are never converted. Applied by the model as: split at every CRLF or LF, join with the target ending",
    "what 'canonical' means is narrowed to where the documentation is unambiguous: text without NUL and without the byte sequence CR CR LF (a bare CR directly before a CRLF). For such text every prediction is exact (what commit stores, what checkout/revert/update write, what is read back, that a fresh checkout reports no changes). Bare CRs elsewhere are allowed and must pass through untouched",
    "content with CR CR LF (reachable only from the byte-soup generator) is NOT asserted against the property while the guard 'crcrlf' is on (GUARDS; lifted in VERIF_UNGUARDED of the runs or, once known_findings.json has an open entry [C45, 'known-defect', 'crcrlf'], in 20% of them: then a fresh checkout that reports changes fails with that signature): breezy's converters are not idempotent there (CR CR LF -> CR LF -> LF), so commit can store text that a fresh checkout reports as modified (see the final report). For such files the model takes what breezy read / stored / wrote as given and only checks that conversion touched nothing but CRs directly in front of an LF (contents equal after collapsing CR* LF to LF) and that all views agree with each other (get_file_text, sha1, iter_changes, commit)",
    "every write gives the file a length no earlier content of the run had on disk or in the repository (padding with letters; 32-byte bands per write; large files: blocks*32768 + 1024 + 32*n, at most 12 line ends), so nothing asserted depends on the dirstate stat cache; the real clock is left alone",
    "large contents are stored run-length encoded in the plan; block alignment is computed for osutils.file_iterator's 32768-byte blocks in the checkout form of the file's setting (70%) or in the other spelling, and the user writes either spelling",
    "merge: the side branch is used once (sprout at the tree's basis, one commit of new files and of changed existing files, merged into a tree that is clean and up to date), so it cannot conflict; not generated while any text of the basis is outside the canonical form (the side tree is a fresh checkout that is committed: crcrlf territory); while the merge is pending revert / update / another merge are not generated; a text taken over unchanged from the merged revision must keep the text version it has there",
    "update is only generated when it cannot conflict: no pending adds, and no file that is locally modified was changed on the branch since the tree's basis; revert runs with backups=False; commit with allow_pointless=True, explicit revision ids, file ids, timestamps and committer",
    "a file whose canonical reading equals the basis is not rewritten by revert/update even if its bytes on disk differ (e.g. CRLF spelling under eol=lf): the property only speaks about canonical content",
    "runs execute in-process (ISOLATION=thread): each run builds rules file, trees, model and Sim from scratch",
]
STEP_CAP = 400000
ISOLATION = "thread"

# Behaviour of the code under test that this check found and does not assert while the guard
# is on (see ASSUMPTIONS).  Lifted in VERIF_UNGUARDED of the runs, or in 20% of the runs once
# known_findings.json has an open entry [C45, "known-defect", guard].
GUARDS = {
    # the eol converters are not idempotent on CR CR LF: commit (read converter) stores
    # text that is not a fixed point of write-then-read, so a fresh checkout of that
    # revision reports the file as modified
    "crcrlf": True,
}
P_UNGUARDED = float(os.environ.get("VERIF_UNGUARDED", "0") or 0)
P_LIFT = 0.2

LF, CRLF, NUL = b"\n", b"\r\n", b"\x00"
SETTINGS = ["native", "lf", "crlf", "native-with-crlf-in-repo", "lf-with-crlf-in-repo", "crlf-with-crlf-in-repo", "exact"]
# `brz help eol`: "Commit end-of-lines as" / "Checkout end-of-lines as" (POSIX)
REPO_EOL = {"native": LF, "lf": LF, "crlf": LF, "native-with-crlf-in-repo": CRLF, "lf-with-crlf-in-repo": CRLF, "crlf-with-crlf-in-repo": CRLF}
WT_EOL = {"native": LF, "lf": LF, "crlf": CRLF, "native-with-crlf-in-repo": LF, "lf-with-crlf-in-repo": LF, "crlf-with-crlf-in-repo": CRLF}
NAMES = ["a", "b.x", "d/c", "d/e.x", "g"]
MAX_TREES = 4
BAND = 32
BLOCK = 32768  # osutils.file_iterator's block size: where block-wise readers / writers would cut a file
BIG_EXTRA = 1024
# formats whose working trees support content filtering (WorkingTreeFormat5/6): the CHK repository
# of 2a hands out a file's text as one chunk, the knit-pack repositories of 1.14 one chunk per line
FORMATS = ["2a", "2a", "1.14", "1.14-rich-root"]
_EOL_RE = re.compile(rb"\r?\n")
_BARE_LF = re.compile(rb"(?<!\r)\n")
_CRS_LF = re.compile(rb"\r+\n")


# --------------------------------------------------------------------------------------
# the oracle: the documented table, applied to text split at its line endings
# --------------------------------------------------------------------------------------


def klass(b):
    if NUL in b:
        return "binary"
    if b"\r\r\n" in b:
        return "wild"
    return "text" if (b"\n" in b or b"\r" in b) else "plain"


def respell(b, eol):
    return eol.join(_EOL_RE.split(b))


def to_repo(x, s):
    """What commit stores / what the tree reads back for working-tree bytes x, or None
    where the documentation does not decide (CR CR LF)."""
    if s == "exact" or NUL in x:
        return x
    if b"\r\r\n" in x:
        return None
    return respell(x, REPO_EOL[s])


def strictly_canonical(r, s):
    if s == "exact" or NUL in r:
        return True
    if b"\r\r\n" in r:
        return False
    if REPO_EOL[s] == LF:
        return CRLF not in r
    return _BARE_LF.search(r) is None


def to_wt(r, s):
    """What checkout / revert / update write for repository text r, or None when r is not
    in the setting's canonical form (the property says nothing then)."""
    if s == "exact" or NUL in r:
        return r
    if not strictly_canonical(r, s):
        return None
    return respell(r, WT_EOL[s])


def collapse(b):
    return _CRS_LF.sub(b"\n", b)


def is_opaque(v):
    return isinstance(v, tuple)


def op_bytes(spec):
    """Content of a write: literal ("x", latin-1) or run-length encoded ("rle": [[count, token], ...])."""
    if "rle" in spec:
        return b"".join(tok.encode("latin-1") * cnt for cnt, tok in spec["rle"])
    return spec["x"].encode("latin-1")


def show(b, other=None):
    """Short rendering of (possibly large) content for failure details."""
    if b is None or is_opaque(b):
        return repr(b)
    if len(b) <= 160:
        return repr(b)
    out = "<%d bytes, sha1 %s, starts %r, ends %r" % (len(b), hashlib.sha1(b).hexdigest()[:10], b[:24], b[-24:])
    if other is not None and not is_opaque(other) and other != b:
        k = next((i for i, (x, y) in enumerate(zip(b, other)) if x != y), min(len(b), len(other)))
        out += "; first difference at offset %d: %r" % (k, b[max(0, k - 8) : k + 8])
    return out + ">"


class World:
    """Model: revisions of one branch (path -> repository text), working trees (basis,
    versioned files, bytes on disk, canonical reading).  Values the documentation does not
    decide are opaque tokens ("?", n) until the executor substitutes what it observed."""

    def __init__(self, s, s2):
        self.s, self.s2 = s, s2
        # [(name, {path: text}, {path: name of the revision that last changed it})]; rev-0 holds the directory "d" only
        self.revs = [("rev-0", {}, {})]
        self.n = 0
        # [{"basis": index, "ver": set of files, "disk": {}, "read": {}, "junk": unversioned leftovers}]
        self.trees = [{"basis": 0, "ver": set(), "disk": {}, "read": {}, "junk": set(), "pending": None}]
        # one-shot side branches merged into a tree: name -> ({path: text}, {path: last-changed revision})
        self.sides = {}

    def setting(self, p):
        return self.s2 if (self.s2 and p.endswith(".x")) else self.s

    def opaque(self):
        self.n += 1
        return ("?", self.n)

    def reading(self, p, x):
        if is_opaque(x):
            return self.opaque()
        r = to_repo(x, self.setting(p))
        return self.opaque() if r is None else r

    def wt_form(self, p, r):
        if is_opaque(r):
            return self.opaque()
        w = to_wt(r, self.setting(p))
        return self.opaque() if w is None else w

    def subst(self, token, value):
        for texts in [r[1] for r in self.revs] + [sd[0] for sd in self.sides.values()]:
            for p, v in texts.items():
                if v == token:
                    texts[p] = value
        for t in self.trees:
            for layer in (t["disk"], t["read"]):
                for p, v in layer.items():
                    if v == token:
                        layer[p] = value

    def at(self, op):
        """Revision index of a checkout (clipped to the tip, so that shrinking may drop commits)."""
        return min(op["at"], self.tip())

    def tip(self):
        return len(self.revs) - 1

    def basis_texts(self, t):
        return self.revs[t["basis"]][1]

    def modified(self, t):
        b = self.basis_texts(t)
        return {p for p in t["ver"] if p in b and t["read"][p] != b[p]}

    def added(self, t):
        b = self.basis_texts(t)
        return {p for p in t["ver"] if p not in b}

    # -- operations: pre(op) -> may it be executed now;  do(op) -> effect -----------------------
    def pre(self, op):
        o = op["o"]
        if o == "checkout":
            if op["t"] != len(self.trees) or len(self.trees) >= MAX_TREES:
                return False
            return 0 <= op["at"] and op.get("accel", 0) < len(self.trees)
        if op["t"] >= len(self.trees):
            return False
        t = self.trees[op["t"]]
        if o == "write":
            p = op["p"]
            if p in t["ver"]:
                return True
            # a new file: the same path (and file id) must not have appeared on the branch behind this tree's back
            return all(p not in texts for _n, texts, _lc in self.revs[t["basis"] + 1 :])
        if o == "commit":
            return t["basis"] == self.tip() and all(n != op["rev"] for n, _t, _l in self.revs)
        if o == "revert":
            if t["pending"]:
                return False  # what revert does with files a pending merge created is not this check's subject
            b = self.basis_texts(t)
            return all(s == "d" or s in t["ver"] or s in b for s in (op.get("paths") or []))
        if o == "merge":
            # a one-shot side branch (sprout of the tree's basis, one commit) merged into a clean, up-to-date tree
            if t["pending"] or t["basis"] != self.tip() or self.modified(t) or self.added(t) or not op["files"]:
                return False
            if op["rev"] in self.sides or any(n == op["rev"] for n, _t, _l in self.revs):
                return False
            b = self.basis_texts(t)
            # the side tree is a fresh checkout that gets committed: keep out of the crcrlf territory (a file
            # whose stored text is not canonical reads back changed there and would be committed on the side)
            if any(is_opaque(r) or to_wt(r, self.setting(q)) is None for q, r in b.items()):
                return False
            ps = [f["p"] for f in op["files"]]
            if len(set(ps)) != len(ps):
                return False
            return all(p in b or (p not in t["ver"] and p not in t["junk"]) for p in ps)
        if o == "update":
            if t["pending"] or t["basis"] == self.tip() or self.added(t):
                return False
            b, tip = self.basis_texts(t), self.revs[self.tip()][1]
            if any(p in t["junk"] for p in tip if p not in b):
                return False  # an unversioned file is in the way of a file the branch added
            return all(tip.get(p) == b[p] for p in self.modified(t))
        if o == "reopen":
            return True
        raise KeyError(o)

    def do(self, op):
        """Applies op; returns the set of paths whose bytes on disk the operation wrote."""
        o = op["o"]
        if o == "checkout":
            at = self.at(op)
            texts = self.revs[at][1]
            t = {"basis": at, "ver": set(texts), "disk": {}, "read": {}, "junk": set(), "pending": None}
            for p, r in texts.items():
                t["disk"][p] = self.wt_form(p, r)
                t["read"][p] = r if not is_opaque(t["disk"][p]) else self.opaque()
            self.trees.append(t)
            return set(texts)
        t = self.trees[op["t"]]
        if o == "write":
            p, x = op["p"], op_bytes(op)
            t["ver"].add(p)
            t["junk"].discard(p)
            t["disk"][p] = x
            t["read"][p] = self.reading(p, x)
            return {p}
        if o == "commit":
            prev = self.revs[t["basis"]]
            texts = {p: t["read"][p] for p in t["ver"]}
            last = {p: (prev[2][p] if p in prev[1] and prev[1][p] == texts[p] else op["rev"]) for p in texts}
            if t["pending"]:
                # a text taken over unchanged from the merged revision keeps the version it has there
                stexts, slast = self.sides[t["pending"]]
                for p in texts:
                    if slast.get(p) == t["pending"] and stexts[p] == texts[p]:
                        last[p] = t["pending"]
                t["pending"] = None
            self.revs.append((op["rev"], texts, last))
            t["basis"] = self.tip()
            return set()
        if o == "merge":
            btexts, blast = self.revs[t["basis"]][1], self.revs[t["basis"]][2]
            stexts, slast = dict(btexts), dict(blast)
            changed = set()
            for f in op["files"]:
                p = f["p"]
                r = self.reading(p, op_bytes(f))
                if p not in btexts or r != btexts[p]:
                    stexts[p], slast[p] = r, op["rev"]
                    changed.add(p)
            self.sides[op["rev"]] = (stexts, slast)
            for p in changed:
                t["ver"].add(p)
                t["disk"][p] = self.wt_form(p, stexts[p])
                t["read"][p] = stexts[p] if not is_opaque(t["disk"][p]) else self.opaque()
            t["pending"] = op["rev"]
            return changed
        if o == "revert":
            b = self.basis_texts(t)
            sel = op.get("paths")
            wrote = set()
            for p in sorted(t["ver"]):
                if sel is not None and not any(T.inside(s, p) for s in sel):
                    continue
                if p not in b:
                    t["ver"].discard(p)  # an added file stops being versioned and stays on disk
                    t["junk"].add(p)
                    t["disk"].pop(p)
                    t["read"].pop(p)
                elif t["read"][p] != b[p]:
                    t["disk"][p] = self.wt_form(p, b[p])
                    t["read"][p] = b[p] if not is_opaque(t["disk"][p]) else self.opaque()
                    wrote.add(p)
            return wrote
        if o == "update":
            b, tip = self.basis_texts(t), self.revs[self.tip()][1]
            wrote = set()
            for p, r in tip.items():
                if p not in b or r != b[p]:
                    t["ver"].add(p)
                    t["disk"][p] = self.wt_form(p, r)
                    t["read"][p] = r if not is_opaque(t["disk"][p]) else self.opaque()
                    wrote.add(p)
            t["basis"] = self.tip()
            return wrote
        if o == "reopen":
            return set()
        raise KeyError(o)


# --------------------------------------------------------------------------------------
# generation (pure)
# --------------------------------------------------------------------------------------


def _body(rng):
    b = "".join(rng.choice("abz") for _ in range(rng.randint(0, 3)))
    if len(b) >= 2 and rng.random() < 0.2:
        k = rng.randint(1, len(b) - 1)
        b = b[:k] + "\r" + b[k:]  # a bare CR inside a line
    elif b and rng.random() < 0.08:
        b = "\r" + b  # a bare CR at the start of a line
    return b


def gen_big(rng, world, p, n):
    """A file of 1-3 whole 32 KiB blocks plus a tail, as run-length encoded segments.

    text: clean line-structured text whose line ends sit AT block boundaries (CR last byte of a
    block and LF first byte of the next / ending closes a block / ending opens a block) of a chosen
    form - the checkout form of the file's eol setting (what a fresh checkout writes and status
    hashes) or the form the user writes; the written form spells the same lines with either ending.
    binary: the first block has line ends but no NUL; NULs only in later blocks."""
    s = world.setting(p)
    k = rng.choice([1, 1, 2, 3])
    total = k * BLOCK + BIG_EXTRA + BAND * n
    if rng.random() < 0.4:
        segs = [[rng.randint(1, 9), "h"], [1, rng.choice(["\r\n", "\n"])], [rng.randint(0, 5), "i"], [1, rng.choice(["\r\n", "\n", "\r"])]]
        pos = sum(c * len(tok) for c, tok in segs)
        if rng.random() < 0.5:
            # a CRLF across the first block boundary, still before any NUL
            segs += [[BLOCK - 1 - pos, "b"], [1, "\r\n"]]
            pos = BLOCK + 1
        nul_at = rng.randint(max(pos, BLOCK) + 1, total - 40)
        segs += [[nul_at - pos, "c"], [1, "\x00"], [rng.randint(0, 6), "d"], [1, rng.choice(["\r\n", "\n", "\x00"])]]
        pos = sum(c * len(tok) for c, tok in segs)
        segs.append([total - pos, "e"])
        return {"rle": [sg for sg in segs if sg[0] > 0]}, "bigbinary"
    wt = (WT_EOL.get(s) or rng.choice([LF, CRLF])).decode("latin-1")
    other = "\n" if wt == "\r\n" else "\r\n"
    e_align = wt if rng.random() < 0.7 else other
    segs, pos = [], 0
    for _ in range(rng.randint(0, 2)):
        c = rng.randint(0, 6)
        segs += [[c, "s"], [1, e_align]]
        pos += c + len(e_align)
    for j in range(1, k + 1):
        b = j * BLOCK
        mode = rng.choice(["straddle", "straddle", "straddle", "closes", "opens", "none"])
        if mode == "none":
            continue
        lf_at = b if mode == "straddle" else b - 1 if mode == "closes" else b + len(e_align) - 1
        fill = lf_at - len(e_align) + 1 - pos
        if fill < 1:
            continue
        segs += [[fill, "abz"[j % 3]], [1, e_align]]
        pos = lf_at + 1
    trailing = rng.random() < 0.5
    segs.append([total - pos - (len(e_align) if trailing else 0), "t"])
    if trailing:
        segs.append([1, e_align])
    # the user may spell the same lines with the other ending (length moves by one byte per line end)
    e_x = e_align if rng.random() < 0.6 else (other if e_align == wt else wt)
    rle = [[c, (e_x if tok in ("\n", "\r\n") else tok)] for c, tok in segs if c > 0]
    return {"rle": rle}, "bigtext"


def gen_content(rng, world, t, p, n, big=False):
    """-> (content spec {"x": latin-1 text} | {"rle": ...}, kind)."""
    if big:
        return gen_big(rng, world, p, n)
    x, kind = _gen_small(rng, world, t, p, n)
    return {"x": x}, kind


def _gen_small(rng, world, t, p, n):
    s = world.setting(p)
    cur = t["read"].get(p)
    kind = rng.choice(["lines", "lines", "lines", "soup", "soup", "binary", "binary", "respell"])
    raw = None
    if kind == "respell":
        # same canonical text, other spelling on disk: must read back as unchanged
        if cur is not None and not is_opaque(cur) and klass(cur) == "text" and s != "exact" and b"\n" in cur:
            disk = t["disk"][p]
            for eol in rng.sample([LF, CRLF], 2):
                cand = respell(cur, eol)
                if not is_opaque(disk) and len(cand) != len(disk):
                    return cand.decode("latin-1"), "respell"
        kind = "lines"
    if kind == "lines":
        nl = rng.randint(1, 4)
        mode = rng.choice(["wt", "wt", "lf", "crlf", "mixed"])
        out = []
        for i in range(nl):
            out.append(_body(rng))
            if i < nl - 1 or rng.random() < 0.6:
                if mode == "wt":
                    e = (WT_EOL.get(s) or LF).decode()
                elif mode == "mixed":
                    e = rng.choice(["\n", "\r\n"])
                else:
                    e = "\n" if mode == "lf" else "\r\n"
                out.append(e)
        raw = "".join(out)
    elif kind == "soup":
        raw = "".join(rng.choice(["a", "b", "\r", "\n", "\r\n", "\n", "\r", "\r\r\n"] if rng.random() < 0.5 else ["a", "b", "\r", "\n", "\r\n"]) for _ in range(rng.randint(1, 9)))
    else:
        toks = [rng.choice(["a", "\r", "\n", "\r\n", "\x00"]) for _ in range(rng.randint(1, 8))]
        toks.insert(rng.randrange(len(toks) + 1), "\x00")
        raw = "".join(toks)
        if rng.random() < 0.5:
            # binary that looks like text at first: the first line(s) have no NUL (PNG signature ...)
            raw = rng.choice(["\x89PNG\r\n\x1a\n", "h\n", "h\r\n", "\r\n"]) + raw
            x = raw[: BAND // 2 - 2]
            return x + "p" * (BAND * n - len(x)), kind
    # padding: the length lands in the n-th band (conversion changes it by at most one byte per line ending)
    raw = raw[: BAND // 2 - 2]
    pad = "p" * (BAND * n - len(raw))
    x = pad + raw if (raw.endswith("\n") or rng.random() < 0.5) else raw + pad
    return x, kind


def lifted_guards():
    from simkit import findings

    out = set()
    for e in findings.load(PROPERTY):
        sg = e.get("signature") or []
        if e.get("status") == "open" and len(sg) >= 3 and sg[0] == PROPERTY and sg[1] == "known-defect" and sg[2] in GUARDS:
            out.add(sg[2])
    return sorted(out)


def generate(rng, tier):
    x = rng.random()
    unguarded = sorted(GUARDS) if x < P_UNGUARDED else lifted_guards() if x < P_LIFT else []
    plan = _generate(rng, tier)
    if unguarded:
        plan["unguarded"] = unguarded
    return plan


def _generate(rng, tier):
    s = rng.choice(SETTINGS)
    s2 = rng.choice(SETTINGS) if rng.random() < 0.7 else None
    fmt = rng.choice(FORMATS)
    # large files (33-100 KiB) only in a share of the runs, at most two of them
    big_left = rng.choice([0, 0, 1, 2]) if rng.random() < 0.6 else 0
    w = World(s, s2)
    ops = []
    n = 0
    weights = {"write": 8, "commit": 4, "checkout": 3, "revert": 4, "update": 6, "reopen": 1, "merge": 2}
    for k in ("checkout", "revert", "update", "reopen", "merge"):
        weights[k] *= rng.choice([0, 1, 1, 2] if k in ("reopen", "merge") else [1, 1, 2])
    pool = [k for k, v in sorted(weights.items()) for _ in range(v)]
    want = rng.randint(6, 24)
    tries = 0
    # most runs start by putting a few files into the repository
    script = ["write"] * rng.randint(1, 4) + ["commit"] if rng.random() < 0.7 else []
    while len(ops) < want and tries < want * 20:
        tries += 1
        kind = script.pop(0) if script else rng.choice(pool)
        ti = 0 if script or len(ops) == 0 else rng.randrange(len(w.trees))
        if kind == "update":
            behind = [i for i, x in enumerate(w.trees) if x["basis"] != w.tip()]
            if behind:
                ti = rng.choice(behind)
        t = w.trees[ti]
        if kind == "write":
            n += 1
            p = rng.choice(NAMES)
            big = big_left > 0 and rng.random() < 0.3
            spec, ck = gen_content(rng, w, t, p, n, big)
            op = {"o": "write", "t": ti, "p": p, "c": ck}
            op.update(spec)
        elif kind == "merge":
            if t["pending"] or t["basis"] != w.tip() or w.modified(t) or w.added(t):
                continue
            known = set(t["ver"]) | t["junk"]
            for r in w.revs:
                known.update(r[1])
            fresh = [q for q in NAMES if q not in known]
            files = []
            for q in rng.sample(NAMES, rng.randint(1, 2)):
                if q in fresh or q in w.basis_texts(t):
                    n += 1
                    big = big_left > 0 and rng.random() < 0.6
                    spec, ck = gen_content(rng, w, t, q, n, big)
                    f = {"p": q, "c": ck}
                    f.update(spec)
                    files.append(f)
            n += 1
            op = {"o": "merge", "t": ti, "rev": "side-%d" % n, "ts": 1700000000 + n, "files": files}
        elif kind == "commit":
            n += 1
            op = {"o": "commit", "t": ti, "rev": "rev-%d" % n, "ts": 1700000000 + n}
        elif kind == "checkout":
            at = w.tip() if rng.random() < 0.6 else rng.randrange(len(w.revs))
            op = {"o": "checkout", "t": len(w.trees), "at": at}
            if rng.random() < 0.3:
                op["accel"] = rng.randrange(len(w.trees))
                op["use_accel"] = True
        elif kind == "revert":
            paths = None
            if rng.random() < 0.4:
                paths = sorted(rng.sample(NAMES + ["d"], rng.randint(1, 2)))
            op = {"o": "revert", "t": ti, "paths": paths}
        elif kind == "update":
            op = {"o": "update", "t": ti}
        else:
            op = {"o": "reopen", "t": ti}
        if not w.pre(op):
            continue
        w.do(op)
        ops.append(op)
        big_left -= sum(1 for f in [op] + op.get("files", []) if "rle" in f)
    return {"s": s, "s2": s2, "fmt": fmt, "ops": ops}


# --------------------------------------------------------------------------------------
# the run
# --------------------------------------------------------------------------------------


def fail(sim, tag, rest, detail):
    sim.fail(tag, [PROPERTY, tag] + list(rest), detail)


def _h(obj):
    return hashlib.sha1(repr(obj).encode("utf-8", "replace")).hexdigest()[:12]


def file_id(p):
    return ("f-" + p.replace("/", "_")).encode()


def write_rules(s, s2):
    """The per-user rules file of THIS run (BRZ_HOME is per run), and a searcher built from it."""
    from breezy import rules

    path = rules.rules_path()
    os.makedirs(os.path.dirname(path), exist_ok=True)
    text = ""
    if s2:
        text += "[name *.x]\neol = %s\n\n" % s2
    text += "[name *]\neol = %s\n" % s
    with open(path, "w") as f:
        f.write(text)
    rules.reset_rules()
    return path


def read_disk(root, p):
    with open(os.path.join(root, p), "rb") as f:
        return f.read()


def verify(sim, w, ti, tree, op, wrote=(), unguarded=()):
    """Compare working tree `ti` with the model (and substitute what the model left open)."""
    t = w.trees[ti]
    ctx = "tree %d after %s" % (ti, json.dumps({k: v for k, v in (op or {"o": "init"}).items() if k not in ("x", "rle", "files")}, sort_keys=True))
    kind = op["o"] if op else "init"

    def sig(p):
        return [w.setting(p), kind]

    obs = []
    with tree.lock_read():
        basis = tree.basis_tree()
        with basis.lock_read():
            btexts = w.basis_texts(t)
            got_paths = {p for p in basis.all_versioned_paths() if basis.kind(p) == "file"}
            if got_paths != set(btexts):
                fail(sim, "basis_paths", [kind], "%s: basis tree has files %r, model %r" % (ctx, sorted(got_paths), sorted(btexts)))
            for p in sorted(btexts):
                r = basis.get_file_text(p)
                if is_opaque(btexts[p]):
                    w.subst(btexts[p], r)
                elif r != btexts[p]:
                    fail(sim, "stored", sig(p) + [klass(btexts[p])], "%s: %r: the repository holds %s, expected %s" % (ctx, p, show(r, btexts[p]), show(btexts[p])))
            btexts = w.basis_texts(t)
            if t["pending"] and any(is_opaque(v) for v in w.sides[t["pending"]][0].values()):
                # what the side branch stored for content the documentation does not decide
                side_tree = tree.branch.repository.revision_tree(t["pending"].encode())
                with side_tree.lock_read():
                    for p, v in sorted(w.sides[t["pending"]][0].items()):
                        if is_opaque(v):
                            w.subst(v, side_tree.get_file_text(p))
            vers = {p for p in tree.all_versioned_paths() if tree.kind(p) == "file"}
            if vers != t["ver"]:
                fail(sim, "versioned", [kind], "%s: versioned files %r, model %r" % (ctx, sorted(vers), sorted(t["ver"])))
            for p in sorted(t["ver"]):
                s = w.setting(p)
                disk = read_disk(tree._sim_root, p)
                want = t["disk"][p]
                if is_opaque(want):
                    # written from repository text outside the canonical form: only "nothing but line endings"
                    src = w.sides[t["pending"]][0].get(p) if t["pending"] else btexts.get(p)
                    if src is not None and not is_opaque(src) and collapse(disk) != collapse(src):
                        fail(sim, "written_beyond_eol", sig(p), "%s: %r: wrote %s for repository text %s" % (ctx, p, show(disk, src), show(src)))
                    w.subst(want, disk)
                    sim.probe("disk_open")
                elif disk != want:
                    tag = "binary_converted" if NUL in want else "written"
                    fail(sim, tag, sig(p) + [klass(want)], "%s: %r (eol=%s): on disk %s, expected %s" % (ctx, p, s, show(disk, want), show(want)))
                raw = tree.get_file_text(p, filtered=False)
                if raw != disk:
                    fail(sim, "unfiltered_read", sig(p), "%s: %r: get_file_text(filtered=False) %s, on disk %s" % (ctx, p, show(raw, disk), show(disk)))
                txt = tree.get_file_text(p)
                want = t["read"][p]
                if is_opaque(want):
                    if collapse(txt) != collapse(disk) or NUL in disk and txt != disk:
                        fail(sim, "read_beyond_eol", sig(p), "%s: %r: on disk %s read as %s" % (ctx, p, show(disk), show(txt, disk)))
                    w.subst(want, txt)
                    sim.probe("read_open")
                elif txt != want:
                    tag = "binary_converted" if NUL in disk else "read_back"
                    fail(sim, tag, sig(p) + [klass(disk)], "%s: %r (eol=%s): on disk %s is read as %s, expected %s" % (ctx, p, s, show(disk), show(txt, want), show(want)))
                sha = tree.get_file_sha1(p)
                if sha != hashlib.sha1(txt).hexdigest().encode():
                    fail(sim, "sha1", sig(p), "%s: %r (eol=%s): get_file_sha1 %r is not the sha1 of the canonical text %s (on disk %s)" % (ctx, p, s, sha, show(txt), show(disk)))
                obs.append((p, disk, txt))
            exp_mod, exp_add = w.modified(t), w.added(t)
            got_mod, got_add, other = set(), set(), []
            for c in tree.iter_changes(basis):
                if c.kind[1] == "directory" or c.kind[0] == "directory":
                    if c.versioned == (False, True) or not (c.changed_content or c.path[0] != c.path[1]):
                        continue
                if c.versioned == (True, True) and c.kind == ("file", "file") and c.path[0] == c.path[1] and c.executable[0] == c.executable[1]:
                    got_mod.add(c.path[1])
                elif c.versioned == (False, True) and c.kind[1] == "file":
                    got_add.add(c.path[1])
                else:
                    other.append(repr(c))
            if other:
                fail(sim, "changes_other", [kind], "%s: unexpected change records %s" % (ctx, other[:3]))
            if got_add != exp_add:
                fail(sim, "changes_added", [kind], "%s: iter_changes reports added %r, model %r" % (ctx, sorted(got_add), sorted(exp_add)))
            if got_mod != exp_mod:
                p = sorted(got_mod ^ exp_mod)[0]
                tag = "fresh_checkout_changes" if kind == "checkout" else "changes"
                detail = "%s: iter_changes reports modified %r, model %r; %r (eol=%s): on disk %s, canonical %s, basis %s" % (ctx, sorted(got_mod), sorted(exp_mod), p, w.setting(p), show(t["disk"].get(p)), show(t["read"].get(p)), show(btexts.get(p)))
                fail(sim, tag, sig(p) + ["spurious" if p in got_mod else "missed"], detail)
            if kind == "checkout" and exp_mod and "crcrlf" in unguarded:
                # consistent with what was read and stored, but the property read literally ("a freshly
                # checked-out tree with eol filters reports no changes") does not hold for this revision
                p = sorted(exp_mod)[0]
                sim.fail("fresh_checkout_changes", [PROPERTY, "known-defect", "crcrlf"], "%s: the fresh checkout reports %r as modified: %r (eol=%s): repository text %s, written to disk as %s, read back as %s" % (ctx, sorted(exp_mod), p, w.setting(p), show(btexts.get(p)), show(t["disk"].get(p)), show(t["read"].get(p))))
            hc = tree.has_changes()
            if bool(hc) != bool(exp_mod or exp_add or t["pending"]):
                fail(sim, "has_changes", [kind], "%s: has_changes() = %r, model: modified %r added %r" % (ctx, hc, sorted(exp_mod), sorted(exp_add)))
    for p in wrote:
        if p in t["disk"]:
            sim.state_seen((w.setting(p), kind, klass(t["disk"][p])))
    sim.event("obs", ti, _h([(q, hashlib.sha1(d).hexdigest(), hashlib.sha1(x).hexdigest()) for q, d, x in obs]), _h((sorted(got_mod), sorted(got_add))))


def check_last_changed(sim, w, ti, tree, op):
    """After commit: a file whose canonical text did not change keeps its text version."""
    t = w.trees[ti]
    _name, texts, last = w.revs[t["basis"]]
    basis = tree.basis_tree()
    with basis.lock_read():
        for p in sorted(texts):
            got = basis.get_file_revision(p).decode()
            if got != last[p]:
                fail(sim, "commit_text_version", [w.setting(p)], "tree %d after commit %s: %r was last changed in %s according to the repository, model %s" % (ti, op["rev"], p, got, last[p]))


def make_tree(fmt, name):
    """treesim.make_tree for a named bzr format (standalone tree, control files through the seam)."""
    from breezy import controldir

    root = os.path.join(os.environ["VERIF_SCRATCH"], name)
    os.makedirs(root)
    wt = controldir.ControlDir.create_standalone_workingtree(root, format=controldir.format_registry.make_controldir(fmt))
    with wt.lock_write():
        wt.set_root_id(T.ROOT_ID)
    del wt
    return T.open_tree(root, "bzr")


def do_merge(sim, w, trees, ti, op, scratch, i):
    """One-shot side branch: sprout of the tree's basis, the files written / added / committed
    there (same rules file: the read filters apply), then merge_from_branch into the tree."""
    t = w.trees[ti]
    basis_rev = w.revs[t["basis"]][0].encode()
    side_root = os.path.join(scratch, "side%d" % i)
    side = trees[ti].branch.controldir.sprout(side_root, revision_id=basis_rev).open_workingtree()
    btexts = w.basis_texts(t)
    for f in op["files"]:
        p = f["p"]
        with open(os.path.join(side_root, p), "wb") as fh:
            fh.write(op_bytes(f))
        if p not in btexts:
            side.add([p], ids=[file_id(p)])
    side.commit(message="m " + op["rev"], rev_id=op["rev"].encode(), timestamp=op["ts"], timezone=0, committer="Sim User <sim@example.com>", allow_pointless=True, reporter=T._quiet_reporter())
    conflicts = trees[ti].merge_from_branch(side.branch)
    if conflicts:
        fail(sim, "merge_conflicts", [w.s, w.s2 or "-"], "tree %d: merge of a side branch that cannot conflict reported %r" % (ti, conflicts))


def execute(sim, plan):
    warm()
    T.quiet()
    T.settle_randomness(sim.seed)
    world.setup_sim(sim)
    scratch = os.environ["VERIF_SCRATCH"]
    T.relativise_log(sim, os.path.join(scratch, "t0"))
    T.mask_content_names(sim)
    s, s2 = plan["s"], plan.get("s2")
    unguarded = set(plan.get("unguarded", ()))
    write_rules(s, s2)
    w = World(s, s2)
    fmt = plan.get("fmt", "2a")
    tree0 = make_tree(fmt, "t0")
    if not tree0.supports_content_filtering():
        raise RuntimeError("working tree of format %s without content filtering" % fmt)
    tree0.mkdir("d", b"d-id")
    tree0.commit(message="m rev-0", rev_id=b"rev-0", timestamp=1700000000, timezone=0, committer="Sim User <sim@example.com>", reporter=T._quiet_reporter())
    trees = [tree0]
    verify(sim, w, 0, tree0, None)
    did = {"commit": 0, "out": 0}
    converting = s != "exact" or (s2 not in (None, "exact"))
    for i, op in enumerate(plan["ops"]):
        if not w.pre(op):
            sim.event("skip", i, op["o"])
            continue
        o, ti = op["o"], op["t"]
        label = {k: v for k, v in op.items() if k not in ("x", "rle", "files")}
        contents = [op_bytes(f) for f in [op] + op.get("files", []) if "x" in f or "rle" in f]
        try:
            if o == "checkout":
                root = os.path.join(scratch, "t%d" % ti)
                rev = w.revs[w.at(op)][0].encode()
                accel = trees[op["accel"]] if op.get("use_accel") else None
                trees[0].branch.create_checkout(root, revision_id=rev, lightweight=True, accelerator_tree=accel)
                trees.append(T.open_tree(root, "bzr"))
            elif o == "write":
                tree = trees[ti]
                p = op["p"]
                with open(os.path.join(tree._sim_root, p), "wb") as f:
                    f.write(op_bytes(op))
                if p not in w.trees[ti]["ver"]:
                    tree.add([p], ids=[file_id(p)])
            elif o == "commit":
                trees[ti].commit(message="m " + op["rev"], rev_id=op["rev"].encode(), timestamp=op["ts"], timezone=0, committer="Sim User <sim@example.com>", allow_pointless=True, reporter=T._quiet_reporter())
            elif o == "revert":
                trees[ti].revert(op.get("paths"), backups=False)
            elif o == "update":
                nconf = trees[ti].update()
                if nconf:
                    with trees[ti].lock_read():
                        cs = [str(c) for c in trees[ti].conflicts()]
                    fail(sim, "update_conflicts", [s, s2 or "-"], "tree %d: update that cannot conflict reported %r conflicts: %s" % (ti, nconf, cs[:3]))
            elif o == "merge":
                do_merge(sim, w, trees, ti, op, scratch, i)
            elif o == "reopen":
                trees[ti] = T.reopen(trees[ti])
        except Exception as e:  # noqa: BLE001 - no operation of this workload may be refused
            from simkit.sim import Violation

            if isinstance(e, Violation):
                raise
            import traceback

            tb = "".join(traceback.format_exception(type(e), e, e.__traceback__)[-5:])
            fail(sim, "op_raised", [o, type(e).__name__], "%s raised %r\n%s" % (json.dumps(label), e, tb))
        wrote = w.do(op)
        sim.event("op", i, json.dumps(label, sort_keys=True), [f["p"] for f in op.get("files", [])], [hashlib.sha1(c).hexdigest()[:12] for c in contents])
        sim.probe("op_" + o)
        verify(sim, w, ti, trees[ti], op, wrote, unguarded)
        if o == "commit":
            check_last_changed(sim, w, ti, trees[ti], op)
            did["commit"] += 1
        if o in ("checkout", "update", "revert", "merge") and wrote:
            did["out"] += 1
            for p in wrote:
                d = w.trees[ti]["disk"].get(p)
                if d is not None:
                    sim.probe("out_%s_%s" % (w.setting(p), klass(d)))
        for f in [op] + op.get("files", []):
            if "c" in f:
                sim.probe(o + "_" + f["c"])
    # every tree once more at the end (trees that were not touched by the last operations)
    for ti, tree in enumerate(trees):
        verify(sim, w, ti, tree, {"o": "final"})
    sim.probe("fmt_" + fmt)
    sim.probe("eol_" + s)
    if s2:
        sim.probe("eol2_" + s2)
    sim.nontrivial = bool(did["commit"] and did["out"] and converting)
    return trees, w


# --------------------------------------------------------------------------------------
# warm-up / configuration
# --------------------------------------------------------------------------------------

_warmed = []

WARM_PLAN = {
    "s": "crlf",
    "s2": "lf-with-crlf-in-repo",
    "ops": [
        {"o": "write", "t": 0, "p": "a", "x": "p" * 26 + "one\ntwo\n", "c": "lines"},
        {"o": "write", "t": 0, "p": "b.x", "x": "p" * 56 + "x\r\ny\r\n", "c": "lines"},
        {"o": "write", "t": 0, "p": "d/c", "x": "p" * 92 + "\x00\r\n\n", "c": "binary"},
        {"o": "commit", "t": 0, "rev": "rev-4", "ts": 1700000004},
        {"o": "checkout", "t": 1, "at": 1},
        {"o": "write", "t": 0, "p": "a", "x": "p" * 153 + "one\r\nthree\r\n", "c": "lines"},
        {"o": "write", "t": 0, "p": "g", "x": "p" * 190 + "\r\n", "c": "soup"},
        {"o": "commit", "t": 0, "rev": "rev-7", "ts": 1700000007},
        {"o": "update", "t": 1},
        {"o": "write", "t": 1, "p": "a", "x": "p" * 250 + "zz\n", "c": "lines"},
        {"o": "revert", "t": 1, "paths": ["a"]},
        {"o": "checkout", "t": 2, "at": 2, "accel": 0, "use_accel": True},
        {"o": "reopen", "t": 2},
        {"o": "revert", "t": 0, "paths": None},
        {"o": "merge", "t": 0, "rev": "side-20", "ts": 1700000020, "files": [{"p": "d/e.x", "c": "bigbinary", "rle": [[5, "h"], [1, "\n"], [BLOCK - 7, "b"], [1, "\r\n"], [900, "c"], [1, "\x00"], [2000, "e"]]}, {"p": "a", "c": "bigtext", "rle": [[BLOCK - 1, "a"], [1, "\r\n"], [3000, "t"]]}]},
        {"o": "commit", "t": 0, "rev": "rev-21", "ts": 1700000021},
        {"o": "update", "t": 2},
    ],
}


def warm():
    world.quiet_breezy()
    T.quiet()
    if _warmed:
        return
    _warmed.append(1)
    from . import storesim

    # histories with ten or more commits read several pack indices: their order must not depend on addresses
    storesim.install_pins()
    import shutil
    import tempfile

    import breezy.bzr.workingtree_4  # noqa: F401
    import breezy.commit  # noqa: F401
    import breezy.filters.eol  # noqa: F401
    import breezy.merge  # noqa: F401
    import breezy.rules  # noqa: F401
    import breezy.transform  # noqa: F401
    from simkit.sim import Sim

    saved = {k: os.environ.get(k) for k in ("VERIF_SCRATCH", "BRZ_HOME", "HOME")}
    tmp = tempfile.mkdtemp(prefix="verif-warm-", dir="/dev/shm")
    try:
        for fmt in sorted(set(FORMATS)):
            sc = os.path.join(tmp, "w" + fmt)
            os.makedirs(os.path.join(sc, "home"))
            os.environ.update(VERIF_SCRATCH=sc, BRZ_HOME=os.path.join(sc, "home"), HOME=os.path.join(sc, "home"))
            plan = dict(WARM_PLAN, fmt=fmt)
            sim = Sim(1, plan, step_cap=10**6)
            try:
                execute(sim, plan)
            except Exception:  # noqa: BLE001 - a dry run; real runs report
                if os.environ.get("VERIF_WARM_DEBUG"):
                    raise
    finally:
        for k, v in saved.items():
            if v is None:
                os.environ.pop(k, None)
            else:
                os.environ[k] = v
        shutil.rmtree(tmp, ignore_errors=True)
    import gc

    gc.collect()
    gc.freeze()


def config(tier):
    if tier == "thorough":
        return {"budget_s": 700, "run_timeout": 180, "selftest": 48, "workers": 8}
    return {"budget_s": 50, "run_timeout": 180, "selftest": 24, "workers": 8}
