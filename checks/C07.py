"""C07 — Autopack planning is well-formed (run-time monitor).

The planner is a pure function; what is claimed here is the invariant monitored at every
autopack that *simulated histories reach*: sequences of pulls/commits whose sizes are
chosen so that pack counts cross the digit-sum bound often, and two concurrent pullers
of overlapping ranges so that revisions are duplicated across packs."""

from simkit import world
from simkit.sim import SimCrash

from . import storesim
from .storesim import MHist, gen_chain

PROPERTY = "C07"
LEVEL = "exploration"
RULE = (
    "one case = one call of the autopack planner observed inside a simulated history (pre-existing per-pack revision "
    "counts, requested distribution, plan or exception); non-trivial = the planner was asked with more packs than the "
    "digit-sum bound (so it had to plan); distinct = distinct (sorted counts, total) inputs among those"
)
COMPONENTS = {
    "real": ["RepositoryPackCollection._do_autopack / plan_autopack_combinations / pack_distribution / _max_pack_count", "the pack operations the plan triggers (Packer), names save", "Branch.pull, commit"],
    "simulated": ["disk", "scheduling of two concurrent pullers", "clock of lockdir"],
    "stub": ["UI"],
}
ASSUMPTIONS = [
    "only planner inputs that a simulated history produces are judged; the part of C07 that quantifies over multisets no history can produce (e.g. total smaller than the sum of counts) is outside this technique",
    "the post-condition on the number of packs after executing a plan is judged only in single-process histories (a concurrent writer may legitimately add packs meanwhile)",
]
STEP_CAP = 200000


def warm():
    storesim.warm()


def config(tier):
    if tier == "thorough":
        return {"budget_s": 700, "run_timeout": 600, "selftest": 6}
    return {"budget_s": 50, "run_timeout": 240, "selftest": 4}


def digit_sum(n):
    return sum(int(c) for c in str(n))


def generate(rng, tier):
    fmt = rng.choice(storesim.FORMATS)
    big = tier == "thorough"
    sizes = [1, 1, 1, 2, 5, 9, 10, 11] + ([20, 31] if big else [])
    mh = MHist()
    mode = rng.choice(["single", "single", "duo"] + (["round"] if big or rng.random() < 0.15 else []))
    if mode == "round":
        # histories whose total reaches a round number (10^k) with many packs: the digit-sum bound collapses
        # from 9k to 1 there, so the whole collection must be combined at once
        top = rng.choice([100, 1000])
        batches = []
        unit = top // 10
        while unit >= 1:
            batches += [unit] * 9
            unit //= 10
        if rng.random() < 0.5:
            rng.shuffle(batches)
        batches.append(1)
        if rng.random() < 0.3:
            batches += [rng.choice([1, 9, 10])]
        return {"fmt": fmt, "mode": "single", "src": {"gen": [rng.getrandbits(32), sum(batches)]}, "batches": batches}
    if mode == "single":
        batches = []
        total = 0
        limit = rng.choice([12, 25, 40] + ([90, 130] if big else []))
        while total < limit:
            if rng.random() < 0.5:
                b = 1
            else:
                b = rng.choice(sizes)
            batches.append(b)
            total += b
        src = gen_chain(rng, mh, None, total, "s")
        return {"fmt": fmt, "mode": mode, "src": src, "batches": batches}
    n = rng.choice([12, 21, 30])
    src = gen_chain(rng, mh, None, n, "s")
    cuts = {}
    for name in "AB":
        cuts[name] = sorted({rng.randint(1, n) for _ in range(rng.randint(2, 6))})
    if rng.random() < 0.5:
        # both writers cross a digit-sum boundary together: k single-revision packs, then A and B each add
        # one pack while the bound collapses (9 -> 1 at 10, 10 -> 2 at 20): each one's autopack obsoletes
        # the packs the other has just planned to combine, which sends that one round its retry loop
        k = rng.choice([9, 9, 19])
        a, b = rng.sample([k + 1, k + 2, k + 3], 2)
        return {"fmt": fmt, "mode": mode, "src": src if n > k + 3 else gen_chain(rng, MHist(), None, k + 3, "s"), "actors": {"A": [a], "B": [b]}, "policy": rng.choice(["random", "random", "pct"]), "preempt_at": sorted(rng.sample(range(5, 1500), 12)), "pre_singles": k}
    return {"fmt": fmt, "mode": mode, "src": src, "actors": cuts, "policy": rng.choice(["random", "pct", "rr"]), "preempt_at": sorted(rng.sample(range(5, 3000), 6)), "pre_singles": rng.choice([0, 4, 8])}


def execute(sim, plan):
    from breezy import errors

    warm()
    world.setup_sim(sim)
    world.install_clock(sim, ["breezy.lockdir"])
    fmt = plan["fmt"]
    src = plan["src"]
    if isinstance(src, dict):
        # compact form for long chains (keeps replay files small): expanded here, deterministically
        import random

        src = gen_chain(random.Random(src["gen"][0]), MHist(), None, src["gen"][1], "s")
    url_s = world.new_store("src")
    url = world.new_store("tgt")
    sb = storesim.make_branch(url_s + "s", fmt)
    storesim.commit_specs(sb, src)
    single = plan["mode"] == "single"
    seen_inputs = set()

    def observer(coll, counts, dist, result, exc):
        key = (tuple(sorted(counts)), sum(dist))
        sim.probe("planner_calls")
        total = sum(dist)
        if sum(counts) > total:
            sim.probe("planner_total_lt_sum")
        if len(dist) != digit_sum(total) and total > 0:
            sim.fail("distribution", ["distribution", "none", "len(distribution)!=digit_sum"], f"pack_distribution({total}) = {dist}")
        if exc is not None:
            sim.fail("planner_exception", ["planner_exception", "none", type(exc).__name__], f"planner raised {type(exc).__name__}: {exc} for counts={sorted(counts, reverse=True)} distribution={dist}")
        if len(counts) > len(dist):
            seen_inputs.add(key)
            sim.notes.setdefault("sub_digests", []).append(storesim.digest_of(key))
            sim.nontrivial = True
        if len(counts) <= len(dist) and result != []:
            sim.fail("plans_within_bound", ["plans_within_bound", "none", "non-empty plan"], f"{len(counts)} packs <= digit sum {len(dist)} of {total}, yet plan {result}")
        if result:
            if len(result) != 1:
                sim.fail("single_combination", ["single_combination", "none", "len(plan)!=1"], f"plan has {len(result)} combinations")
            rc, packs = result[0]
            if len(packs) < 2:
                sim.fail("at_least_two", ["at_least_two", "none", "combination<2"], f"plan combines {len(packs)} pack(s)")
            real = sum(p.get_revision_count() for p in packs)
            if rc != real:
                sim.fail("sum_matches", ["sum_matches", "none", "count!=sum"], f"plan says {rc} revisions, packs hold {real}")
            sim.probe("plans_nonempty")
        sim.state_seen(key)

    sim.plan_observer = observer
    sim.notes["evaluations"] = 0

    from breezy.bzr import pack_repo

    orig_auto = storesim._pins.get("do_autopack")
    if orig_auto is None:
        orig_auto = storesim._pins["do_autopack"] = pack_repo.RepositoryPackCollection._do_autopack
        from simkit.sim import CTX

        def _do_autopack(self, *args, **kwargs):
            s = getattr(CTX, "sim", None)
            post = getattr(s, "autopack_post", None) if s is not None else None
            try:
                r = orig_auto(self, *args, **kwargs)
            except pack_repo.RetryAutopack:
                if s is not None:
                    s.probe("retry_autopack")
                raise
            if post is not None:
                post(self, r)
            return r

        pack_repo.RepositoryPackCollection._do_autopack = _do_autopack

    def post(coll, result):
        sim.notes["evaluations"] += 1
        if result is None or not single:
            return
        total = coll.revision_index.combined_index.key_count()
        npacks = sum(1 for p in coll.all_packs() if p.get_revision_count() > 0)
        sim.probe("autopack_executed")
        if npacks > digit_sum(total):
            sim.fail("post_bound", ["post_bound", "none", "packs>digit_sum"], f"after autopack {npacks} packs hold revisions, digit sum of {total} is {digit_sum(total)}")

    sim.autopack_post = post

    if single:
        tb = storesim.make_branch(url + "t", fmt)
        cum = 0
        for b in plan["batches"]:
            cum += b
            tb.pull(sb, stop_revision=src[cum - 1]["id"].encode())
        sim.event("done", cum)
    else:
        storesim.make_shared_repo(url, fmt)
        pre = plan.get("pre_singles", 0)
        if pre:
            pb = storesim.make_branch(url + "pre", fmt)
            for i in range(pre):
                pb.pull(sb, stop_revision=src[i]["id"].encode())
        for name in plan["actors"]:
            storesim.make_branch(url + "b" + name, fmt)

        def run(name, cuts):
            me = sim.actors[name]
            br = storesim.open_branch(url + "b" + name)
            for c in cuts:
                if me.dead:
                    return
                try:
                    br.pull(storesim.open_branch(url_s + "s"), stop_revision=src[c - 1]["id"].encode())
                except SimCrash:
                    return
                except errors.LockContention:
                    sim.probe("lock_contention_gave_up")
                except Exception as e:  # noqa: BLE001 - concurrency failures are C05's subject, not C07's
                    sim.probe("actor_exception_" + type(e).__name__)
                    return

        for name, cuts in plan["actors"].items():
            sim.spawn(name, (lambda n=name, c=cuts: run(n, c)))
        sim.run_actors(hang_timeout=200.0)
    if sim.notes["evaluations"] == 0:
        sim.notes["evaluations"] = 1
