"""C04 — Pack repositories are crash-atomic.

Per run: a generated history is installed in a target pack repository batch by batch
(so the pack count sits near the autopack threshold), then ONE scenario (commit, pull of
k revisions, pack, pack+clean_obsolete_packs) is executed once fault-free to count its
mutating store operations, and then re-executed from the identical pre-state (forked copy
of the run child) with the process crashed at operation k — op dropped, op applied, or
(for appends / stream writes) a torn prefix applied.  A fresh process then judges.

Scenarios `repack` / `repack_same` run pack() on a repository that an earlier pack() already
left optimal (through fresh objects / through the same objects), with the crash points
enumerated inside the second pack().  For operations that save pack-names, every store
operation (reads included) AFTER the pack-names put is additionally hit with an injected
I/O error (OSError / transport error) and with an interrupt (KeyboardInterrupt raised at the
seam): the process survives and cleans up as it sees fit, then a fresh process judges the
same way."""

from simkit import forkenum, world
from simkit.sim import Sim, SimCrash, Violation, derive_seed

from . import storesim
from .storesim import MHist, gen_chain, replay_model

PROPERTY = "C04"
LEVEL = "fault_enumeration"
RULE = (
    "one case = one fault point: (generated pre-state of packs, scenario, mutating store op index k, variant "
    "dropped|applied|torn) or (store op index a - reads included - after the scenario's pack-names put, injected error "
    "enospc|transport|connection|permission or KeyboardInterrupt before that op); quick samples <=10 points per run "
    "(stratified: index writes, pack-names, obsolete_packs, the rest) and re-runs the scenario after recovery on a third "
    "of them, thorough enumerates every k, every a and always re-runs; non-trivial = the fault landed strictly inside "
    "the scenario (after its first and before its last mutating op); distinct = distinct event-log digests of such "
    "fault executions"
)
COMPONENTS = {
    "real": ["breezy.bzr.pack_repo (RepositoryPackCollection, write groups, autopack, pack)", "groupcompress_repo / knitpack_repo", "bzrformats pack+btree index code (Rust)", "breezy.commit via MemoryTree/BranchBuilder", "fetch via Branch.pull", "LockDir", "Repository.check()"],
    "simulated": ["disk (SimTransport over dromedary MemoryTransport)", "process crash (actor refused at the seam after op k)", "I/O error or KeyboardInterrupt raised at the seam before a store op (the process continues)", "clock of breezy.lockdir"],
    "stub": ["UI", "source repository lives on a second simulated store without faults"],
}
ASSUMPTIONS = [
    "crash = the process stops; operations applied before the crash are durable in order (no power-loss reordering)",
    "put_file/put_bytes/rename/move/mkdir are atomic; append/stream writes may be torn at the crash point",
    "after a crash the documented manual step break_lock is applied to repository and branch locks before re-use",
    "error / interrupt faults are aimed at the ops after the pack-names put (past the commit point: the new state must be complete); exactly one fault per execution, delivered before the op takes effect; whatever clean-up the interrupted process performs is part of the system under test",
]


def warm():
    storesim.warm()


def config(tier):
    if tier == "thorough":
        return {"budget_s": 780, "run_timeout": 1500, "selftest": 8}
    return {"budget_s": 55, "run_timeout": 240, "selftest": 4}


PRE_KINDS = ["empty", "ones9", "n19", "random", "random", "ones4", "n109", "ones19", "ones19", "ones19"]


def generate(rng, tier):
    fmt = rng.choice(storesim.FORMATS)
    kind = rng.choice(PRE_KINDS)
    if kind == "empty":
        batches = []
    elif kind == "ones9":
        batches = [1] * 9
    elif kind == "ones4":
        batches = [1] * 4
    elif kind == "n19":
        batches = [10] + [1] * 9
    elif kind == "ones19":
        batches = [1] * 19  # an autopack has happened: obsolete_packs/ is not empty
    elif kind == "n109":
        batches = [20] + [1] * rng.choice([7, 8, 9])
    else:
        batches = [rng.choice([1, 1, 1, 2, 3, 5]) for _ in range(rng.randint(1, 8))]
    scenario = rng.choice(["commit", "commit", "pull", "pull", "pack", "pack_clean", "repack", "repack", "repack_same"])
    if scenario.startswith("repack") and rng.random() < 0.6:
        fmt = "2a"  # (the groupcompress packer has its own 'already optimal' path)
    if kind == "ones19":
        scenario = rng.choice(["commit", "commit", "pull", "pack", "repack"])
    if not batches and scenario in ("pack", "pack_clean", "repack", "repack_same"):
        scenario = "commit"
    npre = sum(batches)
    nscen = {"commit": 1, "pull": rng.choice([1, 2, 5, 10])}.get(scenario, 0)
    mh = MHist()
    specs = gen_chain(rng, mh, None, npre + nscen + 1, "r")
    return {
        "fmt": fmt,
        "pre_kind": kind,
        "batches": batches,
        "scenario": scenario,
        "nscen": nscen,
        "specs": specs,
        "sample_seed": rng.randrange(1 << 30),
    }


TEARABLE = ("stream_write", "append", "put_na")
ERRORS = ["enospc", "transport", "connection", "permission"]


def _scenario(plan, tb, sb, specs, npre):
    sc = plan["scenario"]
    if sc == "commit":
        storesim.commit_specs(tb, [specs[npre]])
    elif sc == "pull":
        tb.pull(sb, stop_revision=specs[npre + plan["nscen"] - 1]["id"].encode())
    elif sc in ("pack", "repack", "repack_same"):
        # (repack*: an earlier pack() already left the repository optimally packed)
        tb.repository.pack()
    elif sc == "pack_clean":
        tb.repository.pack(clean_obsolete_packs=True)


def _recover_and_judge(sub, plan, mh, url_t, url_s, pre_set, post_set, site, fkind="crash", rerun=True):
    """Runs as a fresh process after the crash / failed operation."""
    from breezy import errors

    storesim.clear_caches()
    sc = plan["scenario"]

    def fail(oracle, detail):
        sub.fail(oracle, [oracle, fkind, site], detail)

    try:
        repo = storesim.open_repo(url_t + "t")
    except Exception as e:  # noqa: BLE001
        fail("reopen", f"repository cannot be opened after the crash: {type(e).__name__}: {e}")
    with repo.lock_read():
        listed = {r.decode() for r in repo.all_revision_ids()}
        if listed != pre_set and listed != post_set:
            fail("old_or_new", f"revisions listed after crash {sorted(listed)} are neither the old set ({len(pre_set)}) nor the new set ({len(post_set)})")
        prob = storesim.readable(repo, mh, None)
        if prob:
            fail("readable", prob)
    prob = storesim.check_clean(repo)
    if prob:
        fail("check", prob)
    state = "new" if listed == post_set and post_set != pre_set else "old"
    sub.probe("state_after_crash_" + state)
    # the documented manual step
    for opener in (storesim.open_branch, storesim.open_repo):
        try:
            obj = opener(url_t + "t")
            obj.break_lock()
        except Exception as e:  # noqa: BLE001
            fail("break_lock", f"break_lock failed: {type(e).__name__}: {e}")
    if not rerun:
        return
    # the same scenario re-run to completion (leftovers must not break it)
    specs = plan["specs"]
    npre = sum(plan["batches"])
    try:
        tb = storesim.open_branch(url_t + "t")
        sb = storesim.open_branch(url_s + "s")
        if not (sc == "commit" and specs[npre]["id"] in listed):
            _scenario(plan, tb, sb, specs, npre)
        # and the repository stays usable for new work
        extra = specs[-1]
        tip = tb.last_revision().decode()
        extra = dict(extra, id="recover-1", parents=[tip] if tip != "null:" else [])
        base_tree = mh.tree(tip) if tip != "null:" else {}
        extra["actions"] = ([["add", "", storesim.ROOT_ID, "directory", None]] if "" not in base_tree else []) + [["add", "recovered.txt", "recover-fid", "file", "after crash\n"]]
        storesim.commit_specs(storesim.open_branch(url_t + "t"), [extra])
        mh.add(extra)
    except SimCrash:
        raise
    except Exception as e:  # noqa: BLE001
        import traceback

        fail("rerun", f"re-running {sc} after the crash failed: {type(e).__name__}: {e}\n{traceback.format_exc()[-1200:]}")
    storesim.clear_caches()
    repo = storesim.open_repo(url_t + "t")
    with repo.lock_read():
        listed2 = {r.decode() for r in repo.all_revision_ids()}
        want = set(post_set) | {"recover-1"}
        if listed2 != want:
            fail("rerun_result", f"after re-running {sc}: listed {sorted(listed2 ^ want)} differ from the expected new set")
        prob = storesim.readable(repo, mh, None)
        if prob:
            fail("rerun_readable", prob)
    prob = storesim.check_clean(repo)
    if prob:
        fail("rerun_check", prob)


def execute(sim, plan):
    warm()
    world.setup_sim(sim)
    world.install_clock(sim, ["breezy.lockdir"])
    fmt = plan["fmt"]
    specs = plan["specs"]
    mh = replay_model(specs)
    npre = sum(plan["batches"])
    url_s = world.new_store("src")
    url_t = world.new_store("tgt")
    sb = storesim.make_branch(url_s + "s", fmt)
    storesim.commit_specs(sb, specs[:-1])
    tb = storesim.make_branch(url_t + "t", fmt)
    cum = 0
    for b in plan["batches"]:
        cum += b
        tb.pull(sb, stop_revision=specs[cum - 1]["id"].encode())
    if plan["scenario"] == "repack":
        tb.repository.pack()  # the scenario packs again, through fresh objects
    pre_set = {s["id"] for s in specs[:npre]}
    post_set = {s["id"] for s in specs[: npre + plan["nscen"]]}
    del tb, sb
    READS = ("get", "has", "stat", "list_dir", "readv", "iter_files_recursive", "stream_close", "readlink")

    def run_point(fault, label, rerun=True):
        sub = Sim(derive_seed(sim.seed, label), plan, step_cap=200000)
        mutops = []
        allops = []

        def mon(s, actor, phase, op, path, extra):
            if phase == "before" and actor.name == "main" and armed[0]:
                pc = storesim.path_class(path)
                allops.append([op, pc])
                if op not in READS:
                    mutops.append([op, pc])

        armed = [False]
        sub.monitors.append(mon)
        tb2 = storesim.open_branch(url_t + "t")
        sb2 = storesim.open_branch(url_s + "s")
        if plan["scenario"] == "repack_same":
            tb2.repository.pack()  # the scenario packs again through the same objects
        armed[0] = True
        if fault is not None:
            sub.arm([fault])
        else:
            sub.arm([])
        err = None
        try:
            _scenario(plan, tb2, sb2, specs, npre)
        except SimCrash:
            pass
        except (Exception, KeyboardInterrupt) as e:  # noqa: BLE001
            err = e
        crashed = sub.main_actor.dead
        nmut = sub.main_actor.nmut
        sub.disarm()
        if fault is None:
            if err is not None:
                import traceback

                try:
                    sub.fail("faultfree", ["faultfree", "none", plan["scenario"]], f"{plan['scenario']} failed without any fault: {type(err).__name__}: {err}\n" + "".join(traceback.format_exception(err))[-1500:])
                except Violation:
                    pass
            return forkenum.sub_result(sub, {"nmut": nmut, "ops": mutops, "allops": allops})
        fkind = "crash"
        if fault["kind"] == "err_before":
            fkind = "interrupt" if "exc" in fault else "err_before"
            if not sub.faults_fired:
                return forkenum.sub_result(sub, {"nmut": nmut, "missed": True})
            site_op = allops[fault["at"] - 1] if fault["at"] - 1 < len(allops) else ["?", "?"]
            sub.event("operation-ended", type(err).__name__ if err is not None else "normally")
            sub.probe("error_swallowed" if err is None else "error_propagated")
            sub.nontrivial = True
        else:
            if not crashed:
                # the fault point lies beyond the end of the scenario
                return forkenum.sub_result(sub, {"nmut": nmut, "missed": True})
            site_op = mutops[fault["at"] - 1] if fault["at"] - 1 < len(mutops) else ["?", "?"]
            sub.nontrivial = 1 < fault["at"] < plan.get("_n", 10**9)
        site = f"{plan['scenario']}:{site_op[0]}:{site_op[1]}:{label.split(':', 1)[-1]}"
        for frag, probe in (("upload/", "crash_before_rename_to_packs"), ("indices/", "crash_in_index_writes"), ("pack-names", "crash_at_pack_names"), ("obsolete_packs", "crash_in_obsoletion"), ("lock/", "crash_in_lock_ops"), ("last-revision", "crash_at_branch_tip")):
            if frag in site_op[1]:
                sub.probe(probe + ("" if fkind == "crash" else "_" + fkind))
        del tb2, sb2
        sub.restart_main()
        try:
            _recover_and_judge(sub, plan, mh, url_t, url_s, pre_set, post_set, site, fkind, rerun)
        except Violation:
            pass  # recorded in sub.violation
        except SimCrash:
            raise
        except Exception as e:  # noqa: BLE001 - the property says the repository stays usable
            import traceback

            try:
                sub.fail("recovery_exception", ["recovery_exception", fkind, site], f"{type(e).__name__}: {e}\n{traceback.format_exc()[-1500:]}")
            except Violation:
                pass
        return forkenum.sub_result(sub, {"nmut": nmut, "site": site})

    only = plan.get("only")
    if only is not None and not only:
        dry = forkenum.run_forked(lambda: run_point(None, "dry"), timeout=200)
        forkenum.merge_sub(sim, dry, "dry")
        return
    if only:
        n = plan.get("_n", 10**9)
        points = [tuple(p) for p in only]
    else:
        dry = forkenum.run_forked(lambda: run_point(None, "dry"), timeout=200)
        if "_error" in dry or "_timeout" in dry:
            raise RuntimeError(f"dry pass failed: {dry}")
        if dry["verdict"] != "ok":
            plan["only"] = []
            forkenum.merge_sub(sim, dry, "dry")
        n = dry["nmut"]
        plan["_n"] = n
        ops = dry["ops"]
        sim.event("dry", plan["scenario"], n)
        if any("autopack" in o[1] or o[1].startswith("repository/obsolete_packs") for o in ops):
            sim.probe("autopack_or_pack_ran")
        allops = dry.get("allops", [])
        rng = __import__("random").Random(plan["sample_seed"])
        strata = {"index": [], "names": [], "obsolete": [], "error": [], "rest": []}
        for k in range(1, n + 1):
            op, path = ops[k - 1]
            where = "names" if "pack-names" in path else "obsolete" if "obsolete_packs" in path else "index" if ("indices/" in path or "packs/" in path) else "rest"
            strata[where].append((k, "dropped"))
            strata[where].append((k, "applied"))
            if op in TEARABLE:
                strata[where].append((k, "torn"))
        # past the commit point: an I/O error or an interrupt before each later store op
        names_put = [i for i, o in enumerate(allops, 1) if o[0] in ("put", "put_na") and o[1].endswith("pack-names")]
        strata["error_obs"] = []
        if names_put:
            for a in range(names_put[0] + 1, len(allops) + 1):
                st = "error_obs" if "obsolete_packs" in allops[a - 1][1] else "error"
                strata[st].append((a, "err:" + rng.choice(ERRORS)))
                strata[st].append((a, "int"))
            sim.probe("ops_after_pack_names_put", len(allops) - names_put[0])
        if sim.tier != "thorough":
            for v in strata.values():
                rng.shuffle(v)
            order = ["index", "error_obs", "names", "obsolete", "error_obs", "rest", "error", "index", "error_obs", "rest"]
            points = []
            while len(points) < 10 and any(strata.values()):
                for name in order:
                    if strata[name] and len(points) < 10:
                        points.append(strata[name].pop())
            points = [(k, v, i % 3 == 0) for i, (k, v) in enumerate(sorted(points, key=lambda p: (p[1][:3] in ("err", "int"), p[0], p[1])))]
        else:
            points = [(k, v, True) for name in ("index", "names", "obsolete", "rest", "error_obs", "error") for k, v in strata[name]]
            points.sort(key=lambda p: (p[1][:3] in ("err", "int"), p[0], p[1]))
    tornrng = __import__("random").Random(plan["sample_seed"] + 1)
    for pt in points:
        k, variant = pt[0], pt[1]
        rerun = pt[2] if len(pt) > 2 else True
        if variant.startswith("err:"):
            fault = {"kind": "err_before", "at": k, "count": "any", "err": variant[4:]}
            label = f"a{k}:{variant}"
        elif variant == "int":
            fault = {"kind": "err_before", "at": k, "count": "any", "exc": KeyboardInterrupt("injected interrupt")}
            label = f"a{k}:{variant}"
        else:
            fault = {"kind": "crash", "at": k, "count": "mut", "applied": variant != "dropped"}
            if variant == "torn":
                fault["torn"] = tornrng.choice([0.0, 0.3, 0.5, 0.9])
            label = f"k{k}:{variant}"
        res = forkenum.run_forked(lambda f=fault, lb=label, rr=rerun: run_point(f, lb, rr), timeout=200)
        if res.get("verdict") == "violation":
            plan["only"] = [[k, variant, rerun]]
        forkenum.merge_sub(sim, res, label)
    sim.state_seen((plan["fmt"], plan["pre_kind"], plan["scenario"], n))


def shrink_candidates(plan):
    """The failing point is already isolated by plan['only']; try smaller pre-states."""
    import copy

    if plan.get("batches") and len(plan["batches"]) > 1:
        for i in range(len(plan["batches"])):
            p = copy.deepcopy(plan)
            # merging two batches keeps the history but changes the pack layout
            if i + 1 < len(p["batches"]):
                p["batches"][i : i + 2] = [p["batches"][i] + p["batches"][i + 1]]
                yield p
