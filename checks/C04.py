"""C04 — Pack repositories are crash-atomic.

Per run: a generated history is installed in a target pack repository batch by batch
(so the pack count sits near the autopack threshold), then ONE scenario (commit, pull of
k revisions, pack, pack+clean_obsolete_packs) is executed once fault-free to count its
mutating store operations, and then re-executed from the identical pre-state (forked copy
of the run child) with the process crashed at operation k — op dropped, op applied, or
(for appends / stream writes) a torn prefix applied.  A fresh process then judges."""

from simkit import forkenum, world
from simkit.sim import Sim, SimCrash, Violation, derive_seed

from . import storesim
from .storesim import MHist, gen_chain, replay_model

PROPERTY = "C04"
LEVEL = "fault_enumeration"
RULE = (
    "one case = one crash point: (generated pre-state of packs, scenario, mutating store op index k, variant "
    "dropped|applied|torn); quick samples <=12 points per run, thorough enumerates every k; non-trivial = the crash "
    "landed strictly inside the scenario (after its first and before its last mutating op); distinct = distinct "
    "event-log digests of such crash executions"
)
COMPONENTS = {
    "real": ["breezy.bzr.pack_repo (RepositoryPackCollection, write groups, autopack, pack)", "groupcompress_repo / knitpack_repo", "bzrformats pack+btree index code (Rust)", "breezy.commit via MemoryTree/BranchBuilder", "fetch via Branch.pull", "LockDir", "Repository.check()"],
    "simulated": ["disk (SimTransport over dromedary MemoryTransport)", "process crash (actor refused at the seam after op k)", "clock of breezy.lockdir"],
    "stub": ["UI", "source repository lives on a second simulated store without faults"],
}
ASSUMPTIONS = [
    "crash = the process stops; operations applied before the crash are durable in order (no power-loss reordering)",
    "put_file/put_bytes/rename/move/mkdir are atomic; append/stream writes may be torn at the crash point",
    "after a crash the documented manual step break_lock is applied to repository and branch locks before re-use",
]


def warm():
    storesim.warm()


def config(tier):
    if tier == "thorough":
        return {"budget_s": 780, "run_timeout": 1500, "selftest": 8}
    return {"budget_s": 55, "run_timeout": 240, "selftest": 4}


PRE_KINDS = ["empty", "ones9", "n19", "random", "random", "ones4", "n109"]


def generate(rng, tier):
    fmt = rng.choice(storesim.FORMATS)
    kind = rng.choice(PRE_KINDS)
    if kind == "empty":
        batches = []
    elif kind == "ones9":
        batches = [1] * 9
    elif kind == "ones4":
        batches = [1] * 4
    elif kind == "n19":
        batches = [10] + [1] * 9
    elif kind == "n109":
        batches = [20] + [1] * rng.choice([7, 8, 9])
    else:
        batches = [rng.choice([1, 1, 1, 2, 3, 5]) for _ in range(rng.randint(1, 8))]
    scenario = rng.choice(["commit", "commit", "pull", "pull", "pack", "pack_clean"])
    if not batches and scenario in ("pack", "pack_clean"):
        scenario = "commit"
    npre = sum(batches)
    nscen = {"commit": 1, "pull": rng.choice([1, 2, 5, 10])}.get(scenario, 0)
    mh = MHist()
    specs = gen_chain(rng, mh, None, npre + nscen + 1, "r")
    return {
        "fmt": fmt,
        "pre_kind": kind,
        "batches": batches,
        "scenario": scenario,
        "nscen": nscen,
        "specs": specs,
        "sample_seed": rng.randrange(1 << 30),
    }


TEARABLE = ("stream_write", "append", "put_na")


def _scenario(plan, tb, sb, specs, npre):
    sc = plan["scenario"]
    if sc == "commit":
        storesim.commit_specs(tb, [specs[npre]])
    elif sc == "pull":
        tb.pull(sb, stop_revision=specs[npre + plan["nscen"] - 1]["id"].encode())
    elif sc == "pack":
        tb.repository.pack()
    elif sc == "pack_clean":
        tb.repository.pack(clean_obsolete_packs=True)


def _recover_and_judge(sub, plan, mh, url_t, url_s, pre_set, post_set, site):
    """Runs as a fresh process after the crash."""
    from breezy import errors

    storesim.clear_caches()
    sc = plan["scenario"]

    def fail(oracle, detail):
        sub.fail(oracle, [oracle, "crash", site], detail)

    try:
        repo = storesim.open_repo(url_t + "t")
    except Exception as e:  # noqa: BLE001
        fail("reopen", f"repository cannot be opened after the crash: {type(e).__name__}: {e}")
    with repo.lock_read():
        listed = {r.decode() for r in repo.all_revision_ids()}
        if listed != pre_set and listed != post_set:
            fail("old_or_new", f"revisions listed after crash {sorted(listed)} are neither the old set ({len(pre_set)}) nor the new set ({len(post_set)})")
        prob = storesim.readable(repo, mh, None)
        if prob:
            fail("readable", prob)
    prob = storesim.check_clean(repo)
    if prob:
        fail("check", prob)
    state = "new" if listed == post_set and post_set != pre_set else "old"
    sub.probe("state_after_crash_" + state)
    # the documented manual step
    for opener in (storesim.open_branch, storesim.open_repo):
        try:
            obj = opener(url_t + "t")
            obj.break_lock()
        except Exception as e:  # noqa: BLE001
            fail("break_lock", f"break_lock failed: {type(e).__name__}: {e}")
    # the same scenario re-run to completion (leftovers must not break it)
    specs = plan["specs"]
    npre = sum(plan["batches"])
    try:
        tb = storesim.open_branch(url_t + "t")
        sb = storesim.open_branch(url_s + "s")
        if not (sc == "commit" and specs[npre]["id"] in listed):
            _scenario(plan, tb, sb, specs, npre)
        # and the repository stays usable for new work
        extra = specs[-1]
        tip = tb.last_revision().decode()
        extra = dict(extra, id="recover-1", parents=[tip] if tip != "null:" else [])
        base_tree = mh.tree(tip) if tip != "null:" else {}
        extra["actions"] = ([["add", "", storesim.ROOT_ID, "directory", None]] if "" not in base_tree else []) + [["add", "recovered.txt", "recover-fid", "file", "after crash\n"]]
        storesim.commit_specs(storesim.open_branch(url_t + "t"), [extra])
        mh.add(extra)
    except SimCrash:
        raise
    except Exception as e:  # noqa: BLE001
        import traceback

        fail("rerun", f"re-running {sc} after the crash failed: {type(e).__name__}: {e}\n{traceback.format_exc()[-1200:]}")
    storesim.clear_caches()
    repo = storesim.open_repo(url_t + "t")
    with repo.lock_read():
        listed2 = {r.decode() for r in repo.all_revision_ids()}
        want = set(post_set) | {"recover-1"}
        if listed2 != want:
            fail("rerun_result", f"after re-running {sc}: listed {sorted(listed2 ^ want)} differ from the expected new set")
        prob = storesim.readable(repo, mh, None)
        if prob:
            fail("rerun_readable", prob)
    prob = storesim.check_clean(repo)
    if prob:
        fail("rerun_check", prob)


def execute(sim, plan):
    warm()
    world.setup_sim(sim)
    world.install_clock(sim, ["breezy.lockdir"])
    fmt = plan["fmt"]
    specs = plan["specs"]
    mh = replay_model(specs)
    npre = sum(plan["batches"])
    url_s = world.new_store("src")
    url_t = world.new_store("tgt")
    sb = storesim.make_branch(url_s + "s", fmt)
    storesim.commit_specs(sb, specs[:-1])
    tb = storesim.make_branch(url_t + "t", fmt)
    cum = 0
    for b in plan["batches"]:
        cum += b
        tb.pull(sb, stop_revision=specs[cum - 1]["id"].encode())
    pre_set = {s["id"] for s in specs[:npre]}
    post_set = {s["id"] for s in specs[: npre + plan["nscen"]]}
    del tb, sb

    def run_point(fault, label):
        sub = Sim(derive_seed(sim.seed, label), plan, step_cap=200000)
        mutops = []

        def mon(s, actor, phase, op, path, extra):
            if phase == "before" and actor.name == "main" and op not in ("get", "has", "stat", "list_dir", "readv", "iter_files_recursive", "stream_close", "readlink"):
                mutops.append([op, storesim.path_class(path)])

        sub.monitors.append(mon)
        tb2 = storesim.open_branch(url_t + "t")
        sb2 = storesim.open_branch(url_s + "s")
        if fault is not None:
            sub.arm([fault])
        else:
            sub.arm([])
        err = None
        try:
            _scenario(plan, tb2, sb2, specs, npre)
        except SimCrash:
            pass
        except Exception as e:  # noqa: BLE001
            err = e
        crashed = sub.main_actor.dead
        nmut = sub.main_actor.nmut
        sub.disarm()
        if fault is None:
            if err is not None:
                import traceback

                try:
                    sub.fail("faultfree", ["faultfree", "none", plan["scenario"]], f"{plan['scenario']} failed without any fault: {type(err).__name__}: {err}\n" + "".join(traceback.format_exception(err))[-1500:])
                except Violation:
                    pass
            return forkenum.sub_result(sub, {"nmut": nmut, "ops": mutops})
        if not crashed:
            # the fault point lies beyond the end of the scenario
            return forkenum.sub_result(sub, {"nmut": nmut, "missed": True})
        site_op = mutops[fault["at"] - 1] if fault["at"] - 1 < len(mutops) else ["?", "?"]
        site = f"{plan['scenario']}:{site_op[0]}:{site_op[1]}:{label.split(':')[-1]}"
        sub.nontrivial = 1 < fault["at"] < plan.get("_n", 10**9)
        for frag, probe in (("upload/", "crash_before_rename_to_packs"), ("indices/", "crash_in_index_writes"), ("pack-names", "crash_at_pack_names"), ("obsolete_packs", "crash_in_obsoletion"), ("lock/", "crash_in_lock_ops"), ("last-revision", "crash_at_branch_tip")):
            if frag in site_op[1]:
                sub.probe(probe)
        sub.restart_main()
        try:
            _recover_and_judge(sub, plan, mh, url_t, url_s, pre_set, post_set, site)
        except Violation:
            pass  # recorded in sub.violation
        except SimCrash:
            raise
        except Exception as e:  # noqa: BLE001 - the property says the repository stays usable
            import traceback

            try:
                sub.fail("recovery_exception", ["recovery_exception", "crash", site], f"{type(e).__name__}: {e}\n{traceback.format_exc()[-1500:]}")
            except Violation:
                pass
        return forkenum.sub_result(sub, {"nmut": nmut, "site": site})

    only = plan.get("only")
    if only is not None and not only:
        dry = forkenum.run_forked(lambda: run_point(None, "dry"), timeout=200)
        forkenum.merge_sub(sim, dry, "dry")
        return
    if only:
        n = plan.get("_n", 10**9)
        points = [tuple(p) for p in only]
    else:
        dry = forkenum.run_forked(lambda: run_point(None, "dry"), timeout=200)
        if "_error" in dry or "_timeout" in dry:
            raise RuntimeError(f"dry pass failed: {dry}")
        if dry["verdict"] != "ok":
            plan["only"] = []
            forkenum.merge_sub(sim, dry, "dry")
        n = dry["nmut"]
        plan["_n"] = n
        ops = dry["ops"]
        sim.event("dry", plan["scenario"], n)
        if any("autopack" in o[1] or o[1].startswith("repository/obsolete_packs") for o in ops):
            sim.probe("autopack_or_pack_ran")
        points = []
        for k in range(1, n + 1):
            points.append((k, "dropped"))
            points.append((k, "applied"))
            if ops[k - 1][0] in TEARABLE:
                points.append((k, "torn"))
        if sim.tier != "thorough":
            rng = __import__("random").Random(plan["sample_seed"])
            rng.shuffle(points)
            points = sorted(points[:12])
    tornrng = __import__("random").Random(plan["sample_seed"] + 1)
    for k, variant in points:
        fault = {"kind": "crash", "at": k, "count": "mut", "applied": variant != "dropped"}
        if variant == "torn":
            fault["torn"] = tornrng.choice([0.0, 0.3, 0.5, 0.9])
        label = f"k{k}:{variant}"
        res = forkenum.run_forked(lambda f=fault, lb=label: run_point(f, lb), timeout=200)
        if res.get("verdict") == "violation":
            plan["only"] = [[k, variant]]
        forkenum.merge_sub(sim, res, label)
    sim.state_seen((plan["fmt"], plan["pre_kind"], plan["scenario"], n))


def shrink_candidates(plan):
    """The failing point is already isolated by plan['only']; try smaller pre-states."""
    import copy

    if plan.get("batches") and len(plan["batches"]) > 1:
        for i in range(len(plan["batches"])):
            p = copy.deepcopy(plan)
            # merging two batches keeps the history but changes the pack layout
            if i + 1 < len(p["batches"]):
                p["batches"][i : i + 2] = [p["batches"][i] + p["batches"][i + 1]]
                yield p
