"""C08 — Stacked branches stay readable from their own repository plus fallbacks.

One run: a base branch (shared repository, one or two lines of development) gets a seeded
history; a branch STACKED on it is created at a seeded revision (sprout --stacked,
create_clone_on_transport(stacked_on=), or set_stacked_on_url + pull); then a seeded
sequence of operations hits the stacked branch: commits through a working tree (2a),
two-parent commits merging later base revisions, growth of the base, work in a third full
repository (possibly of another format) that is pulled / fetched / pushed into the stacked
branch, creation of further stacked branches from it, pack() and re-opens.  After every
operation that touched a stacked repository the oracle opens the stacked branch alone."""

import random

from simkit import world

from . import storesim
from .storesim import DagGen, replay_dag

PROPERTY = "C08"
LEVEL = "exploration"
RULE = (
    "one case = one seeded (stacking format 2a|1.9|1.9-rich-root, base history, stacking point and method, 2-8 "
    "operations among commit / merge-of-later-base-revision / base growth / third-repository work then pull|fetch|push / "
    "new stacked clone / branch created under a default stacking policy / pack / re-open / final unstack, optionally under an injected error); non-trivial = the stacked repository ends up holding at least one revision of "
    "its own whose parent lives only in the fallback (the split point matters) and at least two operations touched it; "
    "distinct = distinct event-log digests of such runs"
)
COMPONENTS = {
    "real": [
        "BzrBranch7 stacking (set_stacked_on_url, _activate_fallback_location), ControlDir.sprout(stacked=True), Branch.create_clone_on_transport(stacked_on=)",
        "VersionedFileCommitBuilder._ensure_fallback_inventories, Repository.get_missing_parent_inventories, GCRepositoryPackCollection._check_new_inventories",
        "fetch/pull/push into and out of stacked repositories (RepoFetcher, StreamSource.get_stream_for_missing_keys, StreamSink)",
        "commit through WorkingTree (lightweight checkout of the stacked branch)",
        "RevisionTree iteration, iter_changes between revision trees, Repository.check()",
        "BzrBranch.set_stacked_on_url(None) / _unstack, reconfigure.ReconfigureUnstacked",
        "default stacking policy: ControlDir.get_config().set_default_stack_on, RepositoryAcquisitionPolicy (UseExistingRepository._add_fallback, configure_branch), clone_on_transport / sprout / create_branch_convenience + push below the hosting directory",
    ],
    "simulated": ["disks of base, stacked, third, hosting and clone locations (SimTransport over memory transports)", "re-open (fresh objects)", "transport error injected into the stacked store during unstacking"],
    "stub": ["UI", "working-tree files on local scratch disk"],
}
ASSUMPTIONS = [
    "local sim URLs only (the smart-server variant is covered elsewhere)",
    "pre-2a formats refuse direct commits to a stacked branch by design; for 1.9 / 1.9-rich-root the commits are made in the third repository and pulled",
    "'own' revisions = keys of repository.revisions.without_fallbacks(); a parent counts as a ghost when neither the stacked repository nor its fallback has the revision",
    "the strong local statement is judged on Repository.open(stacked location), which has no fallbacks: inventories of own revisions and of their non-ghost parents must iterate there, and every entry of an own revision whose text key is not carried by any present parent must have its text there",
    "check() is run on the stacked repository with its fallback attached",
    "unstacking is always the last operation of a run; afterwards (and after an unstack that failed under an injected error, once locks are broken) the branch is judged by what it records: stacked -> the usual oracle with its fallback, not stacked -> the whole ancestry of its tip must be readable from its own repository alone; the retry must succeed; check() is run on an unstacked repository only when every revision it holds has its ancestry locally; after a completed unstack the revisions the repository holds OUTSIDE the tip's ancestry must still be readable as well (they were, through the fallback, before the call)",
    "a branch stacked on the stacked branch itself (sprout --stacked from it) is not judged any more after its fallback was unstacked into a repository that keeps revisions or parent inventories outside its tip's ancestry (their ancestry stayed in the former fallback)",
    "branches created under a default stacking policy may come out stacked or unstacked; either way the tip must be reconstructible by the branch opened alone; a creation refused with IncompatibleRepositories / IncompatibleFormat / Unstackable*Format is not a violation",
    "a commit that breezy refuses (ghost right-hand parent in a stacked branch: 'Unable to fill in parent inventories') is not a violation of this property; the state it leaves is judged like any other",
]

FMTS = ["2a", "2a", "2a", "1.9", "1.9-rich-root"]
RICH = {"2a": True, "1.9": False, "1.9-rich-root": True, "pack-0.92": False, "rich-root-pack": True}
NATIVE_COMMIT = {"2a"}
# sources of policy-stacked branches: same rich-root kind as the hosting repository; "+b6" = that
# repository format with the pre-stacking branch format 6 (rich-root-pack and pack-0.92 use it too)
POLICY_SOURCES = {
    "2a": ["2a", "2a+b6", "rich-root-pack", "1.9-rich-root"],
    "1.9": ["1.9", "1.9+b6", "pack-0.92", "knit"],
    "1.9-rich-root": ["1.9-rich-root", "2a", "2a+b6", "rich-root-pack"],
}


def policy_format(name):
    from breezy.controldir import format_registry

    if name.endswith("+b6"):
        from breezy.bzr.branch import BzrBranchFormat6

        f = format_registry.make_controldir(name[:-3])
        f.set_branch_format(BzrBranchFormat6())
        return f
    return format_registry.make_controldir(name)

_warmed = []


def warm():
    if _warmed:
        return
    _warmed.append(1)
    storesim.warm_dag(("2a", "1.9", "1.9-rich-root", "pack-0.92", "rich-root-pack"))
    import os
    import shutil
    import tempfile

    from simkit.sim import Sim

    scratch = tempfile.mkdtemp(prefix="warmc08", dir=os.environ.get("VERIF_SCRATCH_BASE") or "/dev/shm")
    try:
        for n, (seed, fmt) in enumerate([(1, "2a"), (2, "1.9"), (3, "2a"), (5, "1.9-rich-root")]):
            plan = generate(random.Random(seed), "quick", fmt=fmt)
            s2 = Sim(1, plan)
            world.setup_sim(s2)
            sub = os.path.join(scratch, f"p{n}")
            os.makedirs(sub)
            try:
                execute(s2, plan, _scratch=sub)
            except Exception:  # noqa: BLE001 - warming only; verdicts come from real runs
                pass
    finally:
        shutil.rmtree(scratch, ignore_errors=True)
        world.reset_stores()


def config(tier):
    if tier == "thorough":
        return {"budget_s": 700, "run_timeout": 180, "selftest": 10}
    return {"budget_s": 50, "run_timeout": 180, "selftest": 4}


def generate(rng, tier, fmt=None):
    fmt = fmt or rng.choice(FMTS)
    native = fmt in NATIVE_COMMIT
    # the third repository both receives from and sends to the stacked side: same rich-root kind
    others = [f for f in ("2a", "1.9", "1.9-rich-root", "pack-0.92", "rich-root-pack") if f != fmt and RICH[f] == RICH[fmt]]
    third_fmt = fmt if rng.random() < 0.7 else rng.choice(others)
    g = DagGen(rng, ghosts=rng.choice([0.0, 0.0, 0.15]))
    mh = g.mh
    ops = []
    nb = rng.choice([1, 1, 2])
    n0 = rng.randint(2, 6)
    g.run(n0, nbranch=nb)
    base_names = sorted(mh.tips)
    for s in g.specs:
        ops.append(["commit", "base", s])
    s_rev = rng.choice(mh.order) if rng.random() < 0.6 else mh.tips["p"]
    ops.append(["stack", rng.choice(["sprout", "sprout", "clone", "pull"]), s_rev])
    mh.tips["d"] = s_rev
    nclone = 0

    def placed(spec):
        """A revision of the stacked line: committed directly (2a) or via the third repo."""
        if native and rng.random() < 0.8:
            ops.append(["commit", "stk", spec])
        else:
            ops.append(["commit", "third", spec])
            ops.append([rng.choice(["pull", "pull", "push"]), "third", spec["id"]])

    for _ in range(rng.randint(2, 8)):
        r = rng.random()
        d_tip = mh.tips["d"]
        if r < 0.30:
            n = len(g.specs)
            g.op_edit("d")
            placed(g.specs[n])
        elif r < 0.45:
            later = [x for x in mh.order if mh.revs[x]["branch"] in base_names and x not in mh.ancestry(d_tip) and d_tip not in mh.ancestry(x)]
            if not later:
                later = [x for x in mh.order if mh.revs[x]["branch"] in base_names and x not in mh.ancestry(d_tip)]
            if later:
                n = len(g.specs)
                g.op_merge("d", rng.choice(later))
                placed(g.specs[n])
        elif r < 0.60:
            b = rng.choice(base_names)
            n = len(g.specs)
            other = [o for o in base_names if o != b and mh.tips[o] not in mh.ancestry(mh.tips[b])]
            if other and rng.random() < 0.3:
                g.op_merge(b, mh.tips[other[0]])
            else:
                g.op_edit(b)
            ops.append(["commit", "base", g.specs[n]])
        elif r < 0.80:
            # work in the third repository, starting from the stacked tip or a base revision
            n = len(g.specs)
            start = d_tip if rng.random() < 0.6 or "t" in mh.tips else rng.choice(mh.order)
            if "t" not in mh.tips:
                g.op_edit("t", base=start)
            for _k in range(rng.randint(0, 2)):
                cand = [x for x in mh.order if x not in mh.ancestry(mh.tips["t"]) and mh.tips["t"] not in mh.ancestry(x)]
                if cand and rng.random() < 0.4:
                    g.op_merge("t", rng.choice(cand))
                else:
                    g.op_edit("t")
            for s in g.specs[n:]:
                ops.append(["commit", "third", s])
            how = rng.choice(["pull", "fetch", "push", "pull"])
            ops.append([how, "third", mh.tips["t"]])
            if how != "fetch":
                mh.tips["d"] = mh.tips["t"]
                mh.nrev["d"] = mh.nrev.get("d", 0)
        elif r < 0.88:
            nclone += 1
            ops.append(["clone", rng.choice(["stk", "third"]), rng.choice(["clone", "sprout"]), nclone])
        elif r < 0.94:
            ops.append(["pack"])
        else:
            ops.append(["reopen"])
    # stacking obtained through a default stacking policy (control.conf default_stack_on of
    # a hosting directory with a shared repository): new branches created below it
    if rng.random() < 0.4:
        istack = next(i for i, o in enumerate(ops) if o[0] == "stack")
        for n in range(rng.choice([1, 1, 2])):
            pos = rng.randint(istack + 1, len(ops))
            known = [o[2]["id"] for o in ops[:pos] if o[0] == "commit"]
            rev = rng.choice(known[-4:]) if rng.random() < 0.7 else rng.choice(known)
            ops.insert(pos, ["policy", rng.choice(["clone", "clone", "sprout", "init_push"]), rng.choice(POLICY_SOURCES[fmt]), rev, n + 1])
    # unstacking, always last: afterwards the branch must live without any fallback
    if rng.random() < 0.35:
        fault = None
        if rng.random() < 0.6:
            fault = {"kind": "err_before", "at": rng.randint(1, 30), "count": "mut", "err": rng.choice(["transport", "connection", "enospc", "permission"])}
        ops.append(["unstack", rng.choice(["api", "api", "reconfigure"]), fault])
    return {"fmt": fmt, "third_fmt": third_fmt, "ops": ops}


def execute(sim, plan, _scratch=None):
    from breezy import errors
    from breezy.transport import get_transport

    warm()
    sim.disarm()
    world.setup_sim(sim)
    fmt = plan["fmt"]
    url_b = world.new_store("base") + "B/"
    url_k = world.new_store("stk") + "K/"
    url_3 = world.new_store("third") + "3/"
    get_transport(url_k).ensure_base()
    dbb = storesim.DagBuilder(url_b, fmt, "shared", scratch=_scratch, tag="b")
    db3 = storesim.DagBuilder(url_3, plan["third_fmt"], "shared", scratch=_scratch, tag="t")
    dbk = storesim.DagBuilder(url_k, fmt, "adopt", scratch=_scratch, tag="k")
    dbk.raise_errors = True  # commits into the stacked branch are classified below (refused ghost commits)
    base_url = dbb.branch_url("p")
    stk_url = url_k + "stk"
    db3.sources = [base_url]
    done = []
    native = set()  # revisions committed directly into the stacked branch
    stacked = []  # URLs of stacked branches
    touched = 0
    sig = fmt if plan["third_fmt"] == fmt else f"{fmt}<-{plan['third_fmt']}"

    def mh_now():
        return replay_dag(done)

    def have_ids():
        return {d["id"] for d in done}

    def fail_op(kind, e, what):
        import traceback

        frames = [f.name for f in traceback.extract_tb(e.__traceback__) if "/breezy/" in f.filename]
        sim.fail("op_failed", ["op_failed", sig, kind, f"{type(e).__name__}:{frames[-1] if frames else '?'}"], f"{what} failed: {type(e).__name__}: {e}\n" + "".join(traceback.format_exception(e))[-1800:])

    def oracle(url, tag, tip_only=False):
        """Open the stacked branch alone and judge it."""
        from breezy.branch import Branch
        from breezy.repository import Repository

        storesim.clear_caches()
        mh = mh_now()
        try:
            b = Branch.open(url)
            repo = b.repository
        except Exception as e:  # noqa: BLE001
            sim.fail("open", ["open", sig, tag, type(e).__name__], f"{tag}: stacked branch cannot be opened: {type(e).__name__}: {e}")
        if not repo._fallback_repositories:
            sim.fail("open", ["open", sig, tag, "no-fallback"], f"{tag}: branch at {url} has no fallback repository (stacked_on lost)")
        nonlocal_info = {}
        with repo.lock_read():
            tip = b.last_revision().decode()
            own = sorted(k[0].decode() for k in repo.revisions.without_fallbacks().keys())
            unknown = [r for r in own if r not in mh.revs]
            if unknown:
                sim.fail("readable", ["readable", sig, tag, "unknown-revision"], f"{tag}: stacked repository holds unknown revisions {unknown}")
            judge = [tip] if tip_only else own
            if tip != "null:" and tip not in judge:
                judge = judge + [tip]
            for kind, rid, fid, detail in storesim.dag_problems(repo, mh, [r for r in mh.order if r in judge], per_file=False):
                sim.fail("readable", ["readable", sig, tag, kind], f"{tag}: {rid}: {detail} (own revisions {own})")
            if tip_only:
                return own
            for rid in own:
                tree = repo.revision_tree(rid.encode())
                for p in mh.revs[rid]["parents"]:
                    if not repo.has_revision(p.encode()):
                        if p in mh.revs[rid].get("ghosts", []):
                            continue
                        sim.fail("readable", ["readable", sig, tag, "parent-revision-missing"], f"{tag}: {rid}: parent {p} is in neither the stacked repository nor its fallback")
                    try:
                        n = len(list(tree.iter_changes(repo.revision_tree(p.encode()))))
                    except Exception as e:  # noqa: BLE001
                        sim.fail("readable", ["readable", sig, tag, "iter_changes:" + type(e).__name__], f"{tag}: iter_changes of {rid} against parent {p} failed: {type(e).__name__}: {e}")
        res = None
        try:
            res = repo.check()
        except Exception:  # noqa: BLE001 - reported by check_clean below
            pass
        if res is not None and res.inconsistent_parents:
            # classify: the known shape is a revision committed DIRECTLY into the stacked
            # repository whose recorded per-file parents are all candidate versions of
            # its parents instead of their heads (the heads live in the fallback)
            shape = "non-head-candidates-recorded-by-commit-into-stacked"
            for rid_b, fid_b, stored, correct in res.inconsistent_parents:
                rid, fid = rid_b.decode(), fid_b.decode()
                parents = [p for p in mh.revs[rid]["parents"] if p in mh.revs] if rid in mh.revs else []
                cands = []
                for p in parents:
                    if fid in mh.revs[p]["tree"] and mh.ver[p][fid] not in cands:
                        cands.append(mh.ver[p][fid])
                if not (rid in native and stored is not None and tuple(x.decode() for x in stored) == tuple(cands) and set(correct) < set(stored)):
                    shape = "other"
            sim.fail("check", ["check", fmt, "inconsistent-parents", shape], f"{tag}: check() of the stacked repository reports inconsistent per-file parents (revision, file, stored, correct): {res.inconsistent_parents[:4]}; revisions committed directly into the stacked branch: {sorted(native)}")
        prob = storesim.check_clean(repo)
        if prob:
            sim.fail("check", ["check", sig, tag, prob.split(" ")[0]], f"{tag}: {prob}")
        if repo.supports_rich_root() and fmt == "2a":
            with repo.lock_read():
                for kind, rid, fid, detail in storesim.dag_problems(repo, mh, [r for r in mh.order if r in own], per_file=True):
                    sim.fail("per_file_history", ["per_file_history", sig, tag, kind], f"{tag}: {rid}: {detail}")
        # -- the strong local statement, fallbacks detached
        for what, detail in storesim.stacked_local_problems(url, mh, nonlocal_info):
            sim.fail("local", ["local", sig, tag, what], f"{tag}: {detail}")
        if nonlocal_info.get("split"):
            sim.probe("own_revision_with_parent_only_in_fallback")
            sim.notes["split"] = True
        return own

    def ensure_in(repo, rids, sources):
        for r in rids:
            if r in have_ids() and not repo.has_revision(r.encode()):
                for u in sources:
                    src = storesim.open_branch(u).repository
                    if src.has_revision(r.encode()):
                        repo.fetch(src, revision_id=r.encode())
                        break

    def oracle_unstacked(url, tag, all_own=False):
        """The branch records no fallback: its tip and the whole non-ghost ancestry of
        the tip must be reconstructible from its own repository alone."""
        from breezy.branch import Branch

        storesim.clear_caches()
        mh = mh_now()
        try:
            b = Branch.open(url)
            repo = b.repository
        except Exception as e:  # noqa: BLE001
            sim.fail("open", ["open", sig, tag, type(e).__name__], f"{tag}: branch cannot be opened: {type(e).__name__}: {e}")
        if repo._fallback_repositories:
            raise RuntimeError("oracle_unstacked called for a stacked branch")
        with repo.lock_read():
            tip = b.last_revision().decode()
            if tip == "null:":
                return
            if tip not in mh.revs:
                sim.fail("unstacked", ["unstacked", sig, tag, "unknown-tip"], f"{tag}: tip {tip} unknown")
            anc = [r for r in mh.order if r in mh.ancestry(tip)]
            have = set(repo.has_revisions([r.encode() for r in anc]))
            missing = [r for r in anc if r.encode() not in have]
            if missing:
                sim.fail("unstacked", ["unstacked", fmt, "ancestry-missing-without-fallback"], f"{tag}: branch {url} records no stacked-on location but its repository lacks {missing} of the ancestry of its tip {tip} (own revisions {sorted(k[0].decode() for k in repo.revisions.keys())})")
            for kind_, rid, fid, detail in storesim.dag_problems(repo, mh, anc, per_file=False):
                sim.fail("unstacked", ["unstacked", fmt, "unreadable-without-fallback:" + kind_], f"{tag}: {rid}: {detail}")
            tree = repo.revision_tree(tip.encode())
            for p in mh.revs[tip]["parents"]:
                if p in mh.revs:
                    try:
                        list(tree.iter_changes(repo.revision_tree(p.encode())))
                    except Exception as e:  # noqa: BLE001
                        sim.fail("unstacked", ["unstacked", fmt, "iter_changes:" + type(e).__name__], f"{tag}: iter_changes of tip {tip} against {p} failed: {type(e).__name__}: {e}")
            if all_own:
                # the branch that was just unstacked: the OTHER revisions its repository
                # holds (abandoned tips, fetched-only revisions) were readable through the
                # fallback a moment ago and must not have lost their data
                others = [r for r in mh.order if r not in anc and r.encode() in {k[0] for k in repo.revisions.keys()}]
                for kind_, rid, fid, detail in storesim.dag_problems(repo, mh, others, per_file=False):
                    sim.fail("unstacked", ["unstacked", "all-stackable-formats", "revisions-outside-tip-ancestry-unreadable-after-unstack"], f"{tag}: the unstacked repository still lists {rid} (not an ancestor of the tip {tip}; listed revisions outside the tip's ancestry: {others}) but can no longer read it: {detail}")
            complete = all(set(mh.ancestry(r)) & set(mh.revs) <= {x.decode() for x in repo.has_revisions([a.encode() for a in mh.ancestry(r)])} for r in (k[0].decode() for k in repo.revisions.keys()) if r in mh.revs)
        if complete:
            prob = storesim.check_clean(repo)
            if prob:
                sim.fail("check", ["check", sig, tag, prob.split(" ")[0]], f"{tag}: {prob}")
        sim.probe("judged_unstacked")
        return complete

    def judge_any(url, tag):
        """Stacked with its recorded fallback, or unstacked and complete."""
        from breezy.branch import Branch

        storesim.clear_caches()
        try:
            b = Branch.open(url)
        except Exception as e:  # noqa: BLE001
            sim.fail("open", ["open", sig, tag, type(e).__name__], f"{tag}: branch cannot be opened: {type(e).__name__}: {e}")
        is_stacked = bool(b.repository._fallback_repositories)
        del b
        if is_stacked:
            oracle(url, tag + "-tip", tip_only=True)
            oracle(url, tag)
        else:
            oracle_unstacked(url, tag)
        return is_stacked

    def break_locks(url):
        from breezy.controldir import ControlDir
        from breezy.repository import Repository

        for opener in (lambda: ControlDir.open(url).open_branch(), lambda: ControlDir.open(url).find_repository()):
            try:
                opener().break_lock()
            except Exception:  # noqa: BLE001
                pass

    host = []
    host_has_stacked = []
    chain = set()  # stacked branches whose fallback is the stacked branch itself
    unstacked_urls = set()

    for op in plan["ops"]:
        kind = op[0]
        if kind == "policy":
            how, src_fmt, rev, n = op[1], op[2], op[3], op[4]
            if not stacked or rev not in have_ids():
                continue
            from breezy.controldir import ControlDir

            if not host:
                url_h = world.new_store("host") + "H/"
                hd = ControlDir.create(url_h, format=policy_format(fmt))
                hr = hd.create_repository(shared=True)
                hr.set_make_working_trees(False)
                hd.get_config().set_default_stack_on(base_url)
                host.append(url_h)
                del hd, hr
            url_h = host[0]
            url_p = world.new_store(f"psrc{n}") + "P/"
            get_transport(url_p).ensure_base()
            sb = ControlDir.create_branch_convenience(url_p + "src", format=policy_format(src_fmt), force_new_tree=False)
            ensure_in(sb.repository, [rev], [u for u in stacked if u not in unstacked_urls] + [base_url] + [db3.branch_url(nm) for nm in sorted(db3.wts)])
            if not sb.repository.has_revision(rev.encode()):
                continue
            sb.generate_revision_history(rev.encode())
            del sb
            storesim.clear_caches()
            target = url_h + f"feat{n}"
            sb = storesim.open_branch(url_p + "src")
            refused = None
            try:
                if how == "clone":
                    sb.create_clone_on_transport(get_transport(target))
                elif how == "sprout":
                    sb.controldir.sprout(target, source_branch=sb)
                else:
                    nb = ControlDir.create_branch_convenience(target, format=policy_format(fmt), force_new_tree=False)
                    sb.push(nb)
                    del nb
            except (errors.IncompatibleRepositories, errors.IncompatibleFormat, errors.UnstackableRepositoryFormat) as e:
                refused = e
            except Exception as e:  # noqa: BLE001
                if type(e).__name__ == "UnstackableBranchFormat":
                    refused = e
                else:
                    fail_op("policy:" + how, e, f"creating {target} ({how}) from a {src_fmt} branch at {rev} under a default stacking policy")
            del sb
            sim.event("policy", how, src_fmt, rev, "refused" if refused else "ok")
            if refused is not None:
                sim.probe("policy_op_refused")
            try:
                from breezy.branch import Branch

                Branch.open(target)
                exists = True
            except errors.NotBranchError:
                exists = False
            if exists and how == "init_push" and host_has_stacked and not Branch.open(target).repository._fallback_repositories:
                # `init` does not apply the stacking policy to the branch (create_branch_convenience never calls
                # configure_branch), so this branch is an UNSTACKED branch in a shared repository that already holds
                # the partial history of stacked siblings; push then finds its tip "present" and copies nothing.
                # That is the shared-repository-with-stacked-branches hazard, not a statement of C08 (whose
                # subject is stacked branches and pushes to stacked locations): observed, not judged.
                sim.probe("policy_init_push_unstacked_in_mixed_shared_repo_not_judged")
                storesim.clear_caches()
                continue
            if exists:
                was_stacked = judge_any(target, "after-policy-" + how)
                host_has_stacked[0:] = [True] if was_stacked else host_has_stacked
                if refused is None:
                    tip = storesim.open_branch(target).last_revision().decode()
                    if tip != rev:
                        sim.fail("tip", ["tip", sig, "policy:" + how], f"{target}: tip {tip} != {rev}")
                    if was_stacked:
                        stacked.append(target)
                    sim.probe("policy_" + how + ("_stacked" if was_stacked else "_unstacked") + ("_b6" if src_fmt.endswith("+b6") or src_fmt in ("pack-0.92", "rich-root-pack", "knit") else ""))
                    touched += 1
            continue
        if kind == "unstack":
            how, fault = op[1], op[2]
            if not stacked or stk_url in unstacked_urls:
                continue
            from breezy import reconfigure
            from simkit.sim import SimCrash

            for d in (dbb, db3, dbk):
                d.forget()

            def do_unstack():
                storesim.clear_caches()
                b = storesim.open_branch(stk_url)
                if how == "reconfigure":
                    reconfigure.ReconfigureUnstacked().apply(b.controldir)
                else:
                    b.set_stacked_on_url(None)

            failed = None
            sim.fault_filter = lambda actor, op_, path, mutating: path.startswith("/K/")
            sim.arm([fault] if fault else [])
            try:
                do_unstack()
            except SimCrash:
                raise
            except Exception as e:  # noqa: BLE001
                failed = e
            finally:
                sim.disarm()
                sim.fault_filter = None
            if failed is not None and not sim.faults_fired:
                fail_op("unstack", failed, "unstacking without any fault")
            if failed is not None:
                sim.probe("unstack_failed_under_fault")
                sim.event("unstack-failed", type(failed).__name__)
                break_locks(stk_url)
                still = judge_any(stk_url, "after-failed-unstack")
                sim.probe("after_failed_unstack_" + ("still_stacked" if still else "unstacked"))
                try:
                    do_unstack()
                except Exception as e:  # noqa: BLE001
                    fail_op("unstack-retry", e, "retrying the unstack after an injected error")
            elif sim.faults_fired:
                # the injected error was swallowed (e.g. while saving branch.conf at unlock):
                # the call returned normally; whatever state it left must be readable, and a
                # second, fault-free call must finish the job
                break_locks(stk_url)
                still = judge_any(stk_url, "after-absorbed-fault-unstack")
                if still:
                    sim.probe("unstack_returned_ok_but_not_persisted_under_fault")
                    try:
                        do_unstack()
                    except Exception as e:  # noqa: BLE001
                        fail_op("unstack-retry", e, "repeating the unstack after a swallowed injected error")
            sim.event("unstacked", how)
            b = storesim.open_branch(stk_url)
            if b.repository._fallback_repositories:
                sim.fail("unstacked", ["unstacked", fmt, "still-stacked-after-unstack"], f"set_stacked_on_url(None) returned but the branch still has fallbacks {b.repository._fallback_repositories}")
            del b
            complete = oracle_unstacked(stk_url, "after-unstack", all_own=True)
            unstacked_urls.add(stk_url)
            stacked.remove(stk_url)
            if not complete:
                # the unstacked repository keeps revisions / stacking-support inventories
                # outside its tip's ancestry whose ancestry stayed in the former fallback;
                # branches stacked ON it are no longer a stacking configuration this
                # property speaks about
                for u in sorted(chain):
                    if u in stacked:
                        stacked.remove(u)
                        sim.probe("chain_clone_unjudged_after_unstack_left_partial_ancestry")
            touched += 1
            sim.probe("unstack_" + how)
            continue
        if kind == "commit":
            where, spec = op[1], op[2]
            ids = have_ids()
            if not all(p in ids or p in spec.get("ghosts", []) for p in spec["parents"]):
                continue
            if where == "base":
                if spec["branch"] in dbb.wts and storesim.open_branch(dbb.branch_url(spec["branch"])).last_revision().decode() != (spec["parents"] or ["null:"])[0]:
                    continue
                dbb.commit(spec)
            elif where == "third":
                db3.sources = [base_url] + stacked
                if spec["branch"] in db3.wts:
                    tb = storesim.open_branch(db3.branch_url(spec["branch"]))
                    p0 = spec["parents"][0].encode() if spec["parents"] else b"null:"
                    if tb.last_revision() != p0:
                        # the line continues from a revision that arrived elsewhere
                        ensure_in(tb.repository, [spec["parents"][0]] if spec["parents"] else [], db3.sources)
                        tb.generate_revision_history(p0)
                    del tb
                elif spec["branch"] == "d" and "t" in db3.wts:
                    pass
                db3.commit(spec)
            else:
                if not stacked:
                    continue
                if "d" not in dbk.wts:
                    dbk.adopt("d", storesim.open_branch(stk_url))
                dbk.sources = [base_url, db3.branch_url("t")] if "t" in db3.wts else [base_url]
                sb = storesim.open_branch(stk_url)
                p0 = spec["parents"][0].encode()
                if sb.last_revision() != p0:
                    if not sb.repository.has_revision(p0):
                        continue  # shrunk plan: the stacked line is elsewhere
                    sb.generate_revision_history(p0)
                del sb
                try:
                    dbk.commit(spec)
                except Exception as e:  # noqa: BLE001
                    if isinstance(e, errors.BzrError) and "Unable to fill in parent inventories" in str(e) and spec.get("ghosts"):
                        # a refused commit is not a readability problem; what is left behind is judged below
                        sim.probe("commit_with_ghost_parent_refused_in_stacked")
                        sim.event("refused", spec["id"])
                        dbk.forget()
                        oracle(stk_url, "after-refused-commit")
                        continue
                    fail_op("commit", e, f"commit of {spec['id']} (parents {spec['parents']}) into the stacked branch")
                touched += 1
                native.add(spec["id"])
                sim.probe("commit_into_stacked" + ("_merge" if len(spec["parents"]) > 1 else ""))
            done.append(spec)
            sim.event("committed", where, spec["id"])
            if where == "stk":
                oracle(stk_url, "after-commit")
        elif kind == "stack":
            how, rev = op[1], op[2]
            if rev not in have_ids() or stacked:
                continue
            bb = storesim.open_branch(base_url)
            try:
                if how == "sprout":
                    bb.controldir.sprout(stk_url, revision_id=rev.encode(), stacked=True, source_branch=bb)
                elif how == "clone":
                    bb.create_clone_on_transport(get_transport(stk_url), revision_id=rev.encode(), stacked_on=bb.base)
                else:
                    nb = storesim.make_branch(stk_url, fmt)
                    nb.set_stacked_on_url(bb.base)
                    nb = storesim.open_branch(stk_url)
                    nb.pull(bb, stop_revision=rev.encode(), overwrite=True)
                    if nb.last_revision() != rev.encode():
                        nb.generate_revision_history(rev.encode())
            except Exception as e:  # noqa: BLE001
                fail_op("stack:" + how, e, f"creating the stacked branch ({how}) at {rev}")
            stacked.append(stk_url)
            sim.event("stacked", how, rev)
            oracle(stk_url, "after-stack")
        elif kind in ("pull", "fetch", "push"):
            rev = op[2]
            if not stacked or rev not in have_ids():
                continue
            src_name = mh_now().revs[rev]["branch"]
            if src_name not in db3.wts:
                continue
            src_url = db3.branch_url(src_name)
            storesim.clear_caches()
            try:
                if kind == "pull":
                    storesim.open_branch(stk_url).pull(storesim.open_branch(src_url), stop_revision=rev.encode(), overwrite=True)
                elif kind == "push":
                    storesim.open_branch(src_url).push(storesim.open_branch(stk_url), stop_revision=rev.encode(), overwrite=True)
                else:
                    storesim.open_branch(stk_url).repository.fetch(storesim.open_branch(src_url).repository, revision_id=rev.encode())
            except Exception as e:  # noqa: BLE001
                fail_op(kind, e, f"{kind} of {rev} from the third repository into the stacked branch")
            touched += 1
            sim.probe(kind + "_into_stacked")
            sim.event(kind, rev)
            if kind == "push":
                oracle(stk_url, "after-push-tip", tip_only=True)
            oracle(stk_url, "after-" + kind)
        elif kind == "clone":
            src_where, how, n = op[1], op[2], op[3]
            if not stacked:
                continue
            if src_where == "third" and "t" not in db3.wts:
                continue
            src_url = stk_url if src_where == "stk" else db3.branch_url("t")
            new_url = url_k + f"clone{n}"
            sb = storesim.open_branch(src_url)
            if sb.last_revision() == b"null:":
                continue
            try:
                if how == "clone":
                    sb.create_clone_on_transport(get_transport(new_url), stacked_on=base_url)
                else:
                    if src_where != "stk":
                        continue
                    sb.controldir.sprout(new_url, stacked=True, source_branch=sb)
            except Exception as e:  # noqa: BLE001
                if isinstance(e, errors.IncompatibleRepositories) and plan["third_fmt"] != fmt and src_where == "third":
                    sim.probe("clone_refused_incompatible")
                    continue
                fail_op("clone:" + how, e, f"creating stacked clone {n} from {src_where}")
            stacked.append(new_url)
            if how == "sprout":
                chain.add(new_url)
            touched += 1
            sim.probe("stacked_clone_from_" + src_where)
            sim.event("clone", src_where, how)
            oracle(new_url, "after-clone-tip", tip_only=True)
            oracle(new_url, "after-clone")
        elif kind == "pack":
            if stacked:
                r = storesim.open_branch(stk_url).repository
                with r.lock_write():
                    r.pack()
                sim.probe("pack_stacked")
                oracle(stk_url, "after-pack")
        elif kind == "reopen":
            for d in (dbb, db3, dbk):
                d.forget()
            storesim.clear_caches()
    owns = []
    for u in stacked:
        owns.append(len(oracle(u, "final")))
    sim.nontrivial = bool(sim.notes.get("split")) and touched >= 2
    sim.state_seen((sig, tuple(owns), touched, tuple(f"{o[0]}:{o[1]}" if len(o) > 1 else o[0] for o in plan["ops"])))
