"""C14 — Transform previews match their applied result.

Per run: a small committed tree (bzr 2a or git) and a script of low-level transform
operations over trans-ids (new_file / new_directory / new_symlink / create_path /
delete_contents / unversion_file / version_file / adjust_path / set_executability /
create_* on existing trans ids).  Default scripts are composed of valid edits plus
deliberately injected conflicts of every kind the resolvers know (duplicate, duplicate id,
parent loop, missing parent, unversioned parent, non-directory parent, versioning no
contents), the way commands run into them; VERIF_C14_WILD=1 switches to fully random
operation sequences.  Then `resolve_conflicts(tt)`.  If it returns: snapshot
`tt.get_preview_tree()` through the Tree API (iter_entries_by_dir, extras, kind,
get_file_text, get_symlink_target, is_versioned, path2id, is_executable), `apply()`, reopen
the working tree, compare.  If it raises MalformedTransform: the tree must be untouched.
Any other exception, and a hang, are violations.  Mismatches are classified by cause
(signature) so that each known defect is one entry and anything else stays visible."""

import os

from dromedary.errors import NoSuchFile

from simkit import findings, osseam

from . import xformsim

PROPERTY = "C14"
LEVEL = "exploration"
RULE = (
    "one case = one seeded run (tree + script of transform operations over trans-ids, then resolve_conflicts, preview, apply); "
    "non-trivial = at least 3 operations took effect and resolve_conflicts had at least one conflict to resolve; "
    "distinct = distinct event-log digests (operations, conflicts met, file-system calls of apply) of such runs"
)
COMPONENTS = {
    "real": [
        "breezy.transform.resolve_conflicts / conflict_pass / CONFLICT_RESOLVERS / PreviewTree",
        "breezy.bzr.transform.InventoryTreeTransform + InventoryPreviewTree",
        "breezy.git.transform.GitTreeTransform + GitPreviewTree",
        "2a / git working trees on a /dev/shm directory",
    ],
    "simulated": ["nothing is faulted; the os seam only records the file-system calls of the transform"],
    "stub": ["UI (SilentUIFactory)"],
}
ASSUMPTIONS = [
    "operations are issued only in states where the TreeTransform API accepts them (no double version_file / create_* on one trans id, root never moved)",
    "default scripts: valid edits + injected conflicts; an entry is not both moved and deleted; symlinks of the base tree never point at an existing directory or at themselves (iter_tree_children follows such links; seen in the wild mode, reported by hand)",
    "the preview is read through iter_entries_by_dir / extras / kind / get_file_text / get_symlink_target / is_versioned / path2id / is_executable; walkdirs is not used (it raises for deleted entries whose path changed)",
    "executable bits are compared for versioned files; file ids only on trees that support them; on git trees directories are not compared (a directory exists only through the files in it)",
    "a hang is detected by a 30 s real-time watchdog around resolve_conflicts / preview / apply",
]
STEP_CAP = 20000
HANG_S = 30
# A run is ~60 ms of work; on this VM a fork per run costs 1-9 s under load (page-table work is
# serialised).  Every run rebuilds its whole world below its own scratch directory, the seam and
# the apply hook are installed once and consult the Sim owning the calling thread.
ISOLATION = os.environ.get("VERIF_XFORM_ISOLATION", "thread")


def warm():
    xformsim.warm()


def config(tier):
    if tier == "thorough":
        return {"budget_s": 700, "run_timeout": 180, "selftest": 32, "max_runs": 60000}  # in-process runs leak ~0.5 MB each (see xformsim.end_of_run)
    return {"budget_s": 45, "run_timeout": 180, "selftest": 16}


# --------------------------------------------------------------------------------------
# script generation: a light model of what the API accepts
# --------------------------------------------------------------------------------------
NAMES = ["a", "b", "c", "d", "n1", "n2", "x"]


class RefModel:
    def __init__(self, spec, unversioned):
        self.r = {"root": {"tree_kind": "dir", "tv": True, "root": True, "kind": "dir"}}
        for path, kind, _d, _x in spec:
            self.r["t:" + path] = {"tree_kind": kind, "tv": True, "kind": kind}
        for path, kind, _d, _x in unversioned:
            self.r["t:" + path] = {"tree_kind": kind, "tv": False, "kind": kind}
        self.new_ids = set()
        self.n = 0

    def labels(self):
        return sorted(self.r)

    def fresh(self):
        self.n += 1
        return f"n{self.n}"

    def versioned(self, lab):
        s = self.r[lab]
        if s.get("new_id"):
            return True
        return bool(s.get("tv")) and not s.get("removed_id")

    def ok(self, op):
        """Would the TreeTransform API accept `op` now?  (also: do the labels exist)"""
        k = op[0]
        r = self.r
        if k in ("new_file", "new_directory", "new_symlink", "create_path"):
            return op[1] not in r and op[3] in r
        lab = op[-1]
        if lab not in r:
            return False
        s = r[lab]
        if k == "delete_contents":
            return s.get("tree_kind") is not None and not s.get("removed") and not s.get("root")
        if k == "unversion_file":
            return bool(s.get("tv")) and not s.get("removed_id") and not s.get("root")
        if k == "version_file":
            return not self.versioned(lab) and not s.get("new_id") and op[1] not in self.new_ids
        if k == "adjust_path":
            return not s.get("root") and op[2] in r
        if k == "set_executability":
            return not s.get("execset") and not s.get("root")
        if k in ("create_file", "create_directory", "create_symlink"):
            return not s.get("new_contents") and not s.get("root")
        return False

    def apply(self, op):
        k = op[0]
        r = self.r
        if k in ("new_file", "new_directory", "new_symlink", "create_path"):
            s = {"tree_kind": None, "tv": False, "kind": {"new_file": "file", "new_directory": "dir", "new_symlink": "symlink", "create_path": None}[k]}
            if k != "create_path":
                s["new_contents"] = True
            r[op[1]] = s
            if k == "new_file":
                if op[5]:
                    s["new_id"] = True
                if op[6] is not None:
                    s["execset"] = True
            elif k == "new_directory":
                if op[4]:
                    s["new_id"] = True
            elif k == "new_symlink":
                if op[5]:
                    s["new_id"] = True
            return
        s = r[op[-1]]
        if k == "delete_contents":
            s["removed"] = True
            s["kind"] = None
        elif k == "unversion_file":
            s["removed_id"] = True
        elif k == "version_file":
            s["new_id"] = True
            self.new_ids.add(op[1])
        elif k == "set_executability":
            s["execset"] = True
        elif k in ("create_file", "create_directory", "create_symlink"):
            s["new_contents"] = True
            s["kind"] = {"create_file": "file", "create_directory": "dir", "create_symlink": "symlink"}[k]


WILD = os.environ.get("VERIF_C14_WILD") == "1"


def generate(rng, tier):
    """Default: scripts composed of valid edits plus deliberately injected conflicts of
    every kind the resolvers know (the way commands produce them).  VERIF_C14_WILD=1: fully
    random operation sequences (far outside what the resolvers were written for)."""
    if WILD:
        return generate_wild(rng, tier)
    return generate_core(rng, tier)


class Core:
    """Path-level bookkeeping for generate_core: label -> entry; emits operations in the
    same vocabulary as the wild generator."""

    def __init__(self, rng, fmt, spec, unversioned):
        self.rng = rng
        self.fmt = fmt
        self.ops = []
        self.n = 0
        self.e = {"root": {"name": "", "parent": None, "kind": "dir", "v": True, "tree": True, "alive": True, "fid": "root-id"}}
        for path, kind, _d, _x in list(spec) + list(unversioned):
            par = "t:" + path.rsplit("/", 1)[0] if "/" in path else "root"
            self.e["t:" + path] = {
                "name": path.rsplit("/", 1)[-1],
                "parent": par,
                "kind": kind,
                "v": [path, kind, _d, _x] in spec,
                "tree": True,
                "alive": True,
                "fid": xformsim.file_id_for(path).decode(),
            }

    # -- queries
    def alive(self, pred=lambda lab, e: True):
        return sorted(lab for lab, e in self.e.items() if e["alive"] and lab != "root" and pred(lab, e))

    def dirs(self, versioned_only=True):
        return ["root"] + self.alive(lambda lab, e: e["kind"] == "dir" and (e["v"] or not versioned_only))

    def children(self, lab):
        return sorted(c for c, e in self.e.items() if e["alive"] and e["parent"] == lab)

    def subtree(self, lab):
        out = [lab]
        for c in self.children(lab):
            out.extend(self.subtree(c))
        return out

    def inside(self, lab, anc):
        while lab is not None:
            if lab == anc:
                return True
            lab = self.e[lab]["parent"]
        return False

    def taken(self, parent):
        return {self.e[c]["name"] for c in self.children(parent)}

    def free_name(self, parent):
        names = [n for n in NAMES if n not in self.taken(parent)]
        return self.rng.choice(names) if names else None

    def fresh(self):
        self.n += 1
        return f"n{self.n}"

    # -- valid edits
    def add(self, parent=None, name=None, kind=None, versioned=True):
        rng = self.rng
        parent = parent or rng.choice(self.dirs())
        name = name or self.free_name(parent)
        if name is None:
            return None
        kind = kind or rng.choice(["file", "file", "dir", "symlink"])
        lab = self.fresh()
        if kind == "file":
            ex = rng.choice([None, None, True, False]) if versioned else None
            self.ops.append(["new_file", lab, name, parent, f"{name} new\n" * rng.randint(1, 3), versioned, ex])
        elif kind == "dir":
            self.ops.append(["new_directory", lab, name, parent, versioned])
        else:
            self.ops.append(["new_symlink", lab, name, parent, rng.choice(xformsim.SAFE_SYMLINK_TARGETS), versioned])
        self.e[lab] = {"name": name, "parent": parent, "kind": kind, "v": versioned, "tree": False, "alive": True, "execset": kind == "file"}
        return lab

    def remove(self, lab):
        for x in reversed(self.subtree(lab)):
            e = self.e[x]
            if not e["tree"] or e.get("touched"):
                return False
        for x in reversed(self.subtree(lab)):
            e = self.e[x]
            self.ops.append(["delete_contents", x])
            if e["v"]:
                self.ops.append(["unversion_file", x])
            e["alive"] = False
        return True

    def move(self, lab, parent=None, name=None):
        rng = self.rng
        cands = [d for d in self.dirs() if not self.inside(d, lab)]
        parent = parent or rng.choice(cands)
        if self.inside(parent, lab):
            return False
        name = name or self.free_name(parent)
        if name is None:
            return False
        self.ops.append(["adjust_path", name, parent, lab])
        self.e[lab].update(name=name, parent=parent, touched=True)
        return True

    def replace(self, lab):
        e = self.e[lab]
        if not e["tree"] or e.get("touched") or e["kind"] != "file":
            return False
        self.ops.append(["delete_contents", lab])
        self.ops.append(["create_file", f"replacement for {lab} with more text\n" * self.rng.randint(1, 3), lab])
        e["touched"] = True
        return True

    def kind_change(self, lab):
        e = self.e[lab]
        if not e["tree"] or e.get("touched") or self.children(lab):
            return False
        to = self.rng.choice([k for k in ("file", "dir", "symlink") if k != e["kind"]])
        self.ops.append(["delete_contents", lab])
        if to == "file":
            self.ops.append(["create_file", f"{lab} became a file\n", lab])
        elif to == "dir":
            self.ops.append(["create_directory", lab])
        else:
            self.ops.append(["create_symlink", "nowhere", lab])
        e.update(kind=to, touched=True)
        return True

    def set_exec(self, lab):
        e = self.e[lab]
        if e["kind"] != "file" or not e["v"] or e.get("execset"):
            return False
        self.ops.append(["set_executability", self.rng.random() < 0.6, lab])
        e["execset"] = True
        return True

    def edit(self):
        rng = self.rng
        k = rng.choice(["add", "add", "remove", "move", "move", "replace", "kind", "exec", "unversion", "version", "lose_contents"])
        labs = self.alive()
        if k == "add" or not labs:
            return self.add(versioned=rng.random() < 0.9) is not None
        lab = rng.choice(labs)
        if k == "remove":
            return self.remove(lab)
        if k == "move":
            return self.move(lab)
        if k == "replace":
            return self.replace(lab)
        if k == "kind":
            return self.kind_change(lab)
        if k == "exec":
            return self.set_exec(lab)
        e = self.e[lab]
        if k == "lose_contents":
            if not (e["tree"] and e["v"] and not e.get("touched") and not self.children(lab)):
                return False
            self.ops.append(["delete_contents", lab])  # stays versioned: a versioned entry without a file
            e.update(touched=True, kind=None, alive=False)
            return True
        if k == "unversion" and e["tree"] and e["v"] and not self.children(lab) and not e.get("touched"):
            self.ops.append(["unversion_file", lab])
            e["v"] = False
            return True
        if k == "version" and e["tree"] and not e["v"] and e["kind"] == "file":
            self.ops.append(["version_file", f"vf-{len(self.ops)}", lab])
            e["v"] = True
            return True
        return False

    # -- conflict injectors (what commands run into)
    def inject(self, kind):
        rng = self.rng
        labs = self.alive()
        tree_dirs = [x for x in labs if self.e[x]["kind"] == "dir" and self.e[x]["tree"] and self.e[x]["v"] and not self.e[x].get("touched")]
        if kind == "duplicate":
            parents = [d for d in self.dirs() if self.taken(d)]
            if not parents:
                return False
            d = rng.choice(parents)
            name = rng.choice(sorted(self.taken(d)))
            movable = [x for x in labs if not self.inside(d, x) and not (self.e[x]["parent"] == d and self.e[x]["name"] == name)]
            if movable and rng.random() < 0.5:
                x = rng.choice(movable)
                self.ops.append(["adjust_path", name, d, x])
                self.e[x].update(name=name, parent=d, touched=True)
                return True
            return self.add(parent=d, name=name) is not None
        if kind == "duplicate id":
            ids = [self.e[x]["fid"] for x in labs if self.e[x]["tree"] and self.e[x]["v"]]
            if self.fmt != "bzr" or not ids:
                return False
            lab = self.add(kind="file", versioned=False)
            if lab is None:
                return False
            self.ops.append(["version_file", rng.choice(ids), lab])
            self.e[lab]["v"] = True
            return True
        if kind == "parent loop":
            pairs = [(a, b) for a in tree_dirs for b in tree_dirs if a != b and self.inside(b, a)]
            if not pairs:
                return False
            a, b = rng.choice(pairs)
            self.ops.append(["adjust_path", self.e[a]["name"], b, a])
            return True
        if kind == "missing parent":
            cands = [d for d in tree_dirs if not any(self.e[c]["kind"] == "dir" for c in self.children(d))]
            if cands and rng.random() < 0.8:
                d = rng.choice(cands)
                # the directory goes, (some of) what is inside stays or arrives
                keep = rng.random() < 0.5 and self.children(d)
                if not keep:
                    for c in self.children(d):
                        if not self.remove(c):
                            return False
                    self.add(parent=d, versioned=rng.random() < 0.7)
                self.ops.append(["delete_contents", d])
                self.ops.append(["unversion_file", d])
                self.e[d]["touched"] = True
                return True
            lab = self.fresh()
            par = rng.choice(self.dirs())
            name = self.free_name(par)
            if name is None:
                return False
            self.ops.append(["create_path", lab, name, par])
            self.e[lab] = {"name": name, "parent": par, "kind": "dir", "v": False, "tree": False, "alive": True}
            return self.add(parent=lab) is not None
        if kind == "unversioned parent":
            cands = [d for d in tree_dirs if any(self.e[c]["v"] for c in self.children(d))]
            if not cands:
                return False
            d = rng.choice(cands)
            self.ops.append(["unversion_file", d])
            self.e[d]["touched"] = True
            return True
        if kind == "non-directory parent":
            files = [x for x in labs if self.e[x]["kind"] in ("file", "symlink") and self.e[x]["v"] and self.e[x]["tree"] and not self.e[x].get("touched")]
            withkids = [d for d in tree_dirs if self.children(d)]
            if withkids and rng.random() < 0.4:
                d = rng.choice(withkids)
                self.ops.append(["delete_contents", d])
                self.ops.append(["create_file", f"{d} is a file now\n", d])
                self.e[d]["touched"] = True
                return True
            if not files:
                return False
            f = rng.choice(files)
            self.e[f]["touched"] = True
            lab = self.fresh()
            name = rng.choice(NAMES)
            self.ops.append(["new_file", lab, name, f, f"{name} below a file\n", True, None])
            self.e[lab] = {"name": name, "parent": f, "kind": "file", "v": True, "tree": False, "alive": True, "execset": True}
            return True
        if kind == "duplicate content-less":
            # what a contents conflict leaves behind: the contents of a versioned entry are
            # deleted while the entry stays versioned (it still occupies its name in the
            # inventory), and another versioned entry takes the same name in that directory
            cands = [x for x in labs if self.e[x]["tree"] and self.e[x]["v"] and not self.e[x].get("touched") and not self.children(x)]
            if not cands:
                return False
            x = rng.choice(cands)
            par, name = self.e[x]["parent"], self.e[x]["name"]
            self.ops.append(["delete_contents", x])
            self.e[x].update(touched=True, kind=None, alive=False)
            movable = [y for y in labs if y != x and not self.inside(par, y) and not self.e[y].get("touched")]
            if movable and rng.random() < 0.35:
                y = rng.choice(movable)
                self.ops.append(["adjust_path", name, par, y])
                self.e[y].update(name=name, parent=par, touched=True)
                return True
            return self.add(parent=par, name=name, versioned=True) is not None
        if kind == "versioning no contents":
            lab = self.fresh()
            par = rng.choice(self.dirs())
            name = self.free_name(par)
            if name is None:
                return False
            self.ops.append(["create_path", lab, name, par])
            self.ops.append(["version_file", f"vf-{len(self.ops)}", lab])
            self.e[lab] = {"name": name, "parent": par, "kind": None, "v": True, "tree": False, "alive": False}
            return True
        return False


CONFLICT_KINDS = ["duplicate", "duplicate content-less", "duplicate id", "parent loop", "missing parent", "unversioned parent", "non-directory parent", "versioning no contents"]


def twin_spec(rng):
    """Two sibling hierarchies with a same-named sub-directory (P/x/c..., Q/x...): the shape
    in which a path string can stay the same while the directory behind it changes."""
    P, Q = rng.sample(["d", "k", "m", "A", "B"], 2)
    depth = rng.choice([1, 1, 2])
    subs = rng.sample(["x", "y", "s"], depth)
    spec = [[P, "dir", "", False], [Q, "dir", "", False]]
    pp, qq = P, Q
    for sname in subs:
        pp, qq = f"{pp}/{sname}", f"{qq}/{sname}"
        spec += [[pp, "dir", "", False], [qq, "dir", "", False]]
    files = rng.sample(xformsim.NAME_POOL, rng.randint(1, 2))
    for i, f in enumerate(files):
        spec.append([f"{pp}/{f}", "file", f"{pp}/{f} v1\n" * (i + 1), rng.random() < 0.3])
    if rng.random() < 0.5:
        spec.append([f"{qq}/zq", "file", "zq v1\n", False])
    if rng.random() < 0.5:
        spec.append(["top", "file", "top v1\n", False])
    spec.sort(key=lambda e: (e[0].count("/"), e[0]))
    return spec, {"P": P, "Q": Q, "px": pp, "qx": qq, "subs": subs, "files": [f"{pp}/{f}" for f in files]}


def twin_scenario(rng, c, info):
    """Re-parent file(s) into the twin directory under the same name while an ancestor two
    or more levels up changes identity, so that the final path string equals the old one and
    the direct new parent itself is untouched."""
    P, Q, px, qx = "t:" + info["P"], "t:" + info["Q"], "t:" + info["px"], "t:" + info["qx"]
    kind = rng.choice(["swap", "swap", "replace", "rename-over"])
    moved = [f for f in info["files"] if rng.random() < 0.8] or info["files"][:1]
    for f in moved:
        lab = "t:" + f
        c.ops.append(["adjust_path", f.rsplit("/", 1)[1], qx, lab])
        c.e[lab].update(parent=qx, touched=True)
    if kind == "swap":
        c.ops.append(["adjust_path", info["Q"], "root", P])
        c.ops.append(["adjust_path", info["P"], "root", Q])
        c.e[P].update(name=info["Q"], touched=True)
        c.e[Q].update(name=info["P"], touched=True)
    else:
        # the old hierarchy goes away (what is left in it, deepest first) ...
        if kind == "replace":
            for x in reversed(c.subtree(P)):
                e = c.e[x]
                if not e["alive"] or e["parent"] == qx:
                    continue
                c.ops.append(["delete_contents", x])
                if e["v"]:
                    c.ops.append(["unversion_file", x])
                e.update(alive=False, touched=True)
        else:
            other = c.free_name("root")
            if other is None:
                return None
            c.ops.append(["adjust_path", other, "root", P])
            c.e[P].update(name=other, touched=True)
        # ... and the twin takes over its name
        c.ops.append(["adjust_path", info["P"], "root", Q])
        c.e[Q].update(name=info["P"], touched=True)
    for x in (px, qx):
        c.e[x]["touched"] = True
    return "twin " + kind


def generate_core(rng, tier):
    fmt = rng.choice(["bzr", "bzr", "git"])
    twin = rng.random() < 0.15
    if twin:
        spec, info = twin_spec(rng)
    else:
        spec = xformsim.gen_tree_spec(rng, 3, 7, targets=xformsim.SAFE_SYMLINK_TARGETS)
    unversioned = []
    if rng.random() < 0.3 and not any(e[0] == "u1" for e in spec):
        unversioned = [["u1", "file", "unversioned\n", False]]
    c = Core(rng, fmt, spec, unversioned)
    steps = ["edit"] * rng.randint(1, 4) + [rng.choice(CONFLICT_KINDS) for _ in range(rng.choice([0, 1, 1, 1, 2, 2]))]
    rng.shuffle(steps)
    injected = []
    if twin:
        steps = ["edit"] * rng.randint(0, 2)
        done = twin_scenario(rng, c, info)
        if done:
            injected.append(done)
    for st in steps:
        for _ in range(6):
            if (c.edit() if st == "edit" else c.inject(st)):
                if st != "edit":
                    injected.append(st)
                break
    # keep only what the API accepts (a template may have been cut short)
    m = RefModel(spec, unversioned)
    ops = []
    for op in c.ops:
        if m.ok(op):
            m.apply(op)
            ops.append(op)
    return {"fmt": fmt, "style": "core", "injected": injected, "tree": spec, "unversioned": unversioned, "ops": ops}


def generate_wild(rng, tier):
    fmt = rng.choice(["bzr", "bzr", "git"])
    spec = xformsim.gen_tree_spec(rng, 3, 7, targets=xformsim.SAFE_SYMLINK_TARGETS)
    unversioned = []
    if rng.random() < 0.3 and not any(e[0] == "u1" for e in spec):
        unversioned = [["u1", "file", "unversioned\n", False]]
    m = RefModel(spec, unversioned)
    tree_ids = [xformsim.file_id_for(e[0]).decode() for e in spec]
    ops = []
    nops = rng.randint(3, 9)
    weights = {
        "new_file": 3,
        "new_directory": 3,
        "new_symlink": 1,
        "create_path": 1,
        "delete_contents": 3,
        "unversion_file": 2,
        "version_file": 2,
        "adjust_path": 5,
        "set_executability": 2,
        "create_file": 1,
        "create_directory": 1,
        "create_symlink": 1,
    }
    if rng.random() < 0.3:  # a run biased towards moves (loops, duplicates)
        weights["adjust_path"] = 12
    pool = [k for k, w in weights.items() for _ in range(w)]
    tries = 0
    while len(ops) < nops and tries < 100:
        tries += 1
        k = rng.choice(pool)
        labs = m.labels()
        lab = rng.choice(labs)
        parent = rng.choice(labs)
        name = rng.choice(NAMES)
        if k == "new_file":
            versioned = rng.random() < 0.75
            ex = rng.choice([None, None, True, False]) if versioned else rng.choice([None, None, None, True])
            op = [k, m.fresh(), name, parent, f"{name} new\n" * rng.randint(1, 3), versioned, ex]
        elif k == "new_directory":
            op = [k, m.fresh(), name, parent, rng.random() < 0.75]
        elif k == "new_symlink":
            op = [k, m.fresh(), name, parent, rng.choice(xformsim.SAFE_SYMLINK_TARGETS), rng.random() < 0.75]
        elif k == "create_path":
            op = [k, m.fresh(), name, parent]
        elif k == "delete_contents":
            op = [k, lab]
        elif k == "unversion_file":
            op = [k, lab]
        elif k == "version_file":
            fid = rng.choice(tree_ids) if rng.random() < 0.3 else f"vf-{len(ops)}"
            op = [k, fid, lab]
        elif k == "adjust_path":
            # sometimes keep the name (pure re-parenting -> loops), sometimes a sibling's name (duplicates)
            op = [k, name, parent, lab]
        elif k == "set_executability":
            op = [k, rng.random() < 0.6, lab]
        elif k == "create_file":
            op = [k, f"created on {lab}\n" * rng.randint(1, 2), lab]
        elif k == "create_directory":
            op = [k, lab]
        else:
            op = [k, "tgt", lab]
        if m.ok(op):
            m.apply(op)
            ops.append(op)
    return {"fmt": fmt, "style": "wild", "tree": spec, "unversioned": unversioned, "ops": ops}


# --------------------------------------------------------------------------------------
# execution
# --------------------------------------------------------------------------------------
def run_script(sim, tt, plan, fmt):
    """Issue the operations; returns how many took effect."""
    m = RefModel(plan["tree"], plan.get("unversioned", []))
    tids = {"root": tt.root}

    def tid(lab):
        if lab not in tids:
            tids[lab] = tt.trans_id_tree_path(lab[2:])
        return tids[lab]

    def fid(label, versioned):
        if not versioned:
            return None
        return ("c14-" + label).encode()

    done = 0
    for op in plan["ops"]:
        if not m.ok(op):
            sim.event("op", "skipped", op[0])
            continue
        k = op[0]
        if k == "new_file":
            tids[op[1]] = tt.new_file(op[2], tid(op[3]), [op[4].encode()], fid(op[1], op[5]), op[6])
        elif k == "new_directory":
            tids[op[1]] = tt.new_directory(op[2], tid(op[3]), fid(op[1], op[4]))
        elif k == "new_symlink":
            tids[op[1]] = tt.new_symlink(op[2], tid(op[3]), op[4], fid(op[1], op[5]))
        elif k == "create_path":
            tids[op[1]] = tt.create_path(op[2], tid(op[3]))
        elif k == "delete_contents":
            tt.delete_contents(tid(op[1]))
        elif k == "unversion_file":
            tt.unversion_file(tid(op[1]))
        elif k == "version_file":
            tt.version_file(tid(op[2]), file_id=op[1].encode())
        elif k == "adjust_path":
            tt.adjust_path(op[1], tid(op[2]), tid(op[3]))
        elif k == "set_executability":
            tt.set_executability(bool(op[1]), tid(op[2]))
        elif k == "create_file":
            tt.create_file([op[1].encode()], tid(op[2]))
        elif k == "create_directory":
            tt.create_directory(tid(op[1]))
        elif k == "create_symlink":
            tt.create_symlink(op[1], tid(op[2]))
        m.apply(op)
        sim.event("op", *[str(x) for x in op[:4]])
        done += 1
    return done


def _guard(fn, guarded):
    if not guarded:
        return fn()
    try:
        return fn()
    except Exception as e:  # noqa: BLE001 - an accessor of the preview tree that cannot answer
        return f"<raises {type(e).__name__}>"


def tree_view(tree, listing, with_ids, versioned_dirs=True, guarded=False):
    """{path: [kind, content, versioned, file_id, executable]} of `tree` (a preview tree or
    a working tree) for the given [(path, kind)] listing; read through the Tree API.  With
    `guarded`, an accessor that raises yields a marker instead (one broken accessor must
    not hide what the others show)."""
    out = {}
    for path, kind in listing:
        versioned = _guard(lambda: bool(tree.is_versioned(path)), guarded)
        if kind == "directory" and not versioned_dirs:
            versioned = None  # git: directories are not versioned objects
        fid = None
        if versioned is True and with_ids:
            f = _guard(lambda: tree.path2id(path), guarded)
            fid = f.decode("utf-8", "replace") if isinstance(f, bytes) else f
        content = ""
        ex = None
        if kind == "file":
            content = _guard(lambda: tree.get_file_text(path).decode("latin-1"), guarded)
        elif kind == "symlink":
            content = _guard(lambda: tree.get_symlink_target(path), guarded)
        if kind == "file" and versioned is True:
            ex = _guard(lambda: bool(tree.is_executable(path)), guarded)
        out[path] = [kind, content, versioned, fid, ex]
    return out


def moved_unchanged(tt):
    """{final path: kind} of tree entries whose path changes (also through a moved
    ancestor) while their content is kept; plus, in moved_from, final path -> tree path."""
    from breezy.transform import FinalPaths

    fp = FinalPaths(tt)
    out = {}
    moved_from = {}
    for tree_path, trans_id in sorted(tt._tree_path_ids.items()):
        if trans_id in tt._new_contents or trans_id in tt._removed_contents or tree_path == "":
            continue
        try:
            final = fp.get_path(trans_id)
        except Exception:  # noqa: BLE001
            continue
        kind = tt.tree_kind(trans_id)
        if final != tree_path and kind is not None:
            out[final] = kind
            moved_from[final] = tree_path
    return out, moved_from


def explicit_exec_paths(tt):
    from breezy.transform import FinalPaths

    fp = FinalPaths(tt)
    out = set()
    for trans_id in tt._new_executability:
        try:
            out.add(fp.get_path(trans_id))
        except Exception:  # noqa: BLE001
            pass
    return out


def stranded_children(tt):
    """Final paths of versioned trans ids without contents whose final parent is not a
    directory (deleted or turned into a file/symlink)."""
    from breezy.transform import ROOT_PARENT, FinalPaths

    fp = FinalPaths(tt)
    out = set()
    for trans_id in sorted(set(tt._tree_id_paths) | set(tt._new_name)):
        try:
            if trans_id == tt.root or tt.final_kind(trans_id) is not None or not tt.final_is_versioned(trans_id):
                continue
            parent = tt.final_parent(trans_id)
            if parent != ROOT_PARENT and tt.final_kind(parent) != "directory":
                out.add(fp.get_path(trans_id))
        except Exception:  # noqa: BLE001
            pass
    return out


def unreported_duplicates(tt):
    """[(final path, [trans ids])] of versioned trans ids that share one final (parent, name)
    in a transform whose find_raw_conflicts() reports nothing: an inventory cannot hold both."""
    from breezy.transform import FinalPaths

    if tt.find_raw_conflicts():
        return []
    fp = FinalPaths(tt)
    by = {}
    for trans_id in sorted(set(tt._tree_id_paths) | set(tt._new_name) | set(tt._new_parent)):
        if trans_id == tt.root:
            continue
        try:
            if not tt.final_is_versioned(trans_id):
                continue
            key = (tt.final_parent(trans_id), tt.final_name(trans_id))
        except Exception:  # noqa: BLE001 - no final path
            continue
        by.setdefault(key, []).append(trans_id)
    out = []
    for (_parent, _name), tids in sorted(by.items()):
        if len(tids) > 1:
            try:
                path = fp.get_path(tids[0])
            except Exception:  # noqa: BLE001
                path = _name
            out.append((path, tids))
    return out


def deleted_final_paths(tt):
    """Final paths of trans ids that end without contents (deleted, or named by
    create_path and never given contents): the names PreviewTree._path2trans_id may
    resolve to instead of the entry that really is at that path."""
    from breezy.transform import FinalPaths

    fp = FinalPaths(tt)
    out = set()
    for trans_id in sorted(set(tt._removed_contents) | set(tt._new_name)):
        if trans_id in tt._new_contents:
            continue
        try:
            if tt.final_kind(trans_id) is None:
                out.add(fp.get_path(trans_id))
        except Exception:  # noqa: BLE001
            pass
    return out


def reversioned_paths(tt):
    """Final paths of existing, unversioned tree entries the transform versions (git)."""
    from breezy.transform import FinalPaths

    fp = FinalPaths(tt)
    out = set()
    for trans_id in getattr(tt, "_versioned", ()):
        tp = tt.tree_path(trans_id)
        if tp is not None and trans_id not in tt._new_contents:
            try:
                out.add(fp.get_path(trans_id))
            except Exception:  # noqa: BLE001
                pass
    return out


def preview_listing(pt):
    """[(path, kind)] of everything the preview tree shows: versioned entries and extras
    that have a file kind (iter_entries_by_dir + extras + kind; walkdirs is not used: it
    raises NoSuchFile for any deleted entry whose path changed or that was unversioned)."""
    paths = {p for p, _ie in pt.iter_entries_by_dir() if p != ""}
    paths.update(pt.extras())
    out = []
    for p in sorted(paths):
        try:
            k = pt.kind(p)
        except NoSuchFile:
            continue  # an entry without contents
        if k is not None:
            out.append((p, k))
    return out


def disk_listing(root):
    out = []
    for path, (kind, _c, _m) in sorted(xformsim.disk_snapshot(root).items()):
        out.append((path, kind))
    return out


def versioned_set(tree, with_ids, versioned_dirs=True):
    out = []
    if hasattr(tree, "index"):
        # git working tree: the index itself (iter_entries_by_dir reads link targets from
        # the disk and fails on stale entries)
        return sorted([bp.decode("utf-8", "replace"), ""] for bp in tree.index)
    for path, ie in tree.iter_entries_by_dir():
        if ie.kind == "directory" and not versioned_dirs:
            continue  # git: a directory is listed only while it holds versioned files
        f = ie.file_id
        out.append([path, (f.decode("utf-8", "replace") if isinstance(f, bytes) else str(f)) if with_ids else ""])
    return sorted(out)


def resolver_in(tb):
    name = "resolve_conflicts"
    while tb is not None:
        n = tb.tb_frame.f_code.co_name
        if n.startswith("resolve_") and n != "resolve_conflicts":
            name = n
        tb = tb.tb_next
    return name


class Hang(Exception):
    pass


class Watchdog:
    """Raises Hang asynchronously in the thread that armed it (works off the main thread,
    where SIGALRM is not available)."""

    def __init__(self, seconds):
        self.seconds = seconds
        self.timer = None

    def arm(self):
        import ctypes
        import threading

        tid = threading.get_ident()

        def fire():
            ctypes.pythonapi.PyThreadState_SetAsyncExc(ctypes.c_ulong(tid), ctypes.py_object(Hang))

        self.timer = threading.Timer(self.seconds, fire)
        self.timer.daemon = True
        self.timer.start()

    def disarm(self):
        if self.timer is not None:
            self.timer.cancel()
            self.timer = None


def execute(sim, plan):
    try:
        _execute(sim, plan)
    finally:
        xformsim.end_of_run()


def _execute(sim, plan):
    from breezy import transform as _t

    warm()
    base = os.environ["VERIF_SCRATCH"]
    root = os.path.join(base, "t")
    fmt = plan["fmt"]
    with_ids = fmt == "bzr"
    xformsim.build_tree(root, fmt, plan["tree"], plan.get("unversioned", []))
    s0 = xformsim.tree_state(root)
    osseam.activate(sim, {"": root})
    tree = xformsim.open_tree(root)
    vdirs = tree.has_versioned_directories()
    seen = []

    def pass_func(tt, conflicts):
        for c in sorted(conflicts, key=lambda c: (c[0], [str(x) for x in c[1:]])):
            seen.append(c[0])
            sim.probe("conflict_" + c[0].replace(" ", "_"))
            sim.event("conflict", c[0])
        return _t.conflict_pass(tt, conflicts)

    stage = "script"
    dog = Watchdog(HANG_S)
    tt = tree.transform()
    malformed = None
    crashed = None
    preview_error = None
    apply_error = None
    finalize_error = None
    dup_unreported = []
    moved = {}
    moved_from = {}
    reversioned = set()
    explicit_exec = set()
    deleted_names = set()
    stranded = set()
    try:
        done = run_script(sim, tt, plan, fmt)
        dog.arm()
        stage = "resolve_conflicts"
        try:
            _t.resolve_conflicts(tt, pass_func=pass_func)
        except _t.MalformedTransform as e:
            malformed = e
        except Hang:
            raise
        except Exception as e:  # noqa: BLE001 - neither resolved nor reported as malformed
            crashed = (e, resolver_in(e.__traceback__))
        if malformed is None and crashed is None:
            dup_unreported = unreported_duplicates(tt)
        if malformed is None and crashed is None:
            stage = "preview"
            try:
                pt = tt.get_preview_tree()
                pre_list = preview_listing(pt)
                pre = tree_view(pt, pre_list, with_ids, vdirs, guarded=True)
                pre_versioned = versioned_set(pt, with_ids, vdirs)
                moved, moved_from = moved_unchanged(tt)
                reversioned = reversioned_paths(tt)
                explicit_exec = explicit_exec_paths(tt)
                deleted_names = deleted_final_paths(tt)
                stranded = stranded_children(tt)
            except Hang:
                raise
            except Exception as e:  # noqa: BLE001 - the preview tree cannot even be listed
                import traceback

                fn = traceback.extract_tb(e.__traceback__)[-1].name
                for fr in traceback.extract_tb(e.__traceback__):
                    if fr.filename.endswith("transform.py"):
                        fn = fr.name
                preview_error = (fn, e)
        if malformed is None and crashed is None and preview_error is None:
            stage = "apply"
            try:
                tt.apply()
            except Hang:
                raise
            except Exception as e:  # noqa: BLE001 - "a conflict-free transform that applies cleanly"
                apply_error = e
        dog.disarm()
    except Hang:
        sim.fail("liveness", ["liveness", "none", stage], f"{stage} did not finish within {HANG_S} s")
    finally:
        dog.disarm()
        try:
            tt.finalize()
        except Exception as e:  # noqa: BLE001 - e.g. ImmortalPendingDeletion after a failed apply()
            finalize_error = e
        finally:
            osseam.deactivate(sim)
    if finalize_error is not None and apply_error is None and sim.violation is None:
        apply_error = finalize_error  # clean-up of a conflict-free transform failed: same class
    sim.nontrivial = done >= 3 and len(seen) >= 1
    sim.state_seen((tuple(sorted(set(seen))), malformed is not None))
    if dup_unreported:
        # its own oracle: never attributed to a preview-mismatch family
        sim.probe("duplicate_unreported")
        sim.event("outcome", "duplicate-unreported", len(dup_unreported))
        after = ""
        if apply_error is not None:
            st = xformsim.tree_state(root)
            after = f"; apply() then raised {type(apply_error).__name__}" + ("" if st == s0 else " and left the tree partially applied")
        sim.fail(
            "duplicates_reported",
            ["duplicates_reported", "none", f"{fmt}:two-versioned-entries-one-name"],
            f"the transform is reported conflict-free, yet versioned trans ids share one final (parent, name): {dup_unreported[:4]}{after} [conflicts resolved: {sorted(set(seen))}]",
        )
    if apply_error is not None:
        e = apply_error
        sim.probe("apply_failed")
        sim.event("outcome", "apply-failed", type(e).__name__)
        st = xformsim.tree_state(root)
        partial = "" if st == s0 else ":tree-changed"
        sim.fail(
            "resolved_applies",
            ["resolved_applies", "none", f"apply:{type(e).__name__}{partial}"],
            f"resolve_conflicts returned a conflict-free transform but apply() raised {type(e).__name__}: {str(e).replace(base, '<scratch>')[:300]}"
            + (" and left the tree partially applied: " + xformsim.diff_maps(st["disk"], s0["disk"]) + " | " + xformsim.diff_maps(st["meta"], s0["meta"]) if partial else " (tree untouched)")
            + f" [conflicts resolved: {sorted(set(seen))}]",
        )
    if preview_error is not None:
        fn, e = preview_error
        sim.probe("preview_crash")
        sim.event("outcome", "preview-crash", fn, type(e).__name__)
        sim.fail("preview_equals_applied", ["preview_equals_applied", "none", f"{fmt}:preview-crash:{fn}:{type(e).__name__}"], f"the preview tree of a conflict-free transform cannot be read: {fn} raised {type(e).__name__}: {str(e).replace(base, '<scratch>')} [conflicts resolved: {sorted(set(seen))}]")
    if crashed is not None:
        e, where = crashed
        sim.probe("resolver_crash")
        sim.probe(f"resolver_crash_{where}_{type(e).__name__}")
        sim.event("outcome", "crashed", where, type(e).__name__)
        s = xformsim.tree_state(root)
        touched = "" if s == s0 else " AND the tree changed"
        sim.fail(
            "resolve_outcome",
            ["resolve_outcome", "none", "resolver-internal-error" + (":tree-changed" if touched else "")],
            f"resolve_conflicts neither produced a conflict-free transform nor reported MalformedTransform: {where} raised {type(e).__name__}: {e}{touched} [conflicts met: {sorted(set(seen))}]",
        )
    if malformed is not None:
        sim.probe("malformed")
        sim.event("outcome", "malformed", sorted({c[0] for c in malformed.conflicts}))
        for c in malformed.conflicts:
            sim.probe("malformed_" + c[0].replace(" ", "_"))
        s = xformsim.tree_state(root)
        if s != s0:
            d = xformsim.diff_maps(s["disk"], s0["disk"]) + " | " + xformsim.diff_maps(s["meta"], s0["meta"])
            sim.fail("malformed_untouched", ["malformed_untouched", "none", "tree-changed"], f"MalformedTransform was reported but the tree changed: {d}")
        return
    sim.probe("applied")
    sim.event("outcome", "applied")
    wt = xformsim.open_tree(root)
    with wt.lock_read():
        post_list = disk_listing(root)
        post = tree_view(wt, post_list, with_ids, vdirs)
        post_versioned = versioned_set(wt, with_ids, vdirs)
    fields = ["kind", "contents", "versioned", "file id", "executable"]
    fam = {}  # family -> [descriptions]

    def add(family, text):
        fam.setdefault(family, []).append(text)

    for p in sorted(set(pre) | set(post)):
        a, b = pre.get(p), post.get(p)
        if a == b:
            continue
        if not vdirs and (a is None or a[0] == "directory") and (b is None or b[0] == "directory"):
            continue  # git: a directory exists only through the files in it (an empty one is invisible)
        if a is None or b is None:
            text = f"{p!r}: preview {'has no such path' if a is None else a[:1]} / applied {'has no such path' if b is None else b[:1]}"
            if fmt == "git" and p in reversioned:
                add("git:version-existing-file-ignored", text)
            elif a is None and any(p == d or p.startswith(d + "/") for d in deleted_names):
                # PreviewTree._path2trans_id stops at the first child with that final name,
                # which may be the deleted entry whose name another entry takes over
                add(f"{fmt}:path-lookup:name-reused-after-delete", text)
            else:
                add("paths", text)
            continue
        for i, f in enumerate(fields):
            if a[i] == b[i]:
                continue
            text = f"{p!r} {f}: preview {a[i]!r} / applied {b[i]!r}"
            under_moved_dir = any(p.startswith(d + "/") for d, k in moved.items() if k == "directory")
            raises = str(a[i]).startswith("<raises")
            if f == "executable" and a[2] != b[2]:
                continue  # consequence of the versioning mismatch reported for the same path
            if f == "contents" and a[2] is not True and b[2] is not True and fmt == "bzr":
                # the inventory preview finds contents by file id: entries without one (files the
                # transform creates or rewrites without versioning them) are read from the old tree
                add("bzr:preview-read:unversioned-entry", text)
            elif f == "contents" and p in moved:
                # the preview looks a moved-but-unchanged entry up at its NEW path in the old tree
                add(f"{fmt}:preview-read:moved-unchanged", text)
            elif f == "executable" and p not in explicit_exec:
                # is_executable without an explicit new value asks the old tree about the NEW path
                add(f"{fmt}:is_executable:new-path-in-old-tree", text)
            elif f == "versioned" and raises and fmt == "git":
                add("git:is_versioned:unversioned-new-entry", text)
            elif fmt == "git" and f in ("versioned", "executable") and p in reversioned and b[2] is False:
                add("git:version-existing-file-ignored", text)
            elif fmt == "git" and f in ("versioned", "executable") and under_moved_dir and a[2] is True and b[2] is False:
                add("git:child-of-moved-directory", text)
            else:
                add(f, text)
    pv, qv = {e[0]: e[1] for e in pre_versioned}, {e[0]: e[1] for e in post_versioned}
    for p in sorted(set(pv) | set(qv)):
        if pv.get(p) == qv.get(p):
            continue
        text = f"versioned entry {p!r}: preview {pv.get(p)!r} / applied {qv.get(p)!r}"
        in_moved_dir = any((p.startswith(d + "/") or tp.startswith(td + "/")) for d, k in moved.items() if k == "directory" for tp in [moved_from.get(p, p)] for td in [moved_from.get(d, d)])
        if p in stranded:
            # find_raw_conflicts() looks only at children that have contents: a versioned entry
            # whose contents are deleted stays in the inventory below a parent that stops being
            # a directory; the preview lists it, the applied inventory silently drops it
            add(f"{fmt}:content-less-versioned-child-of-non-directory", text)
        elif fmt == "git" and p in reversioned:
            # one family, two sites: _generate_index_changes ignores _versioned (apply adds the
            # file only if it is also renamed/rewritten) and final_entry returns None for a file
            # the old index does not know (the preview's entry listing omits it either way)
            add("git:version-existing-file-ignored", text)
        elif fmt == "git" and (in_moved_dir or any(p.startswith(td + "/") for td in moved_from.values())):
            add("git:child-of-moved-directory", text)
        else:
            add("versioned-entries", text)
    if "git:child-of-moved-directory" in fam and "versioned" in fam:
        # stale index entries below the old directory name make that name look versioned
        fam["git:child-of-moved-directory"].extend(fam.pop("versioned"))
    if not fam:
        return
    known = findings.load(PROPERTY)
    unknown = []
    for family in sorted(fam):
        sig = ["preview_equals_applied", "none", family]
        sim.probe("mismatch_" + family)
        if findings.match(known, sig) is not None:
            sim.notes.setdefault("known", []).append(sig)
        else:
            unknown.append(family)
    if unknown:
        # families that are not separately recognised causes come first: they must stay visible
        unknown.sort(key=lambda f: (":" in f, f))
        family = unknown[0]
        sim.fail("preview_equals_applied", ["preview_equals_applied", "none", family], "; ".join(fam[family][:6]) + f" [conflicts resolved: {sorted(set(seen))}; other mismatch families in this run: {[f for f in fam if f != family]}]")


def shrink_candidates(plan):
    """Generic candidates (drop operations) + drop entries of the base tree (children with
    their parent; operations that lose their subject are skipped by their preconditions)."""
    import copy

    from simkit.shrink import generic_candidates

    yield from generic_candidates(plan)
    for key in ("this_ops",):
        ops = plan.get(key)
        if isinstance(ops, list):
            for i in range(len(ops)):
                p2 = copy.deepcopy(plan)
                p2[key] = ops[:i] + ops[i + 1 :]
                yield p2
    tree = plan.get("tree", [])
    for i in range(len(tree) - 1, -1, -1):
        path = tree[i][0]
        rest = [e for e in tree if e[0] != path and not e[0].startswith(path + "/")]
        if len(rest) >= 1:
            p2 = copy.deepcopy(plan)
            p2["tree"] = rest
            yield p2
    if plan.get("unversioned"):
        p2 = copy.deepcopy(plan)
        p2["unversioned"] = []
        yield p2
