"""C40 — bundles and merge directives reproduce the revisions they carry.

One run = one generated history (renames, swaps, exec changes, symlinks, binary files with
NULs and CRs, kind changes, merges) committed through a real working tree, then

* a (base, target) pair: `write_bundle(repo, target, base, out, format)` for format 4 /
  0.9 / 0.8 -> bytes -> `read_bundle` -> `install_revisions` into a repository on a
  simulated store that holds exactly the ancestry of the base (2a / pack-0.92 / rich-root
  variants, also across formats);
* `corrupt` faults: one byte of the bundle flipped / deleted / inserted "in transit" at a
  seeded position (biased to header lines, sha lines, base64 bodies, patch text, the bz2
  body of v4), each installed into a fresh copy of the target;
* a merge directive: `MergeDirective2.from_objects` against a submit branch ->
  `to_lines` -> `MergeDirective.from_lines` -> fields, `install_revisions`, and the merge
  driven by the directive compared with the merge from the source branch in two working
  trees on disk; corruption of the patch / bundle part of the directive."""

import io
import logging
import os
import re

from simkit import forkenum, world
from simkit.sim import SimCrash, Violation

from . import histsim, storesim

PROPERTY = "C40"
LEVEL = "exploration"
ISOLATION = "fork"
STEP_CAP = 400000
RULE = (
    "one case = one seeded (history, source/target repository formats, bundle format 4|0.9|0.8, base/target pair, "
    "directive options, list of single-byte corruptions) scenario; every corruption trial counts as one evaluation; "
    "non-trivial = the bundle carries >= 2 revisions or a merge/rename/kind change/exec change/symlink/binary file, and at "
    "least one corruption was applied; distinct = distinct event-log digests"
)
COMPONENTS = {
    "real": [
        "breezy.bzr.bundle.serializer (v4 BundleWriter/BundleReader/RevisionInstaller, v08/v09 writer + BundleReader)",
        "breezy.bzr.bundle.bundle_data (BundleInfo, BundleTree, testament validation), apply_bundle.install_bundle",
        "breezy.merge_directive (MergeDirective2.from_objects/to_lines/from_lines/install_revisions/get_merge_request)",
        "breezy.merge.Merger.from_mergeable / from_revision_ids + Merge3Merger in working trees on disk",
        "breezy.bzr.testament (Testament, StrictTestament3), commit through WorkingTree, fetch",
    ],
    "simulated": ["disk of the receiving repository (SimTransport over the memory transport)", "transit corruption of the serialised bundle / directive (one byte, seeded)"],
    "stub": ["UI (silent)", "no GPG signing of directives", "mail clients"],
}
ASSUMPTIONS = [
    "a corruption counts as detected when reading or installing raises any exception, or when get_merge_request reports the preview patch as 'failed'",
    "an undetected corruption is acceptable only if every revision present afterwards equals the original (testament and tree); a revision that was silently left out is recorded (probe) but not counted as a violation of the property text",
    "corruption of a directive is applied to its patch and bundle sections only (the unsigned header fields - message, branch locations - are not protected by anything and are not claimed by the property)",
    "testaments are compared with the same class on both sides: Testament always, StrictTestament3 additionally when source and receiving repository agree on rich roots",
    "the warning 'Inventory sha hash mismatch' (0.8/0.9 bundles written from a 2a repository record the CHK inventory sha, the reader recomputes an XML sha) is a log message; it is counted by a probe, not a violation",
    "merge comparison: same merge type (Merge3), both trees start from the same submit revision; equality of working tree content, conflicts and pending parents",
]

FORMAT_PAIRS = [
    ("2a", "2a"),
    ("2a", "2a"),
    ("pack-0.92", "pack-0.92"),
    ("rich-root-pack", "rich-root-pack"),
    ("2a", "rich-root-pack"),
    ("rich-root-pack", "2a"),
    ("pack-0.92", "2a"),
    ("1.14-rich-root", "2a"),
]
RICH = {"2a": True, "pack-0.92": False, "rich-root-pack": True, "1.14-rich-root": True}


def warm():
    storesim.warm()
    import breezy.bzr.bundle.apply_bundle  # noqa: F401
    import breezy.bzr.bundle.bundle_data  # noqa: F401
    import breezy.bzr.bundle.serializer.v4  # noqa: F401
    import breezy.bzr.bundle.serializer.v08  # noqa: F401
    import breezy.bzr.bundle.serializer.v09  # noqa: F401
    import breezy.merge  # noqa: F401
    import breezy.merge_directive  # noqa: F401
    import breezy.bzr.testament  # noqa: F401
    from simkit.sim import Sim

    def dry(i, bfmt, pair):
        import random

        rng = random.Random(11 + i)
        plan = generate(rng, "quick")
        plan["bundle_format"] = bfmt
        plan["fmts"] = list(pair)
        if plan.get("md"):
            plan["md"]["merge"] = True
            plan["md"]["tgt_fmt"] = pair[1]
        sim = Sim(0, plan, step_cap=STEP_CAP)
        try:
            execute(sim, plan)
        except Violation:
            pass
        except Exception as e:  # noqa: BLE001 - a warm-up plan patched by hand may be inconsistent
            import sys

            print(f"C40 warm-up run {i} skipped: {type(e).__name__}: {e}", file=sys.stderr)

    for i, (bfmt, pair) in enumerate([("4", ("2a", "2a")), ("0.9", ("2a", "2a")), ("0.8", ("pack-0.92", "pack-0.92")), ("4", ("pack-0.92", "2a"))]):
        histsim.warm_scratch(lambda i=i, bfmt=bfmt, pair=pair: dry(i, bfmt, pair))
    world.reset_stores()


def config(tier):
    if tier == "thorough":
        return {"budget_s": 700, "run_timeout": 180, "selftest": 12}
    return {"budget_s": 50, "run_timeout": 180, "selftest": 6}


HANG_TIMEOUT = 25.0
REGIONS = ["header", "sha", "action", "meta", "base64", "patch", "any", "any"]


GUARDED = {
    # 0.8/0.9 writer: write_bundle with the null revision as base turns it into None and then
    # asks the graph for [None] -> ValueError("get_parent_map(None) is not valid")
    "old_null_base": "bundle formats 0.8/0.9",
    # 0.8/0.9 writer: _write_delta ignores delta.kind_changed, so a revision that changes the
    # kind of a path is written without that change; installing the untouched bundle raises
    # TestamentMismatch
    "old_kind_change": "bundle formats 0.8/0.9",
    # osutils.format_highres_date (Rust) writes a timezone of -09:30 as "-09-30", which
    # unpack_highres_date rejects: 0.8/0.9 bundles with such revisions cannot be read
    "neg_half_tz": "bundle formats 0.8/0.9",
    # 0.8/0.9 text format: a revision property whose value has several lines (e.g. the
    # "authors" property of a commit with two authors) is written as continuation lines that
    # the reader does not reassemble: MalformedHeader "Unknown Key" or TestamentMismatch
    "old_multiline_property": "bundle formats 0.8/0.9",
    # 0.8/0.9 writer on a 2a source: changes_from(want_unchanged=True) reports an unchanged
    # entry below a renamed directory with its NEW path as old path (the C10 finding
    # chk_unchanged_old_path); _write_delta then looks that path up in the old tree -> NoSuchFile
    "old_dir_rename": "bundle formats 0.8/0.9",
    # v4 installer: for a bundle written from an XML-inventory repository and installed into a
    # CHK (2a) repository, parent inventories read from the target are CHKInventory objects
    # that the XML serializer refuses (TypeError)
    "v4_xml_into_chk": "bundle format 4, pre-2a source into 2a",
}


def generate(rng, tier):
    lifted = sorted(g for g in GUARDED if rng.random() < 0.06)
    if os.environ.get("C40_FORCE_LIFTED"):  # triage aid; unset in normal runs
        lifted = sorted(os.environ["C40_FORCE_LIFTED"].split(","))
    src_fmt, tgt_fmt = rng.choice(FORMAT_PAIRS)
    bfmts = ["4", "4", "0.9", "0.9"] + ([] if RICH[src_fmt] else ["0.8"])
    bfmt = rng.choice(bfmts)
    if src_fmt != "2a" and tgt_fmt == "2a" and "v4_xml_into_chk" not in lifted:
        bfmt = rng.choice([f for f in bfmts if f != "4"])
    old = bfmt != "4"
    opts = {"odd_names": rng.random() < 0.25, "props": rng.random() < 0.3, "authors": rng.random() < 0.2, "big": rng.random() < 0.5}
    if old:
        opts["retype"] = "old_kind_change" in lifted
        opts["neg_half_tz"] = "neg_half_tz" in lifted
        if "old_multiline_property" not in lifted:
            opts["props"] = opts["authors"] = False
        if "old_dir_rename" not in lifted:
            opts["rename_full_dirs"] = False
            opts["swap"] = False
    # a share of the runs: a long side line (>= 9 revisions) merged back, all in one v4 bundle
    # (the installer keeps only the last 10 inventories in memory)
    long_side = rng.random() < (0.2 if tier != "thorough" else 0.4)
    if long_side:
        src_fmt, tgt_fmt = rng.choice([("2a", "2a"), ("2a", "2a"), ("2a", "rich-root-pack")])
        bfmt, old = "4", False
        opts.update(big=False, odd_names=False)
        n = rng.choice([3, 4, 5])
        at = rng.randint(2, n)
        mh, specs = histsim.gen_history(rng, n, opts, force_side={"at": at, "len": rng.choice([9, 10, 11, 13])})
        target = rng.choice([f"m-{k}" for k in range(at, n + 1)])
        anc = sorted(mh.ancestry("m-1"))
        base = rng.choice(anc + [None])
    else:
        n = rng.choice([2, 3, 4, 5, 6, 8]) if tier != "thorough" else rng.choice([3, 5, 8, 12])
        mh, specs = histsim.gen_history(rng, n, opts)
        target = rng.choice(mh.order[1:] if len(mh.order) > 1 else mh.order)
        anc = sorted(mh.ancestry(target) - {target})
        base = rng.choice(anc + [None]) if rng.random() < 0.85 else None
    if base is None and old and "old_null_base" not in lifted and anc:
        base = rng.choice(anc)
    ncorrupt = rng.choice([3, 6, 6, 10]) if tier != "thorough" else rng.choice([6, 12, 20])
    if long_side:
        ncorrupt = 3
    plan = {
        "specs": specs,
        "fmts": [src_fmt, tgt_fmt],
        "bundle_format": bfmt,
        "lifted": lifted,
        "long_side": long_side,
        "target": target,
        "base": base,
        "corrupt": [{"region": rng.choice(REGIONS), "op": rng.choice(["flip", "flip", "flip", "delete", "insert"]), "seed": rng.randrange(1 << 30)} for _ in range(ncorrupt)],
        "md": None,
    }
    if rng.random() < 0.6 and not long_side:
        # submit branch tip: any revision that does not already contain the revision to merge
        revs = [r for r in mh.order]
        pairs = [(s, t) for s in revs for t in revs if t not in mh.ancestry(s)]
        if pairs:
            submit, mtarget = rng.choice(pairs)
            inc_patch = rng.random() < 0.7
            inc_bundle = rng.random() < 0.8
            md_tgt = tgt_fmt
            if src_fmt != "2a" and tgt_fmt == "2a" and "v4_xml_into_chk" not in lifted:
                md_tgt = src_fmt  # directives carry v4 bundles
            plan["md"] = {
                "tgt_fmt": md_tgt,
                "submit": submit,
                "target": mtarget,
                "patch": inc_patch,
                "bundle": inc_bundle,
                "public": (not inc_bundle) or rng.random() < 0.3,
                "message": rng.choice([None, "merge me", "ünïcode message\nsecond line", "# Begin patch\n"]),
                "time": 1_500_100_000 + rng.randrange(100000),
                "timezone": rng.choice([0, 3600, -18000, 19800]),
                "merge": rng.random() < 0.7,
                "corrupt": [{"region": rng.choice(["patch", "bundle", "bundle"]), "op": rng.choice(["flip", "flip", "delete", "insert"]), "seed": rng.randrange(1 << 30)} for _ in range(rng.choice([2, 4, 6]))],
            }
    return plan


# ------------------------------------------------------------------------------------
# corruption


def classify_lines(data):
    """[(start, end, category)] for every line of a serialised bundle / directive."""
    out = []
    pos = 0
    lines = data.split(b"\n")
    for i, ln in enumerate(lines):
        end = pos + len(ln) + (1 if i < len(lines) - 1 else 0)
        if i < 2 and ln.startswith(b"#"):
            cat = "header"
        elif ln.startswith((b"# sha1:", b"# inventory sha1:", b"# testament_sha1:")):
            cat = "sha"
        elif ln.startswith(b"=== "):
            cat = "action"
        elif ln.startswith(b"#"):
            cat = "meta"
        elif len(ln) >= 16 and re.match(rb"^[A-Za-z0-9+/=]+$", ln):
            cat = "base64"
        elif ln[:1] in (b"+", b"-", b"@", b" ", b"\\"):
            cat = "patch"
        else:
            cat = "other"
        if end > pos:
            out.append((pos, end, cat))
        pos = end
    return out


def corrupt(data, spec, rng, lo=0, hi=None):
    """One-byte corruption of data[lo:hi] -> (new bytes, description)."""
    hi = len(data) if hi is None else hi
    region = spec["region"]
    spans = [(s, e, c) for s, e, c in classify_lines(data) if s >= lo and e <= hi]
    cand = [(s, e) for s, e, c in spans if c == region]
    if not cand:
        cand = [(lo, hi)]
        region = "any"
    s, e = cand[rng.randrange(len(cand))]
    pos = rng.randrange(s, max(s + 1, e))
    op = spec["op"]
    if op == "flip":
        old = data[pos]
        new = old ^ (1 << rng.randrange(8))
        if rng.random() < 0.3:
            # stay inside printable characters of the same class where possible
            alt = rng.choice(b"0123456789abcdefABCXYZ+/= ")
            new = alt if alt != old else new
        out = data[:pos] + bytes([new]) + data[pos + 1 :]
    elif op == "delete":
        out = data[:pos] + data[pos + 1 :]
    else:
        out = data[:pos] + bytes([rng.choice(b"0aZ+/ \n#=")]) + data[pos:]
    return out, f"{region}:{op}"


# ------------------------------------------------------------------------------------
# oracle helpers


class WarnCounter(logging.Handler):
    def __init__(self):
        logging.Handler.__init__(self, logging.WARNING)
        self.inv_sha = 0
        self.other = []

    def emit(self, record):
        try:
            msg = record.getMessage()
        except Exception:  # noqa: BLE001
            msg = str(record.msg)
        if "Inventory sha hash mismatch" in msg:
            self.inv_sha += 1
        else:
            self.other.append(msg[:80])


def testaments(repo, rid, strict):
    from breezy.bzr.testament import StrictTestament3, Testament

    out = [Testament.from_revision(repo, rid).as_short_text()]
    if strict:
        out.append(StrictTestament3.from_revision(repo, rid).as_text())
    return out


def compare_revisions(sim, src_repo, tgt_repo, revids, strict, sig, what):
    """Every revision of `revids` present in tgt_repo equals the source.  Returns the list
    of revisions that are absent."""
    absent = []
    with src_repo.lock_read(), tgt_repo.lock_read():
        for rid in revids:
            rb = rid.encode()
            if not tgt_repo.has_revision(rb):
                absent.append(rid)
                continue
            try:
                t_t = testaments(tgt_repo, rb, strict)
                tree_t = histsim.tree_state(tgt_repo.revision_tree(rb))
            except Exception as e:  # noqa: BLE001
                sim.fail("unreadable", sig + ["unreadable"], f"{what}: revision {rid} is listed but cannot be read back: {type(e).__name__}: {e}")
            t_s = testaments(src_repo, rb, strict)
            if t_s != t_t:
                which = "testament" if t_s[0] != t_t[0] else "strict-testament"
                sim.fail("testament", sig + [which], f"{what}: {which} of {rid} differs from the original:\n--- original\n{t_s[-1 if which != 'testament' else 0][:1500]}\n--- installed\n{t_t[-1 if which != 'testament' else 0][:1500]}")
            tree_s = histsim.tree_state(src_repo.revision_tree(rb))
            if tree_s != tree_t:
                sim.fail("tree", sig + ["tree"], f"{what}: tree of {rid} differs from the original: {histsim.diff_trees(tree_t, tree_s)}")
    return absent


def cause(e, mh, carried):
    """Stable label for a failed write / clean install: the reported defect class it falls
    into, else the risky feature classes the carried revisions contain."""
    msg = str(e)
    if "Failed to parse offset" in msg:
        return "negative-half-hour-timezone"
    if "get_parent_map(None)" in msg:
        return "null-base"
    if "is not an instance of 'Inventory'" in msg:
        return "xml-source-into-chk-target"
    labels = set()
    kinds = {}
    for r in carried:
        spec = mh.revs[r]
        tree = mh.tree(spec["parents"][0]) if spec["parents"] else {}
        for a in spec["actions"]:
            if a[0] == "retype":
                labels.add("kind-change")
            elif a[0] in ("rename", "swap"):
                for q in [a[1]] + ([a[2]] if a[0] == "swap" else []):
                    if any(x != q and histsim.inside(q, x) for x in tree):
                        labels.add("dir-rename")
            tree = histsim.apply_actions(tree, [a])
        # a kind change can also sit in the delta against a bundle base / merge parent
        for q in [r] + [x for x in spec["parents"] if x in mh.revs]:
            for v_ in mh.tree(q).values():
                if kinds.setdefault(v_[0], v_[1]) != v_[1]:
                    labels.add("kind-change")
        vals = list((spec.get("props") or {}).values()) + (["\n".join(spec["authors"])] if spec.get("authors") else [])
        if any("\n" in v for v in vals):
            labels.add("multiline-property")
    return "+".join(sorted(labels)) or "-"


_LIFTED = []
_GUARD_CLASS = {"old_kind_change": "kind-change", "old_multiline_property": "multiline-property", "old_dir_rename": "dir-rename"}
CLASS_CAUSES = ("negative-half-hour-timezone", "null-base", "xml-source-into-chk-target", "kind-change", "multiline-property", "dir-rename")


def class_sig(oracle, family, e, mh, carried):
    """Signature of a failed write / clean install.  For the reported defect classes a closed
    one: [oracle, bundle-old|bundle-4|directive, class]; label classes (kind-change,
    multiline-property, dir-rename: first one present) only count for the 0.8/0.9 formats,
    where they are guarded.  Anything else: + exception type."""
    c = cause(e, mh, carried)
    if c in CLASS_CAUSES[:3]:
        return [oracle, family, c]
    if family == "bundle-old":
        for k in CLASS_CAUSES[3:]:
            if k in c.split("+"):
                return [oracle, family, k]
        # the feature may sit in a revision that is only the basis of a delta (bundle base, merge
        # parent on another line): fall back on the one old-format guard this run lifted
        lifted_old = [g for g in _LIFTED if g in _GUARD_CLASS]
        if len(lifted_old) == 1:
            return [oracle, family, _GUARD_CLASS[lifted_old[0]]]
    return [oracle, family, "-", type(e).__name__]


def fresh_target(name, fmt, src_repo, base):
    """A repository on a new simulated store holding exactly the ancestry of `base`."""
    url = world.new_store(name)
    repo = storesim.make_branch(url + "r", fmt).repository
    if base:
        repo.fetch(src_repo, revision_id=base.encode())
    return storesim.open_repo(url + "r")


def features(mh, revids):
    f = set()
    for r in revids:
        for a in mh.revs[r]["actions"]:
            if a[0] == "add":
                f.add("add-" + a[3])
                if a[3] == "file" and ("\x00" in a[4] or "\r" in a[4]):
                    f.add("binary")
                if a[5]:
                    f.add("exec")
            elif a[0] == "retype":
                f.add("retype")
            else:
                f.add(a[0])
        if len(mh.revs[r]["parents"]) > 1:
            f.add("merge")
    return f


def wt_summary(tree):
    """Content of a working tree after a merge: versioned state + conflicts + parents."""
    st = histsim.tree_state(tree)
    with tree.lock_read():
        conflicts = sorted(str(c) for c in tree.conflicts())
        parents = [p.decode() for p in tree.get_parent_ids()]
    extra = {}
    root = tree.basedir
    for dirpath, dirnames, filenames in os.walk(root):
        if ".bzr" in dirnames:
            dirnames.remove(".bzr")
        for fn in filenames:
            p = os.path.relpath(os.path.join(dirpath, fn), root)
            if p not in st:
                full = os.path.join(dirpath, fn)
                extra[p] = os.readlink(full) if os.path.islink(full) else open(full, "rb").read().decode("latin-1")
    return {"tree": st, "conflicts": conflicts, "parents": parents, "unversioned": extra}


# ------------------------------------------------------------------------------------


def execute(sim, plan):
    from breezy import revision as _mod_revision
    from breezy.branch import Branch
    from breezy.bzr.bundle.serializer import read_bundle, write_bundle

    sim.disarm()
    world.setup_sim(sim)
    histsim.relativise_log(sim)
    os.chdir(os.environ["VERIF_SCRATCH"])  # bundle_data drops ",,bogus-inv" into the cwd
    specs = plan["specs"]
    mh = histsim.replay(specs)
    _LIFTED[:] = plan.get("lifted") or []
    src_fmt, tgt_fmt = plan["fmts"]
    bfmt = plan["bundle_format"]
    strict = RICH[src_fmt] == RICH[tgt_fmt]
    counter = WarnCounter()
    lg = logging.getLogger("brz")
    lg.addHandler(counter)
    try:
        src = histsim.make_tree(histsim.scratch("src"), src_fmt)
        bld = histsim.Builder(src, histsim.Hist())
        for s in specs:
            bld.commit(s)
        sb = Branch.open(histsim.scratch("src"))
        srepo = sb.repository
        histsim.check_built(srepo, mh)
        _bundle_part(sim, plan, mh, srepo, bfmt, src_fmt, tgt_fmt, strict, read_bundle, write_bundle, _mod_revision)
        if plan.get("md"):
            _directive_part(sim, plan, mh, sb, src_fmt, tgt_fmt, strict)
    finally:
        lg.removeHandler(counter)
    if counter.inv_sha:
        sim.probe("warning_inventory_sha_mismatch", counter.inv_sha)
        sim.probe("runs_with_inventory_sha_warning")
    sim.event("warnings", counter.inv_sha, sorted(set(counter.other))[:5])
    sim.state_seen((src_fmt, tgt_fmt, bfmt, bool(plan.get("md")), plan["base"] is None))


def _bundle_part(sim, plan, mh, srepo, bfmt, src_fmt, tgt_fmt, strict, read_bundle, write_bundle, _mod_revision):
    target, base = plan["target"], plan["base"]
    sigbase = [f"bundle-{bfmt}", f"{src_fmt}->{tgt_fmt}"]
    carried = sorted(mh.ancestry(target) - (mh.ancestry(base) if base else set()), key=mh.order.index)
    out = io.BytesIO()
    try:
        write_bundle(srepo, target.encode(), base.encode() if base else _mod_revision.NULL_REVISION, out, format=bfmt)
    except Exception as e:  # noqa: BLE001
        import traceback

        sim.fail("write", class_sig("write", "bundle-4" if bfmt == "4" else "bundle-old", e, mh, carried), f"[{src_fmt}->{tgt_fmt}] write_bundle({target}, base={base}, format={bfmt}) failed: {type(e).__name__}: {e}\n{traceback.format_exc()[-1500:]}")
    data = out.getvalue()
    import hashlib

    sim.event("bundle", bfmt, len(carried), hashlib.sha1(data).hexdigest()[:16], vol=len(data))
    # clean install
    tgt = fresh_target("tgt", tgt_fmt, srepo, base)
    try:
        info = read_bundle(io.BytesIO(data))
        got_target = info.install_revisions(tgt)
    except (SimCrash, KeyboardInterrupt, SystemExit):
        raise
    except BaseException as e:  # noqa: B036 - a pyo3 PanicException is a BaseException
        import traceback

        sim.fail("install", class_sig("install", "bundle-4" if bfmt == "4" else "bundle-old", e, mh, carried), f"[{src_fmt}->{tgt_fmt}] installing the untouched {bfmt} bundle ({carried}, base {base}) failed: {type(e).__name__}: {e}\n{traceback.format_exc()[-1800:]}")
    if got_target != target.encode():
        sim.fail("install_target", ["install_target"] + sigbase, f"install_revisions returned {got_target}, the bundle target is {target}")
    storesim.clear_caches()
    tgt = storesim.open_repo(tgt.user_url)
    absent = compare_revisions(sim, srepo, tgt, carried, strict, ["clean"] + sigbase, f"clean install of {bfmt} bundle {base}..{target}")
    if absent:
        sim.fail("missing", ["clean"] + sigbase + ["missing"], f"after installing the untouched bundle revisions {absent} are absent (carried {carried})")
    prob = storesim.check_clean(tgt)
    if prob:
        # per-file graphs are not part of the property (testaments and trees are); recorded only
        sim.probe("check_reports_after_install")
        sim.event("check", prob[:60])
    sim.probe(f"clean_install_{bfmt}")
    feats = features(mh, carried)
    for f_ in sorted(feats):
        sim.probe("feat_" + f_)
    # corruption trials
    ntrial = 0
    for i, c in enumerate(plan["corrupt"]):
        rng = sim.rng(f"corrupt:{i}:{c['seed']}")
        bad, desc = corrupt(data, c, rng)
        if bad == data:
            continue
        ntrial += 1
        if bfmt == "4" and _may_stall(bad):
            # the container reader (bzrformats.pack, Rust) can spin for ever on a stream that
            # ends early and cannot be interrupted from Python: run the trial in a forked copy
            res = forkenum.run_forked(lambda bad=bad, desc=desc, i=i: _forked_trial(sim, mh, srepo, bad, desc, i, tgt_fmt, base, carried, strict, sigbase, read_bundle), timeout=HANG_TIMEOUT)
            if "_timeout" in res:
                sim.event("trial", i, desc, "HANG")
                sim.fail("corrupt_hang", ["corrupt_hang", "bundle-4", "streaming-install-never-returns"], f"corruption {desc} of a v4 bundle ({len(data)} bytes, carried {carried}): read_bundle(...).install_revisions(repo) did not return within {HANG_TIMEOUT}s (busy loop in BundleReader.iter_records -> pack.iter_records_from_file)")
            if "_error" in res:
                raise RuntimeError(res["_error"])
            for ev in res["events"]:
                sim.event(*ev)
            for k, n_ in res["probes"].items():
                sim.probe(k, n_)
            if res.get("violation"):
                o, sg, dt = res["violation"]
                sim.fail(o, sg, dt)
        else:
            _corrupt_trial(sim, mh, srepo, bad, desc, i, tgt_fmt, base, carried, strict, sigbase, read_bundle)
    sim.notes["evaluations"] = sim.notes.get("evaluations", 0) + 1 + ntrial
    if ntrial and (len(carried) >= 2 or feats & {"merge", "rename", "swap", "retype", "chmod", "exec", "add-symlink", "binary"}):
        sim.nontrivial = True


def _may_stall(bad):
    """True if the bz2 body of a v4 bundle, fed line by line as BundleReader.iter_decode does,
    runs out without an error before its end-of-stream marker.  Such a stream is the input on
    which the streaming install was seen to spin; the trial is then run in a forked copy with
    a timeout (a fork per trial would cost seconds on this machine)."""
    import bz2

    f = io.BytesIO(bad)
    f.readline()
    f.readline()
    d = bz2.BZ2Decompressor()
    try:
        for line in f:
            d.decompress(line)
    except EOFError:
        return False
    except Exception:  # noqa: BLE001
        return False
    return not d.eof


def _forked_trial(sim, *args):
    n0 = len(sim.log)
    p0 = dict(sim.probes)
    out = {}
    try:
        _corrupt_trial(sim, *args)
    except Violation as v:
        out["violation"] = [v.oracle, v.signature, str(v.detail)[:3000]]
    out["events"] = [list(e) for e in sim.log[n0:]]
    out["probes"] = {k: n_ - p0.get(k, 0) for k, n_ in sim.probes.items() if n_ != p0.get(k, 0)}
    return out


def _corrupt_trial(sim, mh, srepo, bad, desc, i, tgt_fmt, base, carried, strict, sigbase, read_bundle):
    tgt = fresh_target("tgtc", tgt_fmt, srepo, base)
    before = None
    with tgt.lock_read():
        before = set(tgt.all_revision_ids())
    detected = None
    try:
        info = read_bundle(io.BytesIO(bad))
        info.install_revisions(tgt)
    except (SimCrash, KeyboardInterrupt, SystemExit):
        raise
    except BaseException as e:  # noqa: B036 - any error is a detection (pyo3 PanicException is a BaseException)
        detected = type(e).__name__
        if not isinstance(e, Exception):
            sim.probe("detected_by_rust_panic")
    storesim.clear_caches()
    try:
        tgt.break_lock()
    except Exception:  # noqa: BLE001
        pass
    tgt = storesim.open_repo(tgt.user_url)
    sig = ["corrupt"] + sigbase + [desc]
    with tgt.lock_read():
        now = set(tgt.all_revision_ids())
    new = sorted(r.decode("utf-8", "replace") for r in now - before)
    unknown = [r for r in new if r not in mh.revs]
    if unknown:
        sim.fail("foreign_revision", sig + ["foreign-revision-id"], f"corruption {desc}: revisions {unknown} appeared that the source never had (detected={detected})")
    # whatever is there must be the original (also after a detected corruption: nothing
    # half-installed may be visible)
    absent = compare_revisions(sim, srepo, tgt, [r for r in carried], strict, sig, f"corruption {desc} (detected={detected})")
    if detected:
        sim.probe("corruption_detected")
        sim.probe("detected_" + desc.split(":")[0])
        sim.event("trial", i, desc, "detected", detected)
    else:
        if absent:
            sim.probe("corruption_undetected_incomplete")
            sim.event("trial", i, desc, "undetected-incomplete", len(absent))
        else:
            sim.probe("corruption_harmless")
            sim.event("trial", i, desc, "harmless")


def _directive_part(sim, plan, mh, sb, src_fmt, tgt_fmt, strict):
    from breezy import merge as _mod_merge
    from breezy import merge_directive
    from breezy.branch import Branch
    from breezy.workingtree import WorkingTree

    md = plan["md"]
    srepo = sb.repository
    tgt_fmt = md.get("tgt_fmt", tgt_fmt)
    strict = RICH[src_fmt] == RICH[tgt_fmt]
    submit, target = md["submit"], md["target"]
    sigbase = ["directive", f"{src_fmt}->{tgt_fmt}", ("patch" if md["patch"] else "") + ("+bundle" if md["bundle"] else "")]
    # the submit branch: a standalone tree at `submit`, in the receiving format
    t1 = histsim.make_tree(histsim.scratch("submit1"), tgt_fmt)
    t1.branch.repository.fetch(srepo, revision_id=submit.encode())
    with t1.lock_write():
        t1.branch.generate_revision_history(submit.encode())
    t1.controldir.destroy_workingtree_metadata()
    t1 = t1.controldir.create_workingtree(revision_id=submit.encode())
    submit_branch = Branch.open(histsim.scratch("submit1"))
    # the source branch the directive names (public branch): tip = target
    pub = histsim.make_tree(histsim.scratch("public"), src_fmt)
    pub.branch.repository.fetch(srepo, revision_id=target.encode())
    with pub.lock_write():
        pub.branch.generate_revision_history(target.encode())
    public_url = "file://" + histsim.scratch("public") + "/"
    try:
        d = merge_directive.MergeDirective2.from_objects(
            repository=srepo,
            revision_id=target.encode(),
            time=md["time"],
            timezone=md["timezone"],
            target_branch=submit_branch.base,
            local_target_branch=submit_branch,
            include_patch=md["patch"],
            include_bundle=md["bundle"],
            public_branch=public_url if md["public"] else None,
            message=md["message"],
        )
    except Exception as e:  # noqa: BLE001
        import traceback

        sim.fail("directive_create", ["directive_create"] + sigbase + [type(e).__name__], f"MergeDirective2.from_objects({target} onto {submit}) failed: {type(e).__name__}: {e}\n{traceback.format_exc()[-1500:]}")
    lines = d.to_lines()
    blob = b"".join(lines)
    try:
        d2 = merge_directive.MergeDirective.from_lines(blob.splitlines(True))
    except Exception as e:  # noqa: BLE001
        import traceback

        sim.fail("directive_parse", ["directive_parse"] + sigbase + [type(e).__name__], f"from_lines(to_lines()) failed: {type(e).__name__}: {e}\n{traceback.format_exc()[-1500:]}\n{blob[:600]!r}")
    for field in ("revision_id", "testament_sha1", "time", "timezone", "target_branch", "source_branch", "message", "base_revision_id", "patch", "bundle"):
        a, b_ = getattr(d, field), getattr(d2, field)
        if field == "time":
            a, b_ = int(a), int(b_)
        if a != b_:
            sim.fail("directive_fields", ["directive_fields"] + sigbase + [field], f"field {field} changed in to_lines/from_lines: {a!r} -> {b_!r}")
    sim.probe("directive_roundtrip")
    carried = sorted(mh.ancestry(target) - mh.ancestry(submit), key=mh.order.index)
    # install into the submit repository
    trepo = submit_branch.repository
    try:
        got = d2.install_revisions(trepo)
    except Exception as e:  # noqa: BLE001
        import traceback

        sim.fail("directive_install", class_sig("directive_install", "directive", e, mh, carried), f"[{src_fmt}->{tgt_fmt}, {sigbase[2]}] install_revisions of the parsed directive failed: {type(e).__name__}: {e}\n{traceback.format_exc()[-1500:]}")
    if got != target.encode():
        sim.fail("directive_install", ["directive_install"] + sigbase + ["target"], f"install_revisions returned {got} for {target}")
    absent = compare_revisions(sim, srepo, Branch.open(histsim.scratch("submit1")).repository, carried, strict, ["directive_install"] + sigbase, "directive install")
    if absent:
        sim.fail("missing", ["directive_install"] + sigbase + ["missing"], f"after install_revisions the revisions {absent} are absent")
    verified = d2.get_merge_request(trepo)[2]
    want_v = "verified" if md["patch"] else "inapplicable"
    if verified != want_v:
        # reported class: a path whose entry is replaced by one with a new file id between base
        # and target (removed + added at the same path) is diffed in iter_changes order, which
        # differs between CHK and XML-inventory repositories
        sig = ["directive_verify"] + sigbase + [verified]
        bid = d2.base_revision_id.decode() if d2.base_revision_id else None
        if verified == "failed" and bid in mh.revs and src_fmt != tgt_fmt:
            bt, tt = mh.tree(bid), mh.tree(target)
            if any(p_ in tt and p_ != "" and bt[p_][0] != tt[p_][0] for p_ in bt):
                sig = ["directive_verify", "path-replaced-by-new-id"]
        sim.fail("directive_verify", sig, f"untouched directive ({src_fmt}->{tgt_fmt}, base {bid}, target {target}): patch verification says {verified!r}, expected {want_v!r}")
    sim.probe("directive_install")
    sim.notes["evaluations"] = sim.notes.get("evaluations", 0) + 1
    # corruption of the patch / bundle sections
    ntrial = 0
    for i, c in enumerate(md["corrupt"]):
        # section offsets from the end (the marker lines may also occur in the message)
        blen = len(d.bundle) if d.bundle is not None else 0
        plen = len(d.patch) if d.patch is not None else 0
        mid = len(blob) - blen - len(b"# Begin bundle\n") if d.bundle is not None else -1
        lo = (mid if mid >= 0 else len(blob)) - plen - len(b"# Begin patch\n") if d.patch is not None else -1
        if lo < 0 and mid < 0:
            continue
        sec = "patch" if (lo >= 0 and (c["region"] == "patch" or mid < 0)) else "bundle"
        if sec == "patch":
            a, z = lo + len(b"# Begin patch\n"), (mid if mid >= 0 else len(blob))
        else:
            a, z = mid + len(b"# Begin bundle\n"), len(blob)
        if z - a < 2:
            continue
        rng = sim.rng(f"mdcorrupt:{i}:{c['seed']}")
        bad, _ = corrupt(blob, {"region": "any", "op": c["op"]}, rng, a, z)
        desc = sec + ":" + c["op"]
        if bad == blob:
            continue
        ntrial += 1
        _md_corrupt_trial(sim, mh, srepo, bad, desc, i, tgt_fmt, submit, carried, strict, sigbase, md)
    sim.notes["evaluations"] = sim.notes.get("evaluations", 0) + ntrial
    # merge from the directive vs merge from the branch
    if md["merge"]:
        t2 = histsim.make_tree(histsim.scratch("submit2"), tgt_fmt)
        t2.branch.repository.fetch(srepo, revision_id=submit.encode())
        with t2.lock_write():
            t2.branch.generate_revision_history(submit.encode())
        t2.controldir.destroy_workingtree_metadata()
        t2 = t2.controldir.create_workingtree(revision_id=submit.encode())
        res = []
        for which, tree in (("directive", WorkingTree.open(histsim.scratch("submit1"))), ("branch", t2)):
            err = None
            try:
                with tree.lock_write():
                    if which == "directive":
                        merger, _v = _mod_merge.Merger.from_mergeable(tree, d2)
                    else:
                        merger = _mod_merge.Merger.from_revision_ids(tree, target.encode(), other_branch=sb)
                    merger.merge_type = _mod_merge.Merge3Merger
                    merger.do_merge()
                    merger.set_pending()
            except Exception as e:  # noqa: BLE001 - compared between the two ways
                err = type(e).__name__
            summ = wt_summary(WorkingTree.open(tree.basedir))
            summ["error"] = err
            res.append(summ)
        a, b_ = res
        if a != b_:
            keys = [k for k in a if a[k] != b_[k]]
            detail = {k: (histsim.diff_trees(a[k], b_[k]) if k == "tree" else (a[k], b_[k])) for k in keys}
            sim.fail("merge_differs", ["merge_differs"] + sigbase + keys, f"merging {target} into {submit} through the directive and from the branch differ in {keys}: {str(detail)[:1500]}")
        sim.probe("merge_compared")
        if a["error"]:
            sim.probe("merge_raised_both_ways")
        if a["conflicts"]:
            sim.probe("merge_with_conflicts")
        sim.event("merge", a["error"], len(a["conflicts"]), a["parents"])
    sim.nontrivial = sim.nontrivial or ntrial > 0


def _md_corrupt_trial(sim, mh, srepo, bad, desc, i, tgt_fmt, submit, carried, strict, sigbase, md):
    from breezy import merge_directive

    tgt = fresh_target("tgtm", tgt_fmt, srepo, submit)
    with tgt.lock_read():
        before = set(tgt.all_revision_ids())
    detected = None
    try:
        d3 = merge_directive.MergeDirective.from_lines(bad.splitlines(True))
        d3.install_revisions(tgt)
        status = d3.get_merge_request(tgt)[2]
        if status == "failed":
            detected = "patch-verification-failed"
    except (SimCrash, KeyboardInterrupt, SystemExit):
        raise
    except BaseException as e:  # noqa: B036 - includes pyo3 PanicException (a BaseException)
        detected = type(e).__name__
        if not isinstance(e, Exception):
            sim.probe("detected_by_rust_panic")
    storesim.clear_caches()
    try:
        tgt.break_lock()
    except Exception:  # noqa: BLE001
        pass
    tgt = storesim.open_repo(tgt.user_url)
    sig = ["corrupt"] + sigbase + [desc]
    with tgt.lock_read():
        now = set(tgt.all_revision_ids())
    unknown = [r.decode("utf-8", "replace") for r in now - before if r.decode("utf-8", "replace") not in mh.revs]
    if unknown:
        sim.fail("foreign_revision", sig + ["foreign-revision-id"], f"directive corruption {desc}: revisions {unknown} appeared that the source never had (detected={detected})")
    absent = compare_revisions(sim, srepo, tgt, carried, strict, sig, f"directive corruption {desc} (detected={detected})")
    if detected:
        sim.probe("md_corruption_detected")
        sim.event("mdtrial", i, desc, "detected", detected)
    elif desc.startswith("patch") :
        # an undetected change of the preview patch: acceptable only where the verification
        # deliberately ignores it (line endings, trailing blanks)
        sim.probe("md_patch_corruption_harmless")
        sim.event("mdtrial", i, desc, "harmless")
    else:
        sim.probe("md_corruption_undetected_incomplete" if absent else "md_corruption_harmless")
        sim.event("mdtrial", i, desc, "undetected", len(absent))


def shrink_candidates(plan):
    import copy

    if plan.get("md"):
        p = copy.deepcopy(plan)
        p["md"] = None
        yield p
        if plan["md"].get("merge"):
            p = copy.deepcopy(plan)
            p["md"]["merge"] = False
            yield p
        if plan["md"].get("corrupt"):
            p = copy.deepcopy(plan)
            p["md"]["corrupt"] = []
            yield p
    if plan.get("corrupt"):
        p = copy.deepcopy(plan)
        p["corrupt"] = []
        yield p
        if len(plan["corrupt"]) > 1:
            for i in range(len(plan["corrupt"])):
                p = copy.deepcopy(plan)
                p["corrupt"] = [plan["corrupt"][i]]
                yield p
    # drop revisions that neither the bundle nor the directive needs
    need = {plan["target"]} | ({plan["base"]} if plan["base"] else set())
    if plan.get("md"):
        need |= {plan["md"]["submit"], plan["md"]["target"]}
    mh = histsim.replay(plan["specs"])
    keep = set()
    for r in need:
        keep |= mh.ancestry(r)
    if len(keep) < len(plan["specs"]):
        p = copy.deepcopy(plan)
        p["specs"] = [s for s in p["specs"] if s["id"] in keep]
        yield p
