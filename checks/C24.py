"""C24 — Tag transfer never loses or silently rewrites tags.

One run = one `source.tags.merge_to(target.tags, overwrite, ignore_master, selector)` between
two generated tag dictionaries, for one pairing of tag stores (BasicTags of 2a branches on
a simulated store, MemoryTags, LocalGitTagDict of local git repositories), optionally with
the target bound to a master branch, optionally with a transport error or a crash at the
k-th mutating store operation of the merge, followed by a seeded series of set_tag /
delete_tag / rename_revisions / reopen round trips.  Everything is read back through fresh
`Branch.open` objects and compared with a dict model of the two-way reconciliation rules
of the property text."""

import os

from simkit import world
from simkit.sim import SimCrash

from . import storesim
from .storesim import MHist, gen_chain, replay_model

PROPERTY = "C24"
LEVEL = "exploration"
RULE = (
    "one case = one seeded merge_to (store pairing bzr/memory/git, source and destination tag dicts built from the "
    "four name classes source-only / destination-only / identical / differing, overwrite, selector, bound master with "
    "its own dict, ignore_master, optional err_before|crash at mutating store op k or a transient ReadError|PermissionDenied|TransportError at the n-th read) plus its round-trip ops; "
    "or, instead of a fault, a second writer (1-3 set_tag/delete_tag calls on the destination through its own Branch "
    "object) interleaved with the merge at every store op (random|pct|rr schedules); "
    "non-trivial = at least two of the four name classes are present and the destination was read back through a "
    "fresh object (two-writer runs: the merge completed and the scheduler switched actors at least once); distinct = "
    "distinct event-log digests of such runs"
)
COMPONENTS = {
    "real": ["breezy.tag (Tags.merge_to, InterTags.merge/_merge_to, _reconcile_tags, MemoryTags)", "breezy.bzr.tag.BasicTags (bencode tags file, set_tag/delete_tag with master propagation)", "breezy.git.branch (LocalGitTagDict, InterTagsFromGitToLocalGit, InterTagsFromGitToNonGit) on dulwich disk repositories", "BzrBranch locking (LockDir), Branch.bind/get_master_branch", "breezy.memorybranch.MemoryBranch"],
    "simulated": ["disk of the bzr branches (SimTransport over memory transport)", "process scheduling at every store op (merge vs second writer, private object graphs)", "transport error / process crash at the k-th mutating op of the merge", "clock of breezy.lockdir", "fresh process (new objects, break_lock) after a fault"],
    "stub": ["UI", "git repositories live on the real scratch file system (not routed through the seam)"],
}
ASSUMPTIONS = [
    "tag names are str without lone surrogates (they must be UTF-8 encodable); bzr names range over spaces, control characters, NUL, combining and non-BMP characters and the empty string; bzr revision ids are arbitrary byte strings (ghosts, empty, non-UTF-8, whitespace)",
    "git tag names are restricted to strings that are valid git ref components (no space, control characters, ~^:?*[\\, '..', no 'a' next to 'a/b'); git tag values are commits present in every git repository of the run (git refuses ghosts: LocalGitTagDict._set_tag_dict drops them silently, which is the format's documented limitation supports_tags_referencing_ghosts()=False, not tested here); lightweight tags only",
    "a bound target is reconciled individually with the same source as its master (documented in InterTags.merge); returned updates/conflicts are the unions",
    "two-writer runs: every call is judged as one atomic step (each takes the destination's write lock for its read-modify-write); the run must equal some placement of the merge among the second writer's calls, jointly for the final dict, the returned (updates, conflicts) and each call's ok/NoSuchTag outcome; LockContention = that call was not done",
    "after a fault a fresh process applies the documented manual step break_lock before re-use; 'old or new' is judged per branch (target and master are separate files)",
]
STEP_CAP = 6000


def warm():
    storesim.warm()
    import shutil
    import tempfile

    import dulwich.objects  # noqa: F401
    from breezy import memorybranch, tag  # noqa: F401
    from breezy.bzr import tag as bzrtag  # noqa: F401
    from breezy.git import branch as gitbranch  # noqa: F401

    global _warmed
    if _warmed:
        return
    d = tempfile.mkdtemp(prefix="c24warm", dir="/dev/shm")
    try:
        p, revs = make_git(os.path.join(d, "g"))
        from breezy.branch import Branch

        b = Branch.open(p)
        b.tags.set_tag("w", revs[0])
        b.tags.get_tag_dict()
        p2, _ = make_git(os.path.join(d, "h"))
        b.tags.merge_to(Branch.open(p2).tags)
    finally:
        shutil.rmtree(d, ignore_errors=True)
    _warmed = True


_warmed = False


def config(tier):
    if tier == "thorough":
        return {"budget_s": 600, "run_timeout": 120, "selftest": 16}
    return {"budget_s": 45, "run_timeout": 120, "selftest": 8}


# -- generation ------------------------------------------------------------------------------

KINDS = ["bzr2bzr", "bzr2bzr", "bzr2bzr", "bzr2bzr", "bzr2bound", "bzr2bound", "bzr2mem", "mem2bzr", "mem2bound", "git2bzr", "git2bound", "bzr2git", "git2git"]
BZR_NAMES = ["v1", "rel 1.0", " lead", "trail ", "", "\u00e9", "e\u0301", "\U0001f600tag", "a/b", "tab\there", "new\nline", "x" * 200, "\u00df", "\u0661\u0662", "tag:colon", "l:10", "\u65e5\u672c\u8a9e", "q'\"", "nul\x00in", "0", "-dash"]
BZR_ALPHA = list("ab Z9._-/:'\"\\\t\n") + ["\u00e9", "\u0301", "\U0001f600", "\U00010348", "\u00a0", "\x00", "\u200b", "\u65e5"]
GIT_NAMES = ["v1", "rel-1.0", "\u00e9", "e\u0301", "\U0001f600tag", "ns/sub", "\u00df", "\u65e5\u672c\u8a9e", "x_y", "UPPER", "upper", "1.2.3", "a-b"]
GIT_ALPHA = list("abcXYZ019_-") + ["\u00e9", "\u0301", "\U0001f600", "\u65e5"]
BZR_REVIDS = ["r-1", "r-2", "ghost-1", "gh ost", "", "\xff\xfe", "a\nb", "null:", "g" * 120, "sim@example.com-20200101-abcdef", "\x00", " ", "r-1 "]
NGIT = 4


def _names(rng, git, n):
    pool, alpha = (GIT_NAMES, GIT_ALPHA) if git else (BZR_NAMES, BZR_ALPHA)
    out = []
    guard = 0
    while len(out) < n and guard < 100:
        guard += 1
        if rng.random() < 0.6:
            s = rng.choice(pool)
        else:
            s = "".join(rng.choice(alpha) for _ in range(rng.randint(1, 6)))
            if git and (s.startswith("-") or s.endswith(".") or s.startswith("\u0301")):
                s = "t" + s + "t"
        if s in out:
            continue
        if git and any(o.startswith(s + "/") or s.startswith(o + "/") for o in out):
            continue
        out.append(s)
    return out


def generate(rng, tier):
    kind = rng.choice(KINDS)
    git = "git" in kind
    src_git = kind.startswith("git")
    dst_git = kind.endswith("git")
    n = rng.choice([0, 1, 2, 3, 4, 4, 5, 6, 8])
    names = _names(rng, git, n)

    def val(side_git_only):
        if side_git_only or (git and rng.random() < 0.5):
            return ["g", rng.randrange(NGIT)]
        return ["b", rng.choice(BZR_REVIDS)]

    def other(v, side_git_only):
        for _ in range(50):
            w = val(side_git_only)
            if w != v:
                return w
        return ["g", (v[1] + 1) % NGIT] if v[0] == "g" else ["b", v[1] + "x"]

    # values that end up in a git store must be git commits
    src_only_git = src_git or dst_git
    dst_only_git = dst_git
    src, dst, mst = [], [], []
    classes = {}
    for nm in names:
        c = rng.choice(["src", "dst", "same", "diff", "diff", "src"])
        classes[nm] = c
        if c == "src":
            src.append([nm, val(src_only_git)])
        elif c == "dst":
            dst.append([nm, val(dst_only_git)])
        elif c == "same":
            v = val(src_only_git)
            src.append([nm, v])
            dst.append([nm, v])
        else:
            v = val(src_only_git)
            src.append([nm, v])
            dst.append([nm, other(v, dst_only_git)])
    bound = kind.endswith("bound")
    if bound:
        # the master has its own view: sometimes like the target, sometimes different
        for nm in names + _names(rng, False, rng.randint(0, 2)):
            r = rng.random()
            cur = dict((k, v) for k, v in dst).get(nm)
            if r < 0.4 and cur is not None:
                mst.append([nm, cur])
            elif r < 0.7:
                mst.append([nm, val(False)])
        seen = set()
        mst = [e for e in mst if not (e[0] in seen or seen.add(e[0]))]
    sel = rng.choice([None, None, None, "all", "none", "set", "set"])
    selector = None
    if sel == "set":
        allnames = sorted({e[0] for e in src} | {e[0] for e in dst})
        selector = {"kind": "set", "names": [x for x in allnames if rng.random() < 0.5]}
    elif sel is not None:
        selector = {"kind": sel}
    plan = {
        "kind": kind,
        "src": src,
        "dst": dst,
        "master": mst,
        "overwrite": rng.random() < 0.5,
        "ignore_master": bound and rng.random() < 0.25,
        "selector": selector,
        "ops": [],
    }
    # round-trip ops on the destination afterwards
    allnames = sorted({e[0] for e in src} | {e[0] for e in dst})
    for _ in range(rng.randint(0, 5)):
        r = rng.random()
        if r < 0.4:
            nm = rng.choice(allnames) if allnames and rng.random() < 0.5 else _names(rng, dst_git, 1)[0]
            if dst_git and any(o != nm and (o.startswith(nm + "/") or nm.startswith(o + "/")) for o in allnames):
                continue
            plan["ops"].append(["set", nm, val(dst_only_git)])
            if nm not in allnames:
                allnames.append(nm)
        elif r < 0.65:
            nm = rng.choice(allnames) if allnames and rng.random() < 0.8 else "no-such-tag"
            plan["ops"].append(["delete", nm])
        elif r < 0.85:
            m = []
            for _ in range(rng.randint(1, 3)):
                m.append([val(dst_only_git), val(dst_only_git)])
            plan["ops"].append(["rename", m])
        else:
            plan["ops"].append(["reopen"])
    if kind in ("bzr2bzr", "mem2bzr") and rng.random() < 0.65:
        # two writers: the merge runs while a second process tags / untags the destination
        plan["ops"] = []
        race = []
        # the merge must have something to store, or there is nothing to interleave with
        dnames = {e[0] for e in dst}
        if not any(e[0] not in dnames for e in src):
            extra = [n for n in _names(rng, False, 3) if n not in dnames and n not in {e[0] for e in src}][:1] or ["only-in-source"]
            src.append([extra[0], val(False)])
            allnames = sorted(set(allnames) | {extra[0]})
        if selector is not None and selector["kind"] != "all":
            plan["selector"] = None if rng.random() < 0.7 else {"kind": "set", "names": sorted({e[0] for e in src})}
        pool = allnames + _names(rng, False, 2)
        for _ in range(rng.choice([1, 2, 2, 3, 3])):
            for _ in range(rng.choice([0, 0, 1, 2])):
                race.append(["read"])  # (shifts the second writer's phase against the merge)
            nm = rng.choice(pool)
            if rng.random() < 0.75:
                race.append(["set", nm, val(False)])
            else:
                race.append(["delete", nm])
        plan["race"] = race
        plan["rounds"] = rng.choice([6, 8, 10, 12])  # the same race repeated on fresh destinations under the continuing schedule
        plan["policy"] = rng.choice(["random", "random", "random", "random", "pct", "rr"])
        if plan["policy"] == "pct":
            plan["preempt_at"] = sorted(rng.sample(range(15, 110), rng.randint(3, 9)))
        return plan
    if not dst_git and kind != "bzr2mem" and rng.random() < 0.6:
        top = 16 if bound else 9
        plan["faults"] = [{"kind": rng.choice(["err_before", "crash"]), "at": rng.choice([4, 4, 4, 11, 11] + list(range(1, top))), "count": "mut", "applied": rng.random() < 0.5, "err": rng.choice(["transport", "enospc", "permission"])}]
        if rng.random() < 0.6:
            # a transient error at the n-th read of the merge (the reads of the tags files are
            # the 9th-14th get of an unbound bzr->bzr merge, a few more with a master)
            plan["faults"] = [{"kind": "err_before", "op": "get", "nth": rng.randint(1, 24), "err": rng.choice(["readerror", "readerror", "permission", "permission", "transport"])}]
            if rng.random() < 0.85:
                # aimed: the m-th read of a tags file (source, destination, master) during the merge
                nreads = (1 if kind.startswith("bzr") else 0) + 1 + (1 if bound and not plan["ignore_master"] and not kind.startswith("mem") else 0)
                plan["faults"][0]["tags_read"] = rng.randint(1, nreads)
    return plan


# -- model -----------------------------------------------------------------------------------


def reconcile(src, dst, overwrite, selector):
    """The property text: source-only added, destination-only kept, identical unchanged,
    differing keep the destination and are conflicts unless overwrite (then source value,
    reported as update)."""
    result = dict(dst)
    updates = {}
    conflicts = set()
    for name, target in src.items():
        if selector is not None and not selector(name):
            continue
        if name not in dst:
            result[name] = target
            updates[name] = target
        elif dst[name] == target:
            pass
        elif overwrite:
            result[name] = target
            updates[name] = target
        else:
            conflicts.add((name, target, dst[name]))
    return result, updates, conflicts


def reverse(d):
    out = {}
    for k, v in d.items():
        out.setdefault(v, set()).add(k)
    return out


def make_selector(spec):
    if spec is None:
        return None
    if spec["kind"] == "all":
        return lambda name: True
    if spec["kind"] == "none":
        return lambda name: False
    chosen = set(spec["names"])
    return lambda name: name in chosen


# -- git helpers -----------------------------------------------------------------------------


def make_git(path):
    """A bare git repository with NGIT fixed commits; returns (path, [revid...])."""
    from breezy import controldir
    from dulwich.objects import Blob, Commit, Tree

    os.makedirs(path)
    fmt = controldir.format_registry.make_controldir("git-bare")
    b = controldir.ControlDir.create_branch_convenience(path, format=fmt, force_new_tree=False)
    g = b.repository._git
    parent = None
    revs = []
    for i in range(NGIT):
        bl = Blob.from_string(b"content %d\n" % i)
        t = Tree()
        t.add(b"f", 0o100644, bl.id)
        c = Commit()
        c.tree = t.id
        c.author = c.committer = b"Sim User <sim@example.com>"
        c.author_time = c.commit_time = 1_500_000_000 + i
        c.author_timezone = c.commit_timezone = 0
        c.message = b"c%d" % i
        if parent:
            c.parents = [parent]
        for o in (bl, t, c):
            g.object_store.add_object(o)
        parent = c.id
        revs.append(b.repository.lookup_foreign_revision_id(c.id))
    return path, revs


# -- execution -------------------------------------------------------------------------------


def show(d):
    return {k: v for k, v in sorted(d.items())}


def execute(sim, plan):
    from breezy import errors
    from breezy.branch import Branch
    from breezy.memorybranch import MemoryBranch
    from breezy.tag import MemoryTags

    warm()
    sim.disarm()
    world.setup_sim(sim)
    world.install_clock(sim, ["breezy.lockdir"])
    kind = plan["kind"]
    src_kind, dst_kind = kind.split("2")
    fkind = plan["faults"][0]["kind"] if plan.get("faults") else "none"
    if fkind == "err_before" and plan["faults"][0].get("op") == "get":
        fkind = "read_error"
    scratch = os.environ["VERIF_SCRATCH"]
    gitrevs = None
    gpaths = {}
    if "git" in kind:
        for nm in ("gsrc", "gdst"):
            if (nm == "gsrc" and src_kind == "git") or (nm == "gdst" and dst_kind == "git"):
                gpaths[nm], gitrevs = make_git(os.path.join(scratch, nm))
        if gitrevs is None:
            raise AssertionError("no git side")

    def rv(v):
        return gitrevs[v[1]] if v[0] == "g" else v[1].encode("latin-1")

    src = {n: rv(v) for n, v in plan["src"]}
    dst = {n: rv(v) for n, v in plan["dst"]}
    mst = {n: rv(v) for n, v in plan["master"]}
    bound = dst_kind == "bound"
    overwrite = plan["overwrite"]
    ignore_master = plan["ignore_master"]
    selector = make_selector(plan["selector"])

    url = world.new_store("tags")
    # a source repository with two real revisions: tags may name them or ghosts
    sb = storesim.make_branch(url + "src", "2a")
    import random

    mh = MHist()
    storesim.commit_specs(sb, gen_chain(random.Random(7), mh, None, 2, "r"))
    if src_kind == "bzr":
        sb.tags._set_tag_dict(dict(src))
    if dst_kind in ("bzr", "bound"):
        tb = storesim.make_branch(url + "dst", "2a")
        tb.tags._set_tag_dict(dict(dst))
        if bound:
            mb = storesim.make_branch(url + "master", "2a")
            mb.tags._set_tag_dict(dict(mst))
            tb.bind(mb)
            del mb
        del tb
    if src_kind == "git":
        gb = Branch.open(gpaths["gsrc"])
        for n, v in src.items():
            gb.tags.set_tag(n, v)
        del gb
    if dst_kind == "git":
        gb = Branch.open(gpaths["gdst"])
        for n, v in dst.items():
            gb.tags.set_tag(n, v)
        del gb
    del sb
    mem_target = [None]

    def open_source():
        if src_kind == "bzr":
            return Branch.open(url + "src").tags
        if src_kind == "git":
            return Branch.open(gpaths["gsrc"]).tags
        return MemoryTags(dict(src))

    def open_target():
        if dst_kind in ("bzr", "bound"):
            return Branch.open(url + "dst").tags
        if dst_kind == "git":
            return Branch.open(gpaths["gdst"]).tags
        if mem_target[0] is None:
            repo = Branch.open(url + "src").repository
            mem_target[0] = MemoryBranch(repo, (0, b"null:"), tags=dict(dst)).tags
        return mem_target[0]

    def open_master():
        return Branch.open(url + "master").tags

    def fail(oracle, what, detail):
        sim.fail(oracle, [oracle, fkind, f"{kind}:{what}"], detail)

    def classify(got, want, before, label):
        """Name the first deviation of a stored dict from the model."""
        for name in sorted(set(got) | set(want)):
            g, w = got.get(name), want.get(name)
            if g == w:
                continue
            sel = selector is None or selector(name)
            if name in before and name not in src and g is None:
                return f"{label}:destination-only-tag-dropped", name
            if name in before and g is None:
                return f"{label}:destination-tag-dropped", name
            if name not in before and name in src and sel and g is None:
                return f"{label}:source-only-tag-not-added", name
            if name in before and name in src and before[name] != src[name]:
                if g == src[name] and w == before[name]:
                    return f"{label}:conflict-overwritten-without-overwrite" if sel else f"{label}:unselected-tag-overwritten", name
                if g == before[name] and w == src[name]:
                    return f"{label}:overwrite-not-applied", name
            if w is None:
                return f"{label}:unexpected-tag-added", name
            return f"{label}:value-differs", name
        return None, None

    def read_back(opener, want, before, label):
        storesim.clear_caches()
        tags = opener()
        try:
            got = dict(tags.get_tag_dict())
        except Exception as e:  # noqa: BLE001
            fail("readback", f"{label}:get_tag_dict-raises:{type(e).__name__}", f"reading the {label} tag dict failed: {type(e).__name__}: {e}")
        if got != want:
            what, name = classify(got, want, before, label)
            fail("stored", what, f"{label} tag dict after merge_to(overwrite={overwrite}, selector={plan['selector']}): tag {name!r} is {got.get(name)!r}, the rules give {want.get(name)!r} (source {src.get(name)!r}, destination before {before.get(name)!r}); stored {show(got)} expected {show(want)}")
        for name in sorted(want):
            try:
                v = tags.lookup_tag(name)
            except Exception as e:  # noqa: BLE001
                fail("readback", f"{label}:lookup_tag-raises", f"lookup_tag({name!r}) raised {type(e).__name__}: {e}")
            if v != want[name]:
                fail("readback", f"{label}:lookup_tag-differs", f"lookup_tag({name!r}) = {v!r}, get_tag_dict has {want[name]!r}")
        try:
            tags.lookup_tag("\u2205 no such tag")
            fail("readback", f"{label}:lookup_tag-missing", "lookup_tag of a missing tag returned a value")
        except errors.NoSuchTag:
            pass
        rev = {k: set(v) for k, v in tags.get_reverse_tag_dict().items()}
        if rev != reverse(want):
            fail("readback", f"{label}:reverse-dict", f"get_reverse_tag_dict {rev} != {reverse(want)}")
        return got

    def stored_state(opener):
        storesim.clear_caches()
        return dict(opener().get_tag_dict())

    def do_merge():
        s, t = open_source(), open_target()
        r = s.merge_to(t, overwrite=overwrite, ignore_master=ignore_master, selector=selector)
        if not (isinstance(r, tuple) and len(r) == 2):
            fail("returned", "shape", f"merge_to returned {r!r}, expected (updates, conflicts)")
        return dict(r[0]), {tuple(c) for c in r[1]}

    def expect(cur_dst, cur_mst):
        want_t, ut, ct = reconcile(src, cur_dst, overwrite, selector)
        want_m, um, cm = dict(cur_mst), {}, set()
        if bound and not ignore_master and src_kind != "mem":
            # (MemoryTags.merge_to reconciles the given tags object only; it never looks for a master)
            want_m, um, cm = reconcile(src, cur_mst, overwrite, selector)
        upd = dict(ut)
        upd.update(um)
        return want_t, want_m, upd, ct | cm

    def check_returned(got_u, got_c, want_u, want_c):
        if got_u != want_u:
            extra = {k: v for k, v in got_u.items() if want_u.get(k) != v}
            missing = {k: v for k, v in want_u.items() if got_u.get(k) != v}
            fail("returned", "updates", f"returned updates {show(got_u)} != model {show(want_u)} (unexpected {extra}, missing {missing})")
        if got_c != want_c:
            fail("returned", "conflicts", f"returned conflicts {sorted(got_c)} != model {sorted(want_c)}")

    classes = set()
    for name in set(src) | set(dst):
        classes.add("src" if name not in dst else "dst" if name not in src else "same" if src[name] == dst[name] else "diff")
    want_t, want_m, want_u, want_c = expect(dst, mst)
    sim.event("merge", kind, overwrite, ignore_master, plan["selector"] and plan["selector"]["kind"], sorted(classes), fkind)

    if plan.get("race"):
        for rnd in range(plan.get("rounds", 1)):
            run_race(sim, plan, kind, src, dst, rv, overwrite, selector, open_source, url, classes, rnd)
        return

    # -- the merge under test ---------------------------------------------------------------
    outcome = "ok"
    armed = []
    for f in plan.get("faults", []):
        f = dict(f)
        if f.get("err") == "readerror":
            from dromedary.errors import ReadError

            f["exc"] = ReadError("injected read error")
        if "tags_read" in f:
            f["nth"] = -1  # set by the filter below when the m-th read of a tags file comes up
        armed.append(f)
    sim.arm(armed)
    if armed and "tags_read" in armed[0]:
        seen_tags_reads = [0]

        def aim(actor, op, path, mutating):
            # (called before the op is counted: make the fault's 'n-th get' this very get)
            if op == "get" and path.endswith("/tags") and sim.faults:
                seen_tags_reads[0] += 1
                if seen_tags_reads[0] == sim.faults[0].get("tags_read"):
                    sim.faults[0]["nth"] = actor.opcount.get("get", 0) + 1
            return True

        sim.fault_filter = aim
    try:
        got_u, got_c = do_merge()
    except SimCrash:
        outcome = "crash"
    except Exception as e:  # noqa: BLE001
        sim.disarm()
        if sim.violation is not None:
            raise
        if not sim.faults_fired:
            import traceback

            frames = [f.name for f in traceback.extract_tb(e.__traceback__) if "/breezy/" in f.filename]
            fail("merge_raises", f"{type(e).__name__}:{frames[-1] if frames else '?'}", f"merge_to raised without any fault: {type(e).__name__}: {e}\n" + "".join(traceback.format_exception(e))[-1500:])
        outcome = "error"
        sim.event("merge-failed", type(e).__name__)
    sim.disarm()
    sim.fault_filter = None
    if sim.current().dead and outcome != "crash":
        # the crash was swallowed somewhere below (zombie): the process is gone all the same
        outcome = "crash"
    sim.probe("merge_" + outcome)
    if sim.faults_fired:
        sim.probe("fault_fired_" + fkind)

    cur_t, cur_m = dst, mst
    if sim.faults_fired:
        # a fresh process; the documented manual step first
        if outcome == "crash":
            sim.restart_main()
        for u in [url + "dst"] + ([url + "master"] if bound else []):
            try:
                Branch.open(u).break_lock()
            except Exception as e:  # noqa: BLE001
                fail("recovery", "break_lock", f"break_lock failed after the fault: {type(e).__name__}: {e}")
    if outcome == "ok":
        cur_t = read_back(open_target, want_t, dst, "target")
        if bound:
            cur_m = read_back(open_master, want_m, mst, "master")
        check_returned(got_u, got_c, want_u, want_c)
    else:
        # old or new, never garbage
        for label, opener, old, new in [("target", open_target, dst, want_t)] + ([("master", open_master, mst, want_m)] if bound else []):
            try:
                got = stored_state(opener)
            except Exception as e:  # noqa: BLE001
                fail("old_or_new", f"{label}:unreadable:{type(e).__name__}", f"after {fkind} ({plan['faults'][0]}) the {label} tags cannot be read: {type(e).__name__}: {e}")
            if got != old and got != new:
                fail("old_or_new", f"{label}:neither", f"after {fkind} the {label} tag dict {show(got)} is neither the old {show(old)} nor the new {show(new)}")
            sim.probe(f"after_fault_{label}_" + ("new" if got == new and new != old else "old"))
            if label == "target":
                cur_t = got
            else:
                cur_m = got
        # retry by the fresh process
        want_t, want_m, want_u, want_c = expect(cur_t, cur_m)
        try:
            got_u, got_c = do_merge()
        except Exception as e:  # noqa: BLE001
            if sim.violation is not None:
                raise
            fail("retry", f"raises:{type(e).__name__}", f"retrying merge_to after {fkind} failed: {type(e).__name__}: {e}")
        before_t, before_m = cur_t, cur_m
        cur_t = read_back(open_target, want_t, before_t, "target")
        if bound:
            cur_m = read_back(open_master, want_m, before_m, "master")
        check_returned(got_u, got_c, want_u, want_c)
        sim.probe("retry_ok")
    sim.nontrivial = len(classes) >= 2
    for c in classes:
        sim.probe("class_" + c)
    if want_c:
        sim.probe("conflicts_reported")

    # -- round trips on the destination -------------------------------------------------------
    model_t, model_m = dict(cur_t), dict(cur_m)
    tags = open_target()
    for op in plan["ops"]:
        k = op[0]
        try:
            if k == "set":
                tags.set_tag(op[1], rv(op[2]))
                model_t[op[1]] = rv(op[2])
                if bound:
                    model_m[op[1]] = rv(op[2])
            elif k == "delete":
                try:
                    tags.delete_tag(op[1])
                    if op[1] not in model_t:
                        fail("roundtrip", "delete-missing-accepted", f"delete_tag({op[1]!r}) of a missing tag did not raise NoSuchTag")
                    del model_t[op[1]]
                    if bound:
                        model_m.pop(op[1], None)
                except errors.NoSuchTag:
                    if op[1] in model_t:
                        fail("roundtrip", "delete-existing-refused", f"delete_tag({op[1]!r}) raised NoSuchTag for an existing tag")
            elif k == "rename":
                m = {}
                for a, b in op[1]:
                    m.setdefault(rv(a), rv(b))
                tags.rename_revisions(m)
                for name in list(model_t):
                    if model_t[name] in m:
                        new = m[model_t[name]]
                        model_t[name] = new
                        if bound:
                            model_m[name] = new
            elif k == "reopen":
                tags = open_target()
                continue
        except errors.BzrError as e:
            if sim.violation is not None:
                raise
            fail("roundtrip", f"{k}-raises:{type(e).__name__}", f"{k} {op[1:]!r} raised {type(e).__name__}: {e}")
        sim.probe("roundtrip_" + k)
        for label, opener, model in [("target", open_target, model_t)] + ([("master", open_master, model_m)] if bound else []):
            got = stored_state(opener)
            if got != model:
                diff = sorted(set(got.items()) ^ set(model.items()), key=repr)[:4]
                fail("roundtrip", f"{label}:{k}", f"after {k} {op[1:]!r} the {label} dict read back through a fresh object differs from the model in {diff}")
    sim.state_seen((kind, overwrite, ignore_master, plan["selector"] and plan["selector"]["kind"], tuple(sorted(classes)), fkind, outcome, bool(want_c)))


# -- two writers --------------------------------------------------------------------------------


def run_race(sim, plan, kind, src, dst, rv, overwrite, selector, open_source, url, classes, rnd):
    """Actor A merges into the destination while actor B sets / deletes tags on it through its
    own Branch object; the seeded scheduler switches at store operations.  Every operation
    takes the destination's write lock for its read-modify-write, so the outcome must be the
    outcome of SOME serial order: the merge placed before, between or after B's operations -
    for the final dict, for the (updates, conflicts) the merge returned and for the
    NoSuchTag / ok outcome of each of B's calls together."""
    from breezy import errors
    from breezy.branch import Branch

    ops = plan["race"]
    a_res = {}
    b_res = []
    durl = url + f"race{rnd}"
    tb = storesim.make_branch(durl, "2a")
    tb.tags._set_tag_dict(dict(dst))
    del tb

    def open_target():
        return Branch.open(durl).tags

    def stored_state(opener):
        storesim.clear_caches()
        return dict(opener().get_tag_dict())

    def do_merge():
        r = open_source().merge_to(open_target(), overwrite=overwrite, selector=selector)
        return dict(r[0]), {tuple(c) for c in r[1]}

    def actor_a():
        try:
            a_res["ret"] = do_merge()
        except errors.LockContention:
            a_res["contention"] = True
            sim.probe("race_merge_lock_contention")

    def actor_b():
        tags = open_target()
        for _ in range(rnd % 5):
            tags.get_tag_dict()  # each round starts the second writer at another phase of the merge
        for op in ops:
            try:
                if op[0] == "read":
                    tags.get_tag_dict()
                elif op[0] == "set":
                    tags.set_tag(op[1], rv(op[2]))
                else:
                    tags.delete_tag(op[1])
                b_res.append("ok")
            except errors.NoSuchTag:
                b_res.append("NoSuchTag")
            except errors.LockContention:
                b_res.append("contention")
                sim.probe("race_writer_lock_contention")
            sim.event("B", op[0], b_res[-1])

    sim.steps = 0  # pre-emption points of the plan count from the start of the race
    an, bn = f"A{rnd}", f"B{rnd}"
    sim.spawn(an, actor_a)
    sim.spawn(bn, actor_b)
    sim.run_actors(names=[an, bn])
    for n in (an, bn):
        a = sim.actors[n]
        if a.exc is not None and not isinstance(a.exc, SimCrash):
            import traceback

            sim.fail("race", ["race", "preempt", f"{kind}:actor-raises:{type(a.exc).__name__}"], f"actor {n} failed: {type(a.exc).__name__}: {a.exc}\n" + "".join(traceback.format_exception(a.exc))[-1500:])
    # (judged by the main actor: a restarted main would be taken for a runnable actor by the next round)
    final = stored_state(open_target)
    merged = "ret" in a_res

    def serial(pos):
        cur = dict(dst)
        outcomes = []
        ret = None

        def merge():
            nonlocal cur, ret
            cur, upd, conf = reconcile(src, cur, overwrite, selector)
            ret = (upd, conf)

        for i, op in enumerate(ops):
            if merged and i == pos:
                merge()
            if b_res[i] == "contention":
                outcomes.append("contention")  # gave up: counts as not done
                continue
            if op[0] == "read":
                outcomes.append("ok")
            elif op[0] == "set":
                cur[op[1]] = rv(op[2])
                outcomes.append("ok")
            elif op[1] in cur:
                del cur[op[1]]
                outcomes.append("ok")
            else:
                outcomes.append("NoSuchTag")
        if merged and pos == len(ops):
            merge()
        return cur, ret, outcomes

    positions = range(len(ops) + 1) if merged else [0]
    witnesses = []
    for pos in positions:
        cur, ret, outcomes = serial(pos)
        if cur == final and outcomes == b_res and (not merged or (ret[0] == a_res["ret"][0] and ret[1] == a_res["ret"][1])):
            witnesses.append(pos)
    sim.event("race", merged, b_res, witnesses)
    sim.probe("race_runs")
    if sim.switches:
        sim.probe("race_interleaved")
    if not witnesses:
        # name what is wrong for the signature
        what = "no-serial-order"
        last = {}
        for i, op in enumerate(ops):
            if b_res[i] == "ok" and op[0] != "read":
                last[op[1]] = rv(op[2]) if op[0] == "set" else None
        for name, v in sorted(last.items()):
            taken_by_merge = merged and name in src and (selector is None or selector(name)) and final.get(name) == src[name]
            if v is not None and final.get(name) != v and not taken_by_merge:
                what = "acknowledged-tag-lost"
                break
            if v is None and name in final and not (merged and name in src and (selector is None or selector(name))):
                what = "acknowledged-delete-undone"
                break
        allfinals = [(pos, show(serial(pos)[0])) for pos in positions]
        sim.fail(
            "race",
            ["race", "preempt", f"{kind}:not-serializable"],
            f"[{what}] merge_to(overwrite={overwrite}, selector={plan['selector']}) of {show(src)} into {show(dst)} raced with {ops} (outcomes {b_res}); final destination {show(final)}, merge returned {a_res.get('ret')}; no placement of the merge among the second writer's operations explains this (serial results {allfinals})",
        )
    sim.nontrivial = sim.nontrivial or (len(classes) >= 1 and sim.switches >= 1 and merged)
    sim.state_seen((kind, "race", overwrite, len(ops), tuple(b_res), merged, len(witnesses)))
