"""cosim — small shared pieces of the checkout world (C01, C16, C23): working trees in a
real scratch directory whose branch / master lives on a simulated memory store.

Everything tree-shaped (model, operations, snapshots) comes from treesim; everything
store-shaped from storesim.  Here: log masking, construction of lightweight / heavyweight
checkouts with pinned root ids, fresh-object readers for oracles, a revision-graph model."""

import os
import re

from . import storesim
from . import treesim as T

COMMITTER = "Sim User <sim@example.com>"
NULL = "null:"

_EXTRA_VOLATILE = re.compile(r"(?<=-lock/)[a-z0-9]{10}(?=\.tmp)")


def mask_log(sim, root):
    """treesim.relativise_log (scratch prefix = dirname(root) -> <S>, random lock / upload
    names) + the random names of a control directory's own locks (branch-lock /
    repository-lock, taken while a checkout is created)."""
    T.relativise_log(sim, root)
    inner = sim.event
    # directories above the trees are probed when a checkout looks for a shared repository
    run_dir = os.environ.get("VERIF_SCRATCH") or "\0"
    base_dir = os.path.dirname(run_dir) if run_dir != "\0" else "\0"

    def event(*fields, vol=None):
        inner(*[_EXTRA_VOLATILE.sub("~", str(f)).replace(run_dir, "<R>").replace(base_dir, "<B>") for f in fields], vol=vol)

    sim.event = event


def diff(exp, got):
    exp, got = set(exp), set(got)
    return "missing=%r unexpected=%r" % (sorted(exp - got, key=repr)[:6], sorted(got - exp, key=repr)[:6])


def scratch(*parts):
    return os.path.join(os.environ["VERIF_SCRATCH"], *parts)


def light_checkout(branch, root, root_id=T.ROOT_ID):
    """Lightweight checkout of `branch` in directory `root` (control files through the seam)."""
    os.makedirs(root)
    wt = branch.create_checkout("sim+file://" + root, lightweight=True)
    if root_id is not None and not wt.get_parent_ids():
        with wt.lock_write():
            wt.set_root_id(root_id)
    del wt
    return T.open_tree(root, "bzr")


def heavy_checkout(master, root, root_id=T.ROOT_ID):
    """Heavyweight checkout (bound branch + repository + tree) of `master` in `root`."""
    os.makedirs(root)
    wt = master.create_checkout("sim+file://" + root, lightweight=False)
    if root_id is not None and not wt.get_parent_ids():
        # a generated root id embeds the real time
        with wt.lock_write():
            wt.set_root_id(root_id)
    del wt
    return T.open_tree(root, "bzr")


def branch_info(url):
    """(revno, tip) read by a fresh branch object."""
    storesim.clear_caches()
    b = storesim.open_branch(url)
    with b.lock_read():
        revno, tip = b.last_revision_info()
    return revno, tip.decode()


def tree_state(root, want_changes=True):
    """(parents, normalised iter_changes vs basis | None) read by a fresh tree object."""
    t = T.open_tree(root, "bzr")
    with t.lock_read():
        parents = [p.decode() for p in t.get_parent_ids()]
        ch = None
        if want_changes:
            b = t.basis_tree()
            with b.lock_read():
                ch = T.normalise_changes(list(t.iter_changes(b)), "bzr")
    return parents, ch


def break_locks(sim, branch_urls=(), roots=()):
    """What a user does after a crashed command: break-lock on everything."""
    for url in branch_urls:
        try:
            storesim.open_branch(url).break_lock()
        except Exception as e:  # noqa: BLE001
            sim.probe("break_lock_branch_raised_" + type(e).__name__)
    for root in roots:
        try:
            T.open_tree(root, "bzr").break_lock()
        except Exception as e:  # noqa: BLE001
            sim.probe("break_lock_tree_raised_" + type(e).__name__)


class Graph:
    """revid -> parents (strings; NULL is the empty history)."""

    def __init__(self):
        self.parents = {}

    def add(self, rev, parents):
        self.parents[rev] = list(parents)

    def ancestry(self, rev):
        seen, todo = set(), [rev]
        while todo:
            r = todo.pop()
            if r in (None, NULL) or r in seen:
                continue
            seen.add(r)
            todo.extend(self.parents.get(r, []))
        return seen

    def is_ancestor(self, a, b):
        """a is b or an ancestor of b (NULL is an ancestor of everything)."""
        return a in (None, NULL) or a in self.ancestry(b)

    def lefthand(self, rev):
        out = []
        while rev not in (None, NULL):
            out.append(rev)
            ps = self.parents.get(rev, [])
            rev = ps[0] if ps else NULL
        return out

    def revno(self, rev):
        return len(self.lefthand(rev))

    def heads(self, revs):
        """Order-preserving: drop duplicates and every revision that is an ancestor of
        another one in the list."""
        out = []
        for r in revs:
            if r in out:
                continue
            if any(o != r and r in self.ancestry(o) for o in revs):
                continue
            out.append(r)
        return out


# -- in-process runs: opened repositories are garbage the collector cannot free -----------
# (bound methods of the repository / pack collection are held by the Rust index and
# versioned-file objects, a cycle invisible to gc: ~30 kB per opened repository, and the
# oracles of these checks open dozens of fresh objects per run).  Every pack repository
# created by a run's thread is remembered and taken apart when the run ends.

_tracked = None


def install_repo_tracker():
    """Idempotent; called from warm().  Wraps PackRepository.__init__ to remember the
    instance in a per-thread list (no effect on behaviour)."""
    global _tracked
    if _tracked is not None:
        return
    import threading

    from breezy.bzr import pack_repo

    _tracked = threading.local()
    orig = pack_repo.PackRepository.__init__

    def __init__(self, *a, **kw):
        orig(self, *a, **kw)
        lst = getattr(_tracked, "repos", None)
        if lst is not None:
            lst.append(self)

    pack_repo.PackRepository.__init__ = __init__


def start_tracking():
    if _tracked is not None:
        _tracked.repos = []


def dispose_repos():
    """Break the cycles of every repository object this thread created since
    start_tracking(); the objects must not be used afterwards."""
    if _tracked is None:
        return
    repos = getattr(_tracked, "repos", None) or []
    _tracked.repos = None
    for r in repos:
        d = r.__dict__
        pc = d.get("_pack_collection")
        if pc is not None:
            # the combined indices (Rust objects) know each other: a cycle gc cannot see
            for name in ("revision_index", "inventory_index", "text_index", "signature_index", "chk_index"):
                agg = getattr(pc, name, None)
                ci = getattr(agg, "combined_index", None)
                if ci is not None:
                    try:
                        ci.set_sibling_indices([])
                    except Exception:  # noqa: BLE001
                        pass
        for name in ("revisions", "inventories", "texts", "signatures", "chk_bytes", "_pack_collection", "control_files"):
            o = d.get(name)
            if o is not None and hasattr(o, "__dict__"):
                for sub in list(o.__dict__.values()):
                    if hasattr(sub, "__dict__") and type(sub).__module__.startswith(("breezy.", "bzrformats")):
                        try:
                            sub.__dict__.clear()
                        except Exception:  # noqa: BLE001
                            pass
                o.__dict__.clear()
        d.clear()
    del repos[:]
