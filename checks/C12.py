"""C12 — Tree-changing commands never silently discard uncommitted work.

One run = one 2a working tree brought into a seeded state and ONE command.

World: trunk tree `t` (commits r0, sometimes r1), sibling branch `o` with the incoming
changes (line edits, deletions, renames of files and directories, additions - also at paths
where the user has an unknown file), optionally a third branch `p` that is merged into the
tree first (a "previous merge": it leaves merge-written files, and text conflicts with helper
files where the user had pre-edited the same line).  The tree under test is `t` itself
(revert, remove, merge, pull, uncommit) or a lightweight checkout of its branch (update,
switch).  Then the user edits: modified files (one line of a 6-line text), edits on top of
merge-written / conflicted files, added (versioned) files, unknown files, renamed + edited
files, chmod.

Commands (seeded options): tree.revert(paths | None, backups), tree.remove(paths, keep_files,
force), merge from the sibling (Merger.from_revision_ids + do_merge), tree.update() after the
branch moved, switch.switch(controldir, sibling branch), tree.pull(sibling branch),
uncommit(branch, tree=tree).

Oracle (conservation): U = every regular file of the tree whose content is neither a text of
the basis revision nor something the previous merge wrote.  After the command every u in U
that the user did not ask to discard must be found byte-identical in SOME file of the tree
(its own path, a backup name.~N~, a .THIS / .moved helper, a renamed directory) - or, for the
merge-like commands, some file holds exactly merge3(base text, u, incoming text) of that file
id and that merge is clean.  What the user asked to discard: revert(backups=False) and
remove(force=True) for the selected paths - everything outside the selection must then still
be kept; remove(keep_files=True) and uncommit change no file at all (uncommit:
also lstat-identical).  A refused command (BzrError) must leave every u in place."""

import hashlib
import json
import os
import posixpath

from . import mergesim as M
from . import treesim as T

PROPERTY = "C12"
LEVEL = "exploration"
RULE = (
    "one case = one (tree state, command + options + selection) execution; non-trivial = U holds >= 2 files of >= 2 categories "
    "(modified / added / unknown / edited-after-merge / renamed) and the command changed the tree or was uncommit / remove --keep; "
    "distinct = distinct event-log digests of such runs"
)
COMPONENTS = {
    "real": [
        "breezy.transform.revert / _alter_files / _available_backup_name, breezy.workingtree.WorkingTree.revert (+ resolve)",
        "breezy.bzr.workingtree.InventoryWorkingTree.remove, update / _update_tree, pull; breezy.switch.switch; breezy.uncommit.uncommit",
        "breezy.merge.Merger / Merge3Merger / merge_inner, conflict helpers (.THIS/.BASE/.OTHER, .moved), merge-hashes (set_merge_modified / merge_modified)",
        "2a/dirstate working trees on a real /dev/shm directory, lightweight checkouts, three branches with their own repositories",
    ],
    "simulated": ["the user's edits (seeded)", "process restart between set-up, command and inspection (WorkingTree.open)"],
    "stub": ["UI (SilentUIFactory)", "user identity / BRZ_HOME (scratch)"],
}
ASSUMPTIONS = [
    "user-edited content = regular files only (symlink targets and directories carry no content to lose); U is computed from contents: a file belongs to U unless its bytes equal a text of the basis revision or a file the previous merge created / rewrote (the model's merge_modified: snapshot difference around the previous merge) - so the .THIS helper of an earlier conflict, although it holds the user's earlier bytes, is merge-written and not in U",
    "'kept' = byte-identical content in some regular file below the tree root after the command, wherever it is (contents are unique per edit, so a match is the user's file); 'clean three-way merge' = merge3 package on (text of the file id in the command's base revision, u, text in the incoming revision) without conflict regions",
    "revert(backups=False) and remove(force=True) are explicit requests to discard the selected paths: nothing is demanded for files inside the selection, a path selects the file or directory that has it now or had it in the basis (selection is by file id), and a selected directory selects what it holds today; everything outside must be kept (byte-identical somewhere in the tree: reverting a selected file back into a directory that a merge had renamed takes the directory, and the unselected files in it, along; files renamed by the user are left out)",
    "a command that raises a BzrError has refused: U must then be intact in place; any other exception is a violation of its own",
    "guard remove_unknown_at_basis_path (reported defect): remove(keep_files=False, force=False) is not run when the selection holds an unknown file whose path the basis still versions (unversioned by a merge or remove --keep, then re-created by the user): the filtered iter_changes does not report it (C10 finding bzr_filter_unversioned_at_removed) and InventoryWorkingTree.remove deletes it; lifted in half of the runs once known_findings.json has an open entry [C12, known-defect, remove_unknown_at_basis_path], or with VERIF_UNGUARDED=1",
    "guard contents_conflict_THIS (reported defect): after a contents conflict (local edit vs. deletion) the versioned <path>.THIS holds the user's text and nothing else does, but Merge3Merger.write_modified recorded its hash as merge-written, so revert deletes it without backup; by the letter of the property (written by a previous merge) it is not in U; runs that lift the guard (half of them once known_findings.json has an open entry [C12, known-defect, contents_conflict_THIS], or VERIF_UNGUARDED=1) count it and report its loss under that signature.  A further user edit of <path>.THIS puts it into U in every run",
    "a regular file typed over a versioned symlink or empty versioned directory (kind changed on disk) is user content like any other",
    "only 2a trees (the property's mechanisms - numbered backups, merge-hashes, remove's safety - are the bzr ones); no fault injection here: a failing transform is C13's property (open findings there would resurface under this id)",
    "uncommit: every file below the tree root byte-identical and lstat-identical (mode, size, mtime_ns, inode); control files are not compared",
    "runs execute in-process (ISOLATION=thread): each run builds all branches, trees and the Sim from scratch",
]
STEP_CAP = 600000
ISOLATION = "thread"

# states that run into defects already reported; see ASSUMPTIONS
GUARDS = ("remove_unknown_at_basis_path", "contents_conflict_THIS")
FIXED_REMOVE_UNKNOWN = True  # /repo c7126b4: the guarded territory is explored in every run now
P_UNGUARDED = float(os.environ.get("VERIF_UNGUARDED", "0") or 0)
P_LIFT = 0.5  # the state is rare: lift often once the finding is registered
NLINES = 6
CMDS = ["revert", "revert", "revert", "remove", "remove", "merge", "merge", "update", "switch", "pull", "uncommit"]
FILES = ["a", "b", "c", "d/a", "d/b", "d/e/a", "e"]


def warm():
    if not M.base_warm():
        return
    base = {"files": ["a", "b", "d/a", "d/b"], "r1": True}
    incoming = [["edit", "a", 4, 30], ["delete", "b"], ["rename", "d/a", "d/z"], ["add", "n", 31], ["rename", "d", "k"]]
    previous = {"pre": [["edit", "a", 0, 20]], "ops": [["edit", "a", 0, 21], ["edit", "d/b", 5, 22]]}
    user = [["edit", "a", 1, 40], ["new", "n", 41, False], ["new", "d/q", 42, True], ["edit", "d/b", 2, 43], ["rename", "b", "bb"], ["edit", "bb", 1, 44], ["chmod", "a", True]]
    plans = []
    for cmd in (
        {"c": "revert", "paths": None, "backups": True},
        {"c": "revert", "paths": ["a", "d"], "backups": False},
        {"c": "remove", "paths": ["d", "a"], "keep": False, "force": False},
        {"c": "remove", "paths": ["a"], "keep": True, "force": False},
        {"c": "merge"},
        {"c": "update"},
        {"c": "switch"},
        {"c": "pull"},
        {"c": "uncommit"},
    ):
        plans.append({"base": base, "incoming": incoming, "previous": previous if cmd["c"] not in ("switch",) else None, "user": user, "cmd": cmd})
    M.dry_runs(execute, plans)


def config(tier):
    if tier == "thorough":
        return {"budget_s": 700, "run_timeout": 180, "selftest": 48, "workers": 8}
    return {"budget_s": 50, "run_timeout": 180, "selftest": 24, "workers": 8}


# -- texts -----------------------------------------------------------------------------------------


def line(name, k, n):
    return ("%s:%d:%d:%s\n" % (name, k, n, "#" * n)).encode("utf-8")


def base_lines(name):
    return [line(name, k, 0) for k in range(NLINES)]


def new_text(name, n):
    return b"".join(line("new-" + name, k, n) for k in range(3))


class Side:
    """Pure model of one branch's files: path -> [file id, lines] (+ directories)."""

    def __init__(self, files=None, dirs=None):
        self.files = {p: [v[0], list(v[1])] for p, v in (files or {}).items()}
        self.dirs = set(dirs or ())

    def copy(self):
        return Side(self.files, self.dirs)

    def texts(self):
        return {v[0]: b"".join(v[1]) for v in self.files.values()}

    def ok(self, op):
        k = op[0]
        if k == "edit":
            return op[1] in self.files and op[2] < len(self.files[op[1]][1])
        if k == "delete":
            return op[1] in self.files
        if k == "rename":
            src, dst = op[1], op[2]
            if dst in self.files or dst in self.dirs or T.inside(src, dst):
                return False
            if T.parent(dst) and T.parent(dst) not in self.dirs:
                return False
            return src in self.files or src in self.dirs
        if k == "add":
            p = op[1]
            return p not in self.files and p not in self.dirs and (not T.parent(p) or T.parent(p) in self.dirs)
        return False

    def apply(self, op):
        k = op[0]
        if k == "edit":
            f = self.files[op[1]]
            f[1][op[2]] = line(f[0], op[2], op[3])
        elif k == "delete":
            del self.files[op[1]]
        elif k == "rename":
            src, dst = op[1], op[2]
            for q in list(self.files):
                if T.inside(src, q):
                    self.files[dst + q[len(src) :]] = self.files.pop(q)
            for q in list(self.dirs):
                if T.inside(src, q):
                    self.dirs.discard(q)
                    self.dirs.add(dst + q[len(src) :])
        elif k == "add":
            self.files[op[1]] = ["new-%d" % op[2], [line("new-" + op[1], j, op[2]) for j in range(3)]]


def initial_side(files):
    s = Side()
    for p in files:
        for a in reversed([a for a in T.ancestors(p) if a]):
            s.dirs.add(a)
        s.files[p] = ["id-" + p.replace("/", "_"), base_lines("id-" + p.replace("/", "_"))]
    return s


# -- generation ------------------------------------------------------------------------------------


def gen_branch_ops(rng, side, n, counter, lines, names):
    ops = []
    tries = 0
    while len(ops) < n and tries < 40:
        tries += 1
        kind = rng.choice(["edit", "edit", "edit", "delete", "rename", "rename_dir", "add", "add"])
        files = sorted(side.files)
        counter[0] += 1
        k = counter[0]
        if kind == "edit" and files:
            op = ["edit", rng.choice(files), rng.choice(lines), k]
        elif kind == "delete" and files:
            op = ["delete", rng.choice(files)]
        elif kind == "rename" and files:
            src = rng.choice(files)
            d = rng.choice(sorted(side.dirs | {""}))
            op = ["rename", src, (d + "/" if d else "") + rng.choice(names)]
        elif kind == "rename_dir" and side.dirs:
            src = rng.choice(sorted(side.dirs))
            op = ["rename", src, rng.choice(["k", "m", "d2"])]
        elif kind == "add":
            d = rng.choice(sorted(side.dirs | {""}))
            op = ["add", (d + "/" if d else "") + rng.choice(names), k]
        else:
            continue
        if side.ok(op):
            side.apply(op)
            ops.append(op)
    return ops


def generate(rng, tier):
    counter = [10]
    files = sorted(rng.sample(FILES, rng.randint(2, 5)))
    base = {"files": files, "r1": rng.random() < 0.5, "extras": True}
    trunk = initial_side(files)
    names = ["n", "u", "x", "a", "b"]
    o = trunk.copy()
    incoming = gen_branch_ops(rng, o, rng.randint(1, 5), counter, [3, 4, 5, 5, 4, rng.choice([0, 1, 2])], names)
    cmd_name = rng.choice(CMDS)
    previous = None
    if rng.random() < 0.45 and cmd_name != "switch":
        pside = trunk.copy()
        pops = gen_branch_ops(rng, pside, rng.randint(1, 3), counter, [0, 1, 2, 3, 4, 5], names)
        pre = []
        this_helpers = []
        for op in pops:
            if op[0] == "edit" and rng.random() < 0.6 and op[1] in trunk.files:
                counter[0] += 1
                pre.append(["edit", op[1], op[2] if rng.random() < 0.7 else rng.choice([0, 1, 2]), counter[0]])
            elif op[0] == "delete" and rng.random() < 0.7 and op[1] in trunk.files:
                # local edit of a file the merged branch deleted: contents conflict, <path>.THIS
                counter[0] += 1
                pre.append(["edit", op[1], rng.choice([0, 1, 2]), counter[0]])
                this_helpers.append(op[1] + ".THIS")
        previous = {"pre": pre, "ops": pops}
        if cmd_name in ("revert", "revert", "remove", "merge", "uncommit") and rng.random() < 0.4:
            # the earlier command was a pull (the basis moves: a contents conflict's <path>.THIS
            # is then a file the new basis does not know)
            previous["how"] = "pull"
    # the user's edits: paths are drawn from what may exist; execution skips what does not
    user = []
    pool = sorted(set(trunk.files) | (set(pside.files) if previous else set()))
    if previous:
        pool = sorted(set(pool) | set(this_helpers))
        for q in this_helpers:
            if rng.random() < 0.6:
                counter[0] += 1
                user.append(["edit", q, rng.choice([0, 1, 2]), counter[0]])
    for _ in range(rng.randint(1, 6)):
        counter[0] += 1
        k = counter[0]
        kind = rng.choice(["edit", "edit", "edit", "new_unknown", "new_added", "rename", "chmod", "collide", "recreate", "over"])
        if kind == "over":
            # the user typed a regular file over a versioned symlink / (empty) directory
            user.append(["over", rng.choice(["ln", "zd"]), k])
        elif kind == "edit" and pool:
            user.append(["edit", rng.choice(pool), rng.choice([0, 1, 2, 2, 1, rng.choice([3, 4, 5])]), k])
        elif kind in ("new_unknown", "new_added"):
            d = rng.choice(sorted(trunk.dirs | {""}))
            user.append(["new", (d + "/" if d else "") + rng.choice(names), k, kind == "new_added"])
        elif kind == "collide":
            adds = [op[1] for op in incoming if op[0] == "add"]
            if adds:
                user.append(["new", rng.choice(adds), k, rng.random() < 0.3])
        elif kind == "recreate":
            # a new (unknown) file where the previous merge deleted a versioned one
            gone = [op[1] for op in previous["ops"] if op[0] == "delete"] if previous else []
            if gone:
                user.append(["new", rng.choice(gone), k, False])
        elif kind == "rename" and pool:
            src = rng.choice(pool)
            user.append(["rename", src, src + "-r"])
            pool = [p if p != src else src + "-r" for p in pool]
        elif kind == "chmod" and pool:
            user.append(["chmod", rng.choice(pool), True])
    sel_pool = sorted(set(pool) | set(trunk.dirs) | {op[1] for op in user if op[0] in ("new", "over")})
    if cmd_name == "revert":
        paths = None if rng.random() < 0.4 else sorted(rng.sample(sel_pool, min(len(sel_pool), rng.randint(1, 3))))
        cmd = {"c": "revert", "paths": paths, "backups": rng.random() < 0.6}
    elif cmd_name == "remove":
        keep = rng.random() < 0.25
        cmd = {"c": "remove", "paths": sorted(rng.sample(sel_pool, min(len(sel_pool), rng.randint(1, 3)))), "keep": keep, "force": (not keep) and rng.random() < 0.35}
    else:
        cmd = {"c": cmd_name}
    plan = {"base": base, "incoming": incoming, "previous": previous, "user": user, "cmd": cmd}
    x = rng.random()
    unguarded = list(GUARDS) if x < P_UNGUARDED else (M.lifted_guards(PROPERTY, GUARDS) if x < P_LIFT else [])
    if unguarded:
        plan["unguarded"] = unguarded
    return plan


def shrink_candidates(plan):
    import copy

    for key in ("user", "incoming"):
        ops = plan[key]
        for i in range(len(ops)):
            p = copy.deepcopy(plan)
            del p[key][i]
            yield p
    if plan.get("previous"):
        p = copy.deepcopy(plan)
        p["previous"] = None
        yield p
        for key in ("pre", "ops"):
            for i in range(len(plan["previous"][key])):
                p = copy.deepcopy(plan)
                del p["previous"][key][i]
                yield p
    if plan["base"].get("r1"):
        p = copy.deepcopy(plan)
        p["base"]["r1"] = False
        yield p
    for i in range(len(plan["base"]["files"])):
        if len(plan["base"]["files"]) > 1:
            p = copy.deepcopy(plan)
            del p["base"]["files"][i]
            yield p
    paths = plan["cmd"].get("paths")
    if paths and len(paths) > 1:
        for i in range(len(paths)):
            p = copy.deepcopy(plan)
            del p["cmd"]["paths"][i]
            yield p


# -- execution -------------------------------------------------------------------------------------


def _h(obj):
    return hashlib.sha1(repr(obj).encode("utf-8", "replace")).hexdigest()[:12]


def files_of(root, stat=False):
    """path -> bytes (or (bytes, lstat facts)) of every regular file below root, control dir excluded."""
    out = {}
    for dirpath, dirnames, filenames in os.walk(root):
        rel = os.path.relpath(dirpath, root)
        rel = "" if rel == "." else rel.replace(os.sep, "/")
        if rel == "":
            dirnames[:] = [d for d in dirnames if d != ".bzr"]
        dirnames.sort()
        for name in sorted(filenames):
            full = os.path.join(dirpath, name)
            if os.path.islink(full) or not os.path.isfile(full):
                continue
            p = rel + "/" + name if rel else name
            with open(full, "rb") as f:
                data = f.read()
            if stat:
                st = os.lstat(full)
                out[p] = (data, (st.st_mode, st.st_size, st.st_mtime_ns, st.st_ino))
            else:
                out[p] = data
    return out


def apply_branch_ops(tree, side, ops):
    """Apply model-approved branch ops to a real tree (and the Side)."""
    root = tree._sim_root
    for op in ops:
        if not side.ok(op):
            continue
        k = op[0]
        if k == "edit":
            side.apply(op)
            M.write_file(root, op[1], b"".join(side.files[op[1]][1]))
            continue
        if k == "delete":
            tree.remove([op[1]], keep_files=False, force=True)
        elif k == "rename":
            tree.rename_one(op[1], op[2])
        elif k == "add":
            M.write_file(root, op[1], new_text(op[1], op[2]))
            tree.add([op[1]], ids=[("new-%d" % op[2]).encode()])
        side.apply(op)


def execute(sim, plan):
    warm()
    M.begin(sim)
    from breezy import errors, switch
    from breezy.uncommit import uncommit

    cmd = plan["cmd"]
    c = cmd["c"]
    sig_opts = [c]
    if c == "revert":
        sig_opts.append("backups" if cmd["backups"] else "no-backups")
    if c == "remove":
        sig_opts.append("keep" if cmd["keep"] else "force" if cmd["force"] else "safe")

    def fail(tag, rest, detail):
        sim.fail(tag, ["C12", tag] + sig_opts + list(rest), detail + "\nplan: " + json.dumps(plan, sort_keys=True))

    # -- trunk
    t = T.make_tree(sim, "bzr", "t")
    troot = t._sim_root
    trunk = initial_side(plan["base"]["files"])
    for dpath in sorted(trunk.dirs):
        t.mkdir(dpath, ("dir-" + dpath.replace("/", "_")).encode())
    for p, (fid, lines) in sorted(trunk.files.items()):
        M.write_file(troot, p, b"".join(lines))
        t.add([p], ids=[fid.encode()])
    if plan["base"].get("extras"):
        os.symlink("nowhere", os.path.join(troot, "ln"))
        t.add(["ln"], ids=[b"ln-id"])
        t.mkdir("zd", b"zd-id")
    M.commit(t, "r0", 0)
    if plan["base"].get("r1"):
        first = sorted(trunk.files)[0]
        apply_branch_ops(t, trunk, [["edit", first, 5, 5]])
        M.commit(t, "r1", 1)
    # -- siblings
    o = M.sprout(t, "o")
    oside = trunk.copy()
    apply_branch_ops(o, oside, plan["incoming"])
    M.commit(o, "in1", 2)
    in_rev = o.last_revision()
    prev = plan.get("previous")
    if prev:
        p_ = M.sprout(t, "p")
        pside = trunk.copy()
        apply_branch_ops(p_, pside, prev["ops"])
        M.commit(p_, "p1", 3)
    # -- the tree under test
    if c in ("update", "switch"):
        croot = os.path.join(os.environ["VERIF_SCRATCH"], "c")
        t.branch.create_checkout(croot, lightweight=True)
        w = T.open_tree(croot, "bzr")
    else:
        w = t
    root = w._sim_root
    wside = trunk.copy()  # what the user sees (only used to render edits)
    merge_written = set()
    user_written = set()  # bytes the user typed before the previous merge
    if prev:
        for op in prev["pre"]:
            if wside.ok(op):
                wside.apply(op)
                M.write_file(root, op[1], b"".join(wside.files[op[1]][1]))
                user_written.add(b"".join(wside.files[op[1]][1]))
        before_prev = files_of(root)
        try:
            if prev.get("how") == "pull" and w is t:
                w.pull(p_.branch)
            else:
                M.do_merge(w, p_.last_revision(), p_.branch, "merge3")
        except errors.BzrError as e:
            sim.event("previous-merge-refused", type(e).__name__)
        w = T.reopen(w)
        after_prev = files_of(root)
        merge_written = {d for q, d in after_prev.items() if before_prev.get(q) != d}
        sim.probe("previous_merge")
        if w.conflicts():
            sim.probe("previous_merge_conflicted")
    # -- the user's edits (on whatever is there now)
    cats = set()
    renamed = set()
    n_user = 0
    for op in plan["user"]:
        k = op[0]
        full = os.path.join(root, op[1])
        if k == "edit":
            if not os.path.isfile(full) or os.path.islink(full):
                continue
            with open(full, "rb") as f:
                lines = f.read().splitlines(True)
            if not lines:
                continue
            was_merge = b"".join(lines) in merge_written
            i = min(op[2], len(lines) - 1)
            lines[i] = line("user-" + op[1], i, op[3])
            M.write_file(root, op[1], b"".join(lines))
            cats.add("edited-after-merge" if was_merge else "renamed" if op[1] in renamed else "modified")
        elif k == "new":
            if os.path.lexists(full) or not os.path.isdir(os.path.dirname(full)):
                continue
            M.write_file(root, op[1], new_text("user-" + op[1], op[2]))
            if op[3]:
                try:
                    w.add([op[1]], ids=[("user-%d" % op[2]).encode()])
                    cats.add("added")
                except errors.BzrError:
                    cats.add("unknown")
            else:
                cats.add("unknown")
        elif k == "rename":
            if not os.path.isfile(full) or os.path.lexists(os.path.join(root, op[2])) or not w.is_versioned(op[1]):
                continue
            try:
                w.rename_one(op[1], op[2])
                renamed.add(op[2])
            except errors.BzrError:
                continue
        elif k == "over":
            if os.path.islink(full):
                os.unlink(full)
            elif os.path.isdir(full) and not os.listdir(full):
                os.rmdir(full)
            else:
                continue
            M.write_file(root, op[1], new_text("user-over-" + op[1], op[2]))
            cats.add("kind-changed")
        elif k == "chmod":
            if os.path.isfile(full) and not os.path.islink(full):
                os.chmod(full, 0o755)
        n_user += 1
        sim.event("user", json.dumps(op))
    # -- the branch moves (update): trunk pulls the incoming revision
    if c == "update":
        t.pull(o.branch)
    w = T.reopen(w)
    # -- U
    with w.lock_read():
        basis = w.basis_tree()
        with basis.lock_read():
            basis_texts = {basis.get_file_text(q) for q, e in basis.iter_entries_by_dir() if e.kind == "file"}
        ids = {}
        basis_path = {}
        dir_basis_path = {}
        for q in files_of(root):
            try:
                ids[q] = w.path2id(q)
            except errors.BzrError:
                ids[q] = None
            if ids[q] is not None:
                try:
                    basis_path[q] = basis.id2path(ids[q])
                except Exception:  # noqa: BLE001 - NoSuchId (not a BzrError): not in the basis
                    pass
            # the basis paths of the directories the file lives in now: naming one of those
            # selects that directory (by file id) and with it what it holds today
            for a in T.ancestors(q):
                if a and a not in dir_basis_path:
                    dir_basis_path[a] = None
                    try:
                        aid = w.path2id(a)
                        if aid is not None:
                            dir_basis_path[a] = basis.id2path(aid)
                    except Exception:  # noqa: BLE001
                        pass
        with basis.lock_read():
            basis_versioned = {q for q in ids if ids[q] is None and basis.is_versioned(q)}
    before = files_of(root, stat=(c == "uncommit"))
    # guard remove_unknown_at_basis_path: remove without force of an unknown file that sits at a path
    # the basis still versions (the entry was unversioned by a merge or by remove --keep)
    risky = set()
    if c == "remove" and not cmd["keep"] and not cmd["force"]:
        risky = {q for q in basis_versioned if any(T.inside(s_, q) for s_ in cmd["paths"])}
    if risky:
        sim.probe("remove_of_unknown_at_basis_path")  # the defect found here was fixed in /repo c7126b4: always explored
    if risky and not FIXED_REMOVE_UNKNOWN and "remove_unknown_at_basis_path" not in plan.get("unguarded", ()):
        sim.probe("guarded_remove_unknown_at_basis_path")
        sim.event("guarded", "remove_unknown_at_basis_path")
        return
    plain_before = {q: (v[0] if c == "uncommit" else v) for q, v in before.items()}
    U = {q: d for q, d in plain_before.items() if d not in basis_texts and d not in merge_written}
    # guard contents_conflict_THIS (reported defect): <path>.THIS of a contents conflict is the
    # versioned file that holds the user's text - its ONLY copy - yet the merge recorded its hash
    # as merge-written, so it is not in U by the letter of the property; lifted runs count it
    this_only = {}
    if "contents_conflict_THIS" in plan.get("unguarded", ()):
        this_only = {q: d for q, d in plain_before.items() if q.endswith(".THIS") and ids.get(q) is not None and d in user_written and q not in U}
        U.update(this_only)
    sim.event("U", len(U), _h(sorted(U.items())))
    base_texts = trunk.texts()
    other_texts = oside.texts()
    # -- the command
    raised = None
    try:
        if c == "revert":
            w.revert(cmd["paths"], backups=cmd["backups"])
        elif c == "remove":
            w.remove(list(cmd["paths"]), keep_files=cmd["keep"], force=cmd["force"])
        elif c == "merge":
            M.do_merge(w, in_rev, o.branch, "merge3")
        elif c == "update":
            w.update()
        elif c == "switch":
            switch.switch(w.controldir, o.branch, quiet=True)
        elif c == "pull":
            w.pull(o.branch)
        elif c == "uncommit":
            uncommit(w.branch, tree=w)
        else:
            raise KeyError(c)
    except errors.BzrError as e:
        raised = e
    except Exception as e:  # noqa: BLE001 - not a refusal
        import traceback

        tb = "".join(traceback.format_exception(type(e), e, e.__traceback__)[-6:])
        fail("command_raised", [type(e).__name__], "%s raised %r\n%s" % (json.dumps(cmd), e, tb))
    sim.event("cmd", json.dumps(cmd, sort_keys=True), type(raised).__name__ if raised else "ok")
    after = files_of(root, stat=(c == "uncommit"))
    plain_after = {q: (v[0] if c == "uncommit" else v) for q, v in after.items()}
    contents_after = set(plain_after.values())
    changed = plain_after != plain_before

    def in_place(q):
        return plain_after.get(q) == U[q]

    def kept(q):
        return U[q] in contents_after

    def where(q):
        for r, d in sorted(plain_after.items()):
            if d == U[q]:
                if r == q:
                    return "in_place"
                if r.endswith("~"):
                    return "backup"
                if r.endswith((".THIS", ".OTHER", ".BASE")):
                    return "helper"
                if ".moved" in r:
                    return "moved"
                return "elsewhere"
        return None

    def clean_merge(q):
        fid = ids.get(q)
        if fid is None:
            return None
        fid = fid.decode("utf-8", "replace")
        if fid not in base_texts or fid not in other_texts:
            return None
        text, conflict = M.ref_merge3(base_texts[fid], U[q], other_texts[fid])
        return None if conflict else text

    selection = cmd.get("paths")

    def selected(q):
        # a path selects the file that has it now and the file that had it in the basis
        if selection is None:
            return True
        for s in selection:
            if T.inside(s, q) or (q in basis_path and T.inside(s, basis_path[q])):
                return True
            if any(dir_basis_path.get(a) is not None and T.inside(s, dir_basis_path[a]) for a in T.ancestors(q) if a):
                return True
        return False

    if raised is not None:
        sim.probe("refused_" + type(raised).__name__)
        for q in sorted(U):
            if not in_place(q):
                fail("lost_by_refused_command", [type(raised).__name__], "%s refused (%r) but %r is no longer in place (%s)" % (json.dumps(cmd), raised, q, where(q) or "gone"))
    elif c == "uncommit":
        if after != before:
            diff = [q for q in sorted(set(before) | set(after)) if before.get(q) != after.get(q)]
            fail("uncommit_touched_files", [], "uncommit changed %r" % (diff[:5],))
    elif c == "remove" and cmd["keep"]:
        if plain_after != plain_before:
            diff = [q for q in sorted(set(plain_before) | set(plain_after)) if plain_before.get(q) != plain_after.get(q)]
            fail("remove_keep_touched_files", [], "remove(keep_files=True) changed %r" % (diff[:5],))
    else:
        discard = (c == "revert" and not cmd["backups"]) or (c == "remove" and cmd["force"])
        for q in sorted(U):
            if discard:
                if selected(q) or q in renamed:
                    continue
                if not kept(q):
                    fail("unselected_file_lost", [], "%r is outside the selection %r but its content is gone" % (q, selection))
                sim.probe("unselected_kept_" + where(q))
                continue
            if kept(q):
                sim.probe("kept_" + where(q))
                continue
            if c in ("merge", "update", "switch", "pull"):
                m = clean_merge(q)
                if m is not None and m in contents_after:
                    sim.probe("kept_clean_merge")
                    continue
            kind = "unknown" if ids.get(q) is None else "versioned"
            if q in this_only:
                sim.fail("content_lost", ["C12", "known-defect", "contents_conflict_THIS"], "[content_lost, in the territory of contents_conflict_THIS] %s destroyed %r, the only copy of the user's text after a contents conflict\nplan: %s" % (json.dumps(cmd), q, json.dumps(plan, sort_keys=True)))
            if q in risky:
                sim.fail("content_lost", ["C12", "known-defect", "remove_unknown_at_basis_path"], "[content_lost, in the territory of remove_unknown_at_basis_path] %s deleted the unknown file %r (its path is still versioned in the basis)\nplan: %s" % (json.dumps(cmd), q, json.dumps(plan, sort_keys=True)))
            fail("content_lost", [kind], "%s destroyed the content of %r (%s; not found in any file of the tree afterwards%s)\nfiles before: %r\nfiles after: %r" % (json.dumps(cmd), q, kind, ", nor its clean merge" if c in ("merge", "update", "switch", "pull") else "", sorted(plain_before), sorted(plain_after)))
    sim.state_seen((c, tuple(sorted(cats)), len(U), bool(prev), raised is None))
    sim.nontrivial = bool(len(U) >= 2 and len(cats) >= 2 and (changed or c == "uncommit" or (c == "remove" and cmd.get("keep"))))
