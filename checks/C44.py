"""C44 — fast-export followed by fast-import preserves history.

One run = one generated history (merges, renames, swaps, deletes, kind changes, symlinks,
exec changes, binary content, odd path names, tags) committed through a real working
tree, exported with `BzrFastExporter` under a per-run option set, the stream fed to
`fastimport.parser.ImportParser` through a buffered reader whose raw layer returns seeded
short reads, and imported by `GenericProcessor` into an EMPTY 2a branch whose control
files sit behind the storage seam.  The oracle compares the source repository (as read
through breezy) with the target, revision by revision, through the mark maps of both
sides."""

import hashlib
import io
import json
import os
import re

from simkit import world
from simkit.sim import Violation

from . import histsim, storesim
from .histsim import DIR, FILE, LINK

PROPERTY = "C44"
LEVEL = "exploration"
ISOLATION = "fork"
STEP_CAP = 200000
RULE = (
    "one case = one seeded (history, tag set, exporter options plain|rewrite_tags|no_tags|baseline|checkpoint|marks "
    "file, importer options prune_empty_dirs|working tree, read-chunking) export->import round trip; non-trivial = the "
    "history has >= 3 revisions and at least one of {merge, rename, delete, symlink, exec change, kind change}; "
    "distinct = distinct event-log digests (store op trace of the import + stream hash + verdict summary)"
)
COMPONENTS = {
    "real": [
        "breezy.plugins.fastimport.exporter.BzrFastExporter (run, emit_commits, _get_filecommands, _process_renames_and_deletes, emit_tags, marks)",
        "python-fastimport parser.ImportParser on the produced bytes",
        "breezy.plugins.fastimport.processors.generic_processor.GenericProcessor, bzr_commit_handler.CommitHandler, revision_store.RevisionStore, branch_updater, cache_manager, idmapfile, marks_file",
        "breezy commit through WorkingTree (source history), 2a repository code on both sides",
    ],
    "simulated": ["disk of the target control directory (SimTransport over the local transport)", "input stream chunking (raw reader with seeded short reads under io.BufferedReader)"],
    "stub": ["UI (silent)", "time-of-day part of generated file ids replaced by a counter (determinism pin)"],
}
ASSUMPTIONS = [
    "timestamps are whole seconds and timezones whole minutes (the fast-import format cannot express more)",
    "directories holding no file or symlink are outside the comparison: the plain stream format has no directory entries, the exporter deliberately skips renames of empty directories and the importer prunes emptied directories by default",
    "file ids and revision ids are not preserved by design; revisions correspond through exporter marks and the importer's id map",
    "with plain_format tags whose names git rejects are expected to be skipped, or exported under the sanitised name with rewrite_tags; tags on revisions outside the exported ancestry are not expected",
    "baseline export is only generated when every exported revision has all its parents inside the exported set (the exporter documents the other case as unsupported)",
    "no faults are injected: the property is a round-trip statement",
]

TAG_NAMES = ["v1", "rel-1.0", "deep/name", "ümlaut", "with space", "dot..dot", "tilde~1", "end.lock", "q?mark"]
# outcome of `git check-ref-format refs/tags/<name>` and of the exporter's documented rewriting
GIT_INVALID = {"with space": "with_space", "dot..dot": "dot_dot", "tilde~1": "tilde_1", "end.lock": "end_", "q?mark": "q_mark"}


GUARDED = {
    # exporter: a swap a<->b is written as "R a b", "R b a"; executed in order this loses b
    "swap": "both formats",
    # exporter, plain format: a file or symlink whose path becomes an (empty) directory is not
    # deleted from the stream; the importer later fails with InconsistentDelta when files are
    # added below it
    "plain_retype_to_dir": "plain format",
    # exporter, plain format: the rename of a directory that has children is not written at all
    # (children are looked up with iter_entries_by_dir(specific_files=[dir]), which yields only
    # the directory); extended format: "R dir new" followed by "M new/child" in the same commit
    # makes the importer add the child a second time (InconsistentDelta)
    "rename_full_dir": "both formats",
}


def warm():
    storesim.warm()
    import fastimport.parser  # noqa: F401
    import fastimport.processor  # noqa: F401

    import breezy.plugins.fastimport  # noqa: F401
    import breezy.plugins.fastimport.exporter  # noqa: F401
    import breezy.plugins.fastimport.processors.generic_processor  # noqa: F401
    from breezy.plugins.fastimport import bzr_commit_handler, revision_store  # noqa: F401
    from simkit.sim import Sim

    def dry(i, plain):
        import random

        rng = random.Random(5 + i)
        plan = generate(rng, "quick")
        plan["cfg"].update(plain=plain, with_tree=True, marks=True)
        sim = Sim(0, plan, step_cap=STEP_CAP)
        try:
            execute(sim, plan)
        except Violation:
            pass

    for i, plain in enumerate((True, False)):
        histsim.warm_scratch(lambda i=i, plain=plain: dry(i, plain))
    world.reset_stores()


def config(tier):
    if tier == "thorough":
        return {"budget_s": 700, "run_timeout": 180, "selftest": 12}
    return {"budget_s": 50, "run_timeout": 180, "selftest": 6}


def generate(rng, tier):
    plain = rng.random() < 0.55
    # Guards: feature classes that run into divergences already reported for the code under
    # test (see GUARDED).  A guarded run stays out of them so that the rest of the space is
    # explored; each guard is lifted in a fraction of the runs, which then reproduce the
    # finding under its own signature.
    lifted = sorted(g for g in GUARDED if rng.random() < 0.07)
    opts = {
        "odd_names": rng.random() < 0.3,
        "binary": rng.random() < 0.8,
        "retype": rng.random() < 0.7,
        "swap": "swap" in lifted,
        "retype_to_dir": (not plain) or "plain_retype_to_dir" in lifted,
        "rename_full_dirs": "rename_full_dir" in lifted,
        "props": rng.random() < 0.3,
        "authors": rng.random() < 0.3,
    }
    force = json.loads(os.environ.get("C44_FORCE", "{}"))  # triage aid; empty in normal runs
    opts.update(force.get("opts", {}))
    n = rng.choice([2, 3, 4, 5, 6, 8, 10]) if tier != "thorough" else rng.choice([2, 4, 6, 9, 12, 16])
    mh, specs = histsim.gen_history(rng, n, opts)
    tip = f"m-{n}"
    anc = sorted(mh.ancestry(tip))
    tags = {}
    for name in rng.sample(TAG_NAMES, rng.choice([0, 1, 2, 3, 5])):
        tags[name] = rng.choice(anc)
    if rng.random() < 0.15:
        outside = sorted(set(mh.revs) - set(anc))
        if outside:
            tags["unmerged"] = rng.choice(outside)
    cfg = {
        "plain": plain,
        "lifted": lifted,
        "rewrite_tags": rng.random() < 0.5,
        "no_tags": rng.random() < 0.15,
        "baseline": None,
        "checkpoint": rng.choice([-1, -1, 1, 2, 3]),
        "marks": rng.random() < 0.5,
        "prune": rng.random() < 0.6,
        "with_tree": rng.random() < 0.4,
        "src_fmt": rng.choice(["2a", "2a", "pack-0.92", "1.14-rich-root"]),
        "chunk_seed": rng.randrange(1 << 30),
        "bufsize": rng.choice([16, 64, 512, 8192]),
    }
    if rng.random() < 0.25:
        main = mh.lefthand(tip)
        cands = []
        for start in main[:-1]:
            inc = mh.ancestry(tip) - mh.ancestry(start)
            ok = all(all(p in inc or p == start for p in mh.revs[r]["parents"]) for r in inc)
            if ok:
                cands.append(start)
        if cands:
            cfg["baseline"] = rng.choice(cands)
    cfg.update(force.get("cfg", {}))
    return {"specs": specs, "tip": tip, "tags": tags, "cfg": cfg}


class ChunkRaw(io.RawIOBase):
    """Raw byte source that returns short reads of seeded sizes."""

    def __init__(self, data, rng):
        io.RawIOBase.__init__(self)
        self.data = data
        self.pos = 0
        self.rng = rng

    def readable(self):
        return True

    def readinto(self, buf):
        left = len(self.data) - self.pos
        if left <= 0:
            return 0
        n = min(len(buf), left, self.rng.choice([1, 2, 3, 7, 31, 64, 1000, 4096, 65536]))
        buf[:n] = self.data[self.pos : self.pos + n]
        self.pos += n
        return n


class _Ids:
    """Stands in for bzrformats.generate_ids inside the commit handler: same functions,
    but file ids carry a counter instead of the wall-clock date."""

    def __init__(self, real):
        self._real = real
        self.n = 0

    def gen_file_id(self, name):
        self.n += 1
        stem = re.sub(r"[^a-z0-9_.-]", "", str(name).lower())[:20] or "x"
        return f"{stem}-20170101000000-sim-{self.n}".encode()

    def __getattr__(self, name):
        return getattr(self._real, name)


def norm_exc(e):
    """Exception class + message without paths, ids and quoted operands (stable)."""
    msg = str(e)
    if "invalid property name" in msg:
        return f"{type(e).__name__}:{msg}"[:90]
    lines = [ln.strip() for ln in msg.split("\n") if ln.strip()]
    head = lines[0] if lines else ""
    reason = next((ln for ln in lines[1:] if ln.startswith("reason")), "")
    s = f"{type(e).__name__}:{head} {reason}".strip()
    s = re.sub(r"/dev/shm/\S+", "<path>", s)
    s = re.sub(r"b?'[^']*'|b?\"[^\"]*\"", "<q>", s)
    s = re.sub(r"[0-9]{2,}", "N", s)
    return s[:90]


def execute(sim, plan):
    from breezy import controldir, revisionspec
    from breezy.branch import Branch
    from breezy.plugins.fastimport import bzr_commit_handler, exporter
    from breezy.plugins.fastimport.processors import generic_processor
    from fastimport import parser

    sim.disarm()
    world.setup_sim(sim)
    histsim.relativise_log(sim)
    cfg = plan["cfg"]
    specs = plan["specs"]
    mh = histsim.replay(specs)
    tip = plan["tip"]
    mode = "plain" if cfg["plain"] else "nonplain"

    # -- source ---------------------------------------------------------------------
    src = histsim.make_tree(histsim.scratch("src"), cfg["src_fmt"])
    bld = histsim.Builder(src, histsim.Hist())
    for s in specs:
        bld.commit(s)
    if bld.tip != tip:
        bld.switch_to(tip)
    sb = Branch.open(histsim.scratch("src"))
    histsim.check_built(sb.repository, mh)
    for name, rid in sorted(plan["tags"].items()):
        sb.tags.set_tag(name, rid.encode())

    # -- export -----------------------------------------------------------------------
    out = io.BytesIO()
    kw = {}
    marks_path = histsim.scratch("marks.out")
    if cfg["marks"]:
        kw["export_marks_file"] = marks_path
    if cfg["baseline"]:
        kw["revision"] = [revisionspec.RevisionSpec.from_string("revid:" + cfg["baseline"]), revisionspec.RevisionSpec.from_string(None)]
        kw["baseline"] = True
    ex = exporter.BzrFastExporter(
        sb,
        outf=out,
        ref=b"refs/heads/master",
        checkpoint=cfg["checkpoint"],
        plain_format=cfg["plain"],
        rewrite_tags=cfg["rewrite_tags"],
        no_tags=cfg["no_tags"],
        **kw,
    )
    try:
        ex.run()
    except Exception as e:  # noqa: BLE001
        import traceback

        sim.fail("export_aborts", ["export_aborts", mode, norm_exc(e)], f"fast-export failed: {type(e).__name__}: {e}\n{traceback.format_exc()[-1500:]}")
    data = out.getvalue()
    if os.environ.get("C44_DUMP"):  # triage aid
        with open(os.environ["C44_DUMP"], "wb") as f:
            f.write(data)
    sim.event("exported", mode, len(ex.revid_to_mark), hashlib.sha1(data).hexdigest()[:16], vol=len(data))
    if cfg["baseline"]:
        exported = {cfg["baseline"]} | (mh.ancestry(tip) - mh.ancestry(cfg["baseline"]))
        sim.probe("baseline")
    else:
        exported = mh.ancestry(tip)
    marks = {r.decode(): m for r, m in ex.revid_to_mark.items() if m is not None}
    if set(marks) != exported:
        sim.fail("export_set", ["export_set", mode, "baseline" if cfg["baseline"] else "full"], f"exporter marked {sorted(marks)} but the exported range is {sorted(exported)}")
    if cfg["marks"]:
        from breezy.plugins.fastimport import marks_file

        got = marks_file.import_marks(marks_path)
        want = {m: r.encode() for r, m in marks.items()}
        if got != want:
            sim.fail("marks_file", ["marks_file", mode], f"marks file holds {got}, exporter assigned {want}")
        sim.probe("marks_file_checked")

    # -- import -----------------------------------------------------------------------
    tgt_path = histsim.scratch("tgt")
    os.makedirs(tgt_path)
    url = "sim+file://" + tgt_path
    fmt = controldir.format_registry.make_controldir("2a")
    # created through the plain path (create_branch_convenience insists on a local URL for a
    # tree); everything afterwards opens it through the seam
    controldir.ControlDir.create_branch_convenience(tgt_path, format=fmt, force_new_tree=bool(cfg["with_tree"]))
    real_ids = bzr_commit_handler.generate_ids
    if not isinstance(real_ids, _Ids):
        bzr_commit_handler.generate_ids = _Ids(real_ids)
    stream = io.BufferedReader(ChunkRaw(data, sim.rng("chunks:%d" % cfg["chunk_seed"])), buffer_size=cfg["bufsize"])
    cd = controldir.ControlDir.open(url)
    proc = generic_processor.GenericProcessor(cd, prune_empty_dirs=cfg["prune"])
    p = parser.ImportParser(stream)
    # the processor prints "ABORT: ..." to stdout on failure; keep the batch output clean
    import contextlib

    sink = io.StringIO()
    try:
        with contextlib.redirect_stdout(sink):
            proc.process(p.iter_commands)
    except Exception as e:  # noqa: BLE001
        import traceback

        where = ""
        m_ = re.search(r"processing commit b?'?:?(\d+)", sink.getvalue())
        if m_:
            mk = m_.group(1).encode()
            rid = next((r for r, m in marks.items() if m == mk), None)
            where = f"\nfailing commit: mark {mk} = revision {rid}, actions {_short_actions(mh.revs[rid]['actions']) if rid else None}, parents {mh.revs[rid]['parents'] if rid else None}\nstream of that commit: {_commit_cmds(data, mk)}"
            # signature: a closed one per reported defect class (present anywhere in the history
            # up to the failing commit), else mode + normalised exception
            upto = [r_ for r_ in (mh.order[: mh.order.index(rid) + 1] if rid else []) if r_ in marks]
            cls = _defect_class(mh, upto, cfg["plain"])
            sig = ["import_aborts", cls] if cls else ["import_aborts", mode, norm_exc(e)]
            sim.fail("import_aborts", sig, f"fast-import of the exported stream failed: {type(e).__name__}: {e}{where}\n{traceback.format_exc()[-1500:]}")
        sim.fail("import_aborts", ["import_aborts", mode, norm_exc(e)], f"fast-import of the exported stream failed: {type(e).__name__}: {e}\n{traceback.format_exc()[-1800:]}")

    # -- compare ----------------------------------------------------------------------
    storesim.clear_caches()
    tb = Branch.open(url)
    trepo = tb.repository
    idmap = {}
    with open(os.path.join(tgt_path, ".bzr", "repository", "fastimport-id-map"), "rb") as f:
        for line in f:
            m, r = line.rstrip(b"\n").split(b" ", 1)
            idmap[m.lstrip(b":")] = r
    new_of = {}
    for r, m in marks.items():
        if m not in idmap:
            sim.fail("revision_missing", ["revision_missing", mode], f"exported revision {r} (mark {m}) has no imported counterpart; id map {sorted(idmap)}")
        new_of[r] = idmap[m]
    feats = set()
    with trepo.lock_read(), sb.repository.lock_read():
        have = set(trepo.all_revision_ids())
        if len(have) != len(exported) or have != set(new_of.values()):
            sim.fail("revision_count", ["revision_count", mode], f"target lists {len(have)} revisions, {len(exported)} were exported")
        for r in [x for x in mh.order if x in exported]:
            srev = sb.repository.get_revision(r.encode())
            trev = trepo.get_revision(new_of[r])
            want_parents = [new_of[p.decode()] for p in srev.parent_ids if p.decode() in exported and not (cfg["baseline"] == r)]
            if list(trev.parent_ids) != want_parents:
                sim.fail("parents", ["parents", mode, f"{len(srev.parent_ids)}->{len(trev.parent_ids)}"], f"revision {r}: imported parents {trev.parent_ids} but expected {want_parents} (source parents {srev.parent_ids})")
            for field in ("message", "committer", "timestamp", "timezone"):
                a, b_ = getattr(srev, field), getattr(trev, field)
                if a != b_:
                    sim.fail(field, [field, mode, _field_class(field, a, b_)], f"revision {r}: {field} {a!r} became {b_!r}")
            st = histsim.strip_ids(histsim.tree_state(sb.repository.revision_tree(r.encode())))
            tt = histsim.strip_ids(histsim.tree_state(trepo.revision_tree(new_of[r])))
            st, tt = histsim.prune_empty_dirs(st), histsim.prune_empty_dirs(tt)
            if st != tt:
                d = histsim.diff_trees(tt, st)
                sim.fail("tree", ["tree", _defect_class(mh, [r], cfg["plain"])] if _defect_class(mh, [r], cfg["plain"]) else ["tree", mode, _culprit(mh, r, tt, st)], f"revision {r} [{_tree_class(tt, st)}] (actions {_short_actions(mh.revs[r]['actions'])}; parents {mh.revs[r]['parents']}): imported tree differs: {d}\nstream of that commit: {_commit_cmds(data, marks[r])}")
            for a in mh.revs[r]["actions"]:
                feats.add(a[0] if a[0] != "add" else "add-" + a[3])
            if len(srev.parent_ids) > 1:
                feats.add("merge")
        # branch: tip and left-hand history
        want_lh = [new_of[r] for r in mh.lefthand(tip) if r in exported]
        if tb.last_revision() != new_of[tip]:
            sim.fail("tip", ["tip", mode], f"target branch tip {tb.last_revision()} != counterpart {new_of[tip]} of {tip}")
        graph = trepo.get_graph()
        lh = list(graph.iter_lefthand_ancestry(tb.last_revision(), [b"null:"]))[::-1]
        if lh != want_lh:
            sim.fail("lefthand", ["lefthand", mode], f"left-hand history has {len(lh)} revisions, expected {len(want_lh)}: {lh} vs {want_lh}")
        if tb.revno() != len(want_lh):
            sim.fail("revno", ["revno", mode], f"revno {tb.revno()} != {len(want_lh)}")
        # tags
        want_tags = {}
        if not cfg["no_tags"]:
            for name, rid in plan["tags"].items():
                if rid not in exported:
                    continue
                if cfg["plain"] and name in GIT_INVALID:
                    if cfg["rewrite_tags"]:
                        want_tags[GIT_INVALID[name]] = new_of[rid]
                    continue
                want_tags[name] = new_of[rid]
        got_tags = tb.tags.get_tag_dict()
        if got_tags != want_tags:
            miss = sorted(set(want_tags) - set(got_tags))
            extra = sorted(set(got_tags) - set(want_tags))
            wrong = sorted(k for k in want_tags if k in got_tags and got_tags[k] != want_tags[k])
            sim.fail("tags", ["tags", mode, f"missing={miss} extra={extra} wrong={wrong}"[:80]], f"tags after import {got_tags}, expected {want_tags} (source tags {plan['tags']}, rewrite={cfg['rewrite_tags']})")
    if cfg["with_tree"]:
        wt = cd.open_workingtree()
        ws = histsim.strip_ids(histsim.tree_state(wt))
        ts = histsim.strip_ids(histsim.tree_state(trepo.revision_tree(new_of[tip])))
        if ws != ts:
            sim.fail("working_tree", ["working_tree", mode], f"working tree after import differs from the imported tip: {histsim.diff_trees(ws, ts)}")
        sim.probe("working_tree_checked")
    sim.probe("roundtrip_" + mode)
    if plan["tags"] and not cfg["no_tags"]:
        sim.probe("tags_checked")
    for f_ in sorted(feats):
        sim.probe("feat_" + f_)
    sim.nontrivial = len(exported) >= 3 and bool(feats & {"merge", "rename", "remove", "swap", "retype", "chmod", "add-symlink"})
    sim.event("verdict", "ok", len(exported), sorted(feats))
    sim.state_seen((mode, cfg["prune"], bool(cfg["baseline"]), cfg["no_tags"], sorted(feats), len(exported) > 4))


def _commit_cmds(data, mark):
    """The command lines (without blob data) of the commit carrying `mark`."""
    i = data.find(b"\nmark :" + mark + b"\n")
    if i < 0:
        return "?"
    j = data.find(b"\ncommit refs/", i)
    chunk = data[i + 1 : j if j > 0 else len(data)]
    out = []
    pos = 0
    while pos < len(chunk):
        e = chunk.find(b"\n", pos)
        if e < 0:
            e = len(chunk)
        ln = chunk[pos:e]
        pos = e + 1
        m = re.match(rb"data (\d+)$", ln)
        if m:
            pos += int(m.group(1))
            continue
        if re.match(rb"(M [0-7]+ |D |R |C |from |merge |mark |deleteall|reset )", ln):
            out.append(ln.decode("utf-8", "replace")[:80])
    return out[:40]


def _field_class(field, a, b_):
    if field == "message":
        if a.strip() == b_.strip():
            return "whitespace"
        return "content"
    if field == "committer":
        return "no-angle" if "<" not in a else "with-email"
    return "value"


def _tree_class(got, want):
    """Coarse, stable description of the first difference."""
    for p in sorted(set(got) | set(want)):
        g, w = got.get(p), want.get(p)
        if g == w:
            continue
        if g is None:
            return f"missing-{w[1]}"
        if w is None:
            return f"extra-{g[1]}"
        if g[1] != w[1]:
            return f"kind-{w[1]}-became-{g[1]}"
        if g[3] != w[3]:
            return "exec"
        return f"content-{w[1]}"
    return "?"


def _culprit(mh, r, got, want):
    """Which kinds of action of revision r touched the paths that differ (stable label)."""
    bad = [p for p in sorted(set(got) | set(want)) if got.get(p) != want.get(p)]
    base = mh.tree(mh.revs[r]["parents"][0]) if mh.revs[r]["parents"] else {}
    labels = set()
    tree = base
    for a in mh.revs[r]["actions"]:
        involved = [a[1]] + ([a[2]] if a[0] in ("rename", "swap") else [])
        if any(histsim.inside(q, p) or histsim.inside(p, q) for q in involved for p in bad if q != ""):
            if a[0] == "retype":
                labels.add("retype-" + a[2])
            elif a[0] == "rename":
                full = any(x != a[1] and histsim.inside(a[1], x) for x in tree)
                labels.add("rename-" + ("full-dir" if full else tree[a[1]][1]))
            elif a[0] == "swap":
                labels.add("swap")
            elif a[0] == "add":
                labels.add("add-" + a[3])
            else:
                labels.add(a[0])
        tree = histsim.apply_actions(tree, [a])
    if not labels and len(mh.revs[r]["parents"]) > 1:
        labels.add("merge")
    for top in ("swap", "retype-directory", "rename-full-dir"):
        if top in labels:
            return top
    return "+".join(sorted(labels)) or "untouched-path"


def _defect_class(mh, revs, plain):
    """The reported (guarded) defect class the given revisions fall into, or None."""
    labels = set()
    for r in revs:
        labels.update(_risky(mh, r).split("+"))
    if "swap" in labels:
        return "swap"
    if plain and "retype-directory" in labels:
        return "plain-kind-change-to-directory"
    if "rename-full-dir" in labels:
        return "directory-rename-with-children"
    return None


def _risky(mh, r):
    """Guarded feature classes present in revision r (for signatures of aborted imports)."""
    labels = set()
    tree = mh.tree(mh.revs[r]["parents"][0]) if mh.revs[r]["parents"] else {}
    for a in mh.revs[r]["actions"]:
        if a[0] == "swap":
            labels.add("swap")
        elif a[0] == "retype" and a[2] == DIR:
            labels.add("retype-directory")
        elif a[0] == "rename" and any(x != a[1] and histsim.inside(a[1], x) for x in tree):
            labels.add("rename-full-dir")
        tree = histsim.apply_actions(tree, [a])
    return "+".join(sorted(labels)) or "-"


def _action_class(mh, r):
    kinds = sorted({a[0] for a in mh.revs[r]["actions"]})
    return "+".join(kinds) + ("+merge" if len(mh.revs[r]["parents"]) > 1 else "")


def _short_actions(actions):
    out = []
    for a in actions:
        a = list(a)
        if a[0] in ("add", "retype") and isinstance(a[4 if a[0] == "add" else 3], str):
            i = 4 if a[0] == "add" else 3
            a[i] = a[i][:12]
        if a[0] == "modify":
            a[2] = a[2][:12]
        out.append(a)
    return out


def shrink_candidates(plan):
    """Drop trailing revisions, tags, then single actions."""
    import copy

    specs = plan["specs"]
    ids = [s["id"] for s in specs]
    # cut the history at an earlier mainline revision
    main = [s["id"] for s in specs if s["id"].startswith("m-")]
    for cut in main[:-1][::-1]:
        p = copy.deepcopy(plan)
        i = ids.index(cut)
        keep = histsim.replay(specs[: i + 1]).ancestry(cut)
        p["specs"] = [s for s in p["specs"][: i + 1] if s["id"] in keep]
        p["tip"] = cut
        p["tags"] = {k: v for k, v in p["tags"].items() if v in keep}
        if p["cfg"]["baseline"] and (p["cfg"]["baseline"] not in keep or p["cfg"]["baseline"] == cut):
            p["cfg"]["baseline"] = None
        yield p
    if plan["tags"]:
        for k in sorted(plan["tags"]):
            p = copy.deepcopy(plan)
            del p["tags"][k]
            yield p
    for key in ("with_tree", "marks"):
        if plan["cfg"].get(key):
            p = copy.deepcopy(plan)
            p["cfg"][key] = False
            yield p
    if plan["cfg"].get("checkpoint", -1) != -1:
        p = copy.deepcopy(plan)
        p["cfg"]["checkpoint"] = -1
        yield p
