"""C06 — Aborted and suspended write groups have no visible effect until committed.

One run = one write-group session against a target pack repository: records of a
generated source history are inserted through the real StreamSource/StreamSink code,
optionally WITHHOLDING one required record (an inventory, a chk page, a text new in a
new revision), then the session is aborted, committed, or suspended -> (re-opened) ->
resumed -> completed -> committed / aborted.  Transport errors can be injected inside the
write group."""

from simkit import world
from simkit.sim import SimCrash
from simkit.transport import raw

from . import storesim
from .storesim import MHist, gen_chain, replay_model

PROPERTY = "C06"
LEVEL = "exploration"
RULE = (
    "one case = one seeded write-group session (format, pre-populated revisions, inserted range, withheld record, "
    "outcome path abort|commit|commit-with-withheld|suspend/resume...|resume with a stale token after good ones then an "
    "unrelated write group|revision record only into a stacked 2a repository, optional injected transport error); "
    "non-trivial = at least one record stream was inserted and the session took a path other than plain commit; "
    "distinct = distinct event-log digests of such runs"
)
COMPONENTS = {
    "real": ["Repository.start/abort/commit/suspend/resume_write_group", "RepositoryPackCollection write-group code, _check_new_inventories, missing compression parent checks", "StreamSource.get_stream / get_stream_for_missing_keys, StreamSink.insert_stream_without_locking", "bzrformats pack/index/groupcompress/knit code"],
    "simulated": ["disk", "transport errors inside the write group", "re-open between suspend and resume (fresh objects)"],
    "stub": ["UI", "source repository on a second store, fault-free"],
}
ASSUMPTIONS = [
    "a token list whose last token cannot be resumed (garbage name, token of an aborted group, name of a published pack) must make resume_write_group raise; whether the good tokens' upload files survive that failure is not judged (probed), only that their data never becomes visible or listed",
    "stacked 2a target for the revision-record-only shape = a branch stacked (sprout --stacked) on the source branch, opened with its fallback",
    "leftovers under upload/ after abort or suspend are allowed (they are not listed)",
    "a withheld record counts as required only if it is an inventory/chk/text record of a revision that is new to the target; when the repository nevertheless commits, the check requires every listed revision to be fully readable (otherwise the commit accepted an incomplete write group)",
]


def warm():
    storesim.warm()


def config(tier):
    if tier == "thorough":
        return {"budget_s": 700, "run_timeout": 300, "selftest": 12}
    return {"budget_s": 50, "run_timeout": 120, "selftest": 6}


PATHS = [
    "abort",
    "commit",
    "withheld_commit",
    "suspend_resume_commit",
    "suspend_abort",
    "suspend_resume_suspend_resume_commit",
    "withheld_suspend_fill_commit",
    "multi_round_commit",
    "multi_round_commit",
    "multi_round_abort",
    "abort_fault_reuse",
    "abort_fault_reuse",
    "bad_token_resume",
    "bad_token_resume",
    "fallback_only_revision",
]


def generate(rng, tier):
    fmt = rng.choice(storesim.FORMATS)
    mh = MHist()
    n = rng.randint(2, 7)
    side = gen_chain(rng, mh, None, rng.randint(0, 2), "x")
    src = side + gen_chain(rng, mh, None, n, "s", merge_from=[s["id"] for s in side])
    main = [s for s in src if s["id"].startswith("s-")]
    pre = rng.randint(0, len(main) - 1)
    plan = {
        "fmt": fmt,
        "src": src,
        "pre": pre,  # number of mainline revisions already in the target
        "path": rng.choice(PATHS),
        "withhold": [rng.choice(["inventories", "texts", "chk_bytes", "inventory-deltas"]), rng.randrange(1000)],
        "reopen": rng.random() < 0.5,
        "rounds": rng.choice([2, 3, 3]),
        "splits": [rng.randrange(1000), rng.randrange(1000)],
        "nth_delete": rng.randint(1, 14),
        "reuse_inserts": rng.random() < 0.5,
    }
    # round-2 paths: (a) resume with a token list whose last token is stale/garbage after
    # 1-2 good ones, then an unrelated ordinary write group on the same object; (b) a
    # stacked 2a target receives ONLY the revision record of a revision whose inventory,
    # chk pages and texts live in the fallback
    mh_u = MHist()
    plan["unrelated"] = gen_chain(rng, mh_u, None, 1, "u")
    plan["stale"] = rng.choice(["garbage", "aborted", "committed"])
    plan["ngroups"] = rng.choice([1, 2, 2])
    plan["via_suspend"] = rng.random() < 0.4
    plan["rev_pick"] = rng.randrange(1000)
    if plan["path"] == "fallback_only_revision":
        plan["fmt"] = "2a"
    if plan["path"] in ("abort_fault_reuse", "bad_token_resume", "fallback_only_revision"):
        return plan
    if rng.random() < 0.3:
        plan["faults"] = [{"kind": "err_before", "at": rng.randint(1, 30), "count": "mut", "err": rng.choice(["transport", "enospc", "permission"])}]
    return plan


def visible(url):
    """What a fresh process sees, plus the files that define it."""
    storesim.clear_caches()
    repo = storesim.open_repo(url)
    out = {}
    with repo.lock_read():
        out["revs"] = sorted(repo.all_revision_ids())
        for name in ("revisions", "inventories", "texts", "signatures", "chk_bytes"):
            vf = getattr(repo, name, None)
            out[name] = sorted(vf.keys()) if vf is not None else None
    t = raw(repo._transport) if hasattr(repo, "_transport") else None
    rt = raw(repo.control_transport)
    out["pack-names"] = rt.get_bytes("pack-names")
    out["packs"] = sorted(rt.list_dir("packs"))
    out["indices"] = sorted(rt.list_dir("indices"))
    return out


def diff_visible(a, b):
    # The property speaks about visible revisions/inventories/texts/signatures and about
    # what is *listed*; unlisted leftover files under packs/ or indices/ are not judged.
    return [k for k in a if a[k] != b[k] and k not in ("packs", "indices")]


class Withholder:
    def __init__(self, sim, kind, nth):
        self.sim, self.kind, self.nth = sim, kind, nth
        self.dropped = None
        self.kinds = []
        self.counts = {}

    def filter(self, stream):
        for kind, sub in stream:
            self.kinds.append(kind)
            if kind == self.kind and self.dropped is None:
                recs = list(sub)
                self.counts[kind] = len(recs)
                if recs:
                    i = self.nth % len(recs)
                    self.dropped = (kind, recs[i].key)
                    self.sim.event("withheld", kind, recs[i].key)
                    recs = recs[:i] + recs[i + 1 :]
                yield kind, iter(recs)
            else:
                yield kind, sub


def execute(sim, plan):
    from breezy import errors
    from breezy.bzr import vf_search

    warm()
    sim.disarm()  # faults are armed only inside the write-group session
    world.setup_sim(sim)
    world.install_clock(sim, ["breezy.lockdir"])
    fmt = plan["fmt"]
    src = plan["src"]
    mh = replay_model(src)
    main = [s for s in src if s["id"].startswith("s-")]
    url_s = world.new_store("src")
    url_t = world.new_store("tgt")
    sb = storesim.make_branch(url_s + "s", fmt)
    storesim.commit_specs(sb, src)
    tb = storesim.make_branch(url_t + "t", fmt)
    if plan["pre"]:
        tb.pull(sb, stop_revision=main[plan["pre"] - 1]["id"].encode())
    tip = main[-1]["id"].encode()
    del tb
    before = visible(url_t + "t")
    path = plan["path"]
    want_all = {r.decode() for r in before["revs"]} | mh.ancestry(main[-1]["id"])

    def open_pair():
        tgt = storesim.open_repo(url_t + "t")
        srcr = storesim.open_repo(url_s + "s")
        return tgt, srcr

    the_search = []

    def stream_for(tgt, srcr, withholder=None):
        # the search is computed once, before anything is inserted (inside the write
        # group the inserting object already sees its own uncommitted revisions)
        if not the_search:
            the_search.append(tgt.search_missing_revision_ids(srcr, revision_ids=[tip]))
        search = the_search[0]
        source = srcr._get_source(tgt._format)
        st = source.get_stream(search)
        return source, (withholder.filter(st) if withholder else st)

    def expect_unchanged(tag):
        now = visible(url_t + "t")
        d = diff_visible(before, now)
        if d:
            sim.fail("invisible", ["invisible", kindsig, f"{tag}:{','.join(d)}"], f"after {tag} the repository differs from its state at start_write_group in {d}: revs {now['revs']} vs {before['revs']}")

    def expect_complete(tag):
        storesim.clear_caches()
        repo = storesim.open_repo(url_t + "t")
        with repo.lock_read():
            listed = {r.decode() for r in repo.all_revision_ids()}
            if listed != want_all:
                sim.fail("content", ["content", kindsig, f"{tag}:revision-set"], f"after {tag}: listed {sorted(listed)} expected {sorted(want_all)}")
            prob = storesim.readable(repo, mh, None)
            if prob:
                sim.fail("content", ["content", kindsig, f"{tag}:unreadable"], prob)
        prob = storesim.check_clean(repo)
        if prob:
            sim.fail("content", ["content", kindsig, f"{tag}:check"], prob)

    kindsig = "err_before" if plan.get("faults") else "none"
    if path in ("bad_token_resume", "fallback_only_revision"):
        _round2_paths(sim, plan, path, url_s, url_t, mh, main, before, open_pair, stream_for, expect_unchanged, kindsig)
        sim.state_seen((fmt, path, plan["pre"], plan.get("stale"), plan.get("ngroups"), plan.get("via_suspend")))
        return
    if path.startswith("multi_round") or path == "abort_fault_reuse":
        _special_paths(sim, plan, path, open_pair, stream_for, expect_unchanged, expect_complete, kindsig)
        sim.state_seen((fmt, path, plan["pre"], kindsig))
        return
    wh = Withholder(sim, plan["withhold"][0], plan["withhold"][1]) if "withheld" in path else None
    tgt, srcr = open_pair()
    sink = tgt._get_sink()
    tgt.lock_write()
    srcr.lock_read()
    in_group = False
    faulted = False
    try:
        sim.arm(plan.get("faults", []))
        try:
            tgt.start_write_group()
            in_group = True
            source, st = stream_for(tgt, srcr, wh)
            missing = sink.insert_stream_without_locking(st, srcr._format)
            sim.probe("streams_inserted")
            sim.nontrivial = path != "commit"
            if wh is not None and wh.dropped is None:
                wh = None  # that substream kind does not occur for this format: nothing was withheld
            if path == "abort":
                tgt.abort_write_group()
                in_group = False
                sim.disarm()
                expect_unchanged("abort")
            elif path == "commit":
                if missing:
                    missing = sink.insert_missing_keys(source, missing)
                tgt.commit_write_group()
                in_group = False
                sim.disarm()
                expect_complete("commit")
            elif path == "withheld_commit":
                refused = None
                try:
                    tgt.commit_write_group()
                    in_group = False
                except SimCrash:
                    raise
                except Exception as e:  # noqa: BLE001
                    refused = e
                    in_group = tgt.is_in_write_group()
                    if in_group:
                        tgt.abort_write_group(suppress_errors=True)
                        in_group = False
                sim.disarm()
                if sim.faults_fired:
                    faulted = True
                if refused is not None:
                    sim.probe("missing_key_refused")
                    sim.event("refused", type(refused).__name__)
                    expect_unchanged("refused-commit")
                elif wh is not None:
                    # accepted although a record was withheld: only acceptable if nothing listed is broken
                    sim.probe("withheld_but_accepted")
                    storesim.clear_caches()
                    repo = storesim.open_repo(url_t + "t")
                    with repo.lock_read():
                        prob = storesim.readable(repo, mh, None)
                    if prob:
                        sim.fail("refuse_incomplete", ["refuse_incomplete", "withheld", f"{fmt}:{wh.dropped[0]}"], f"commit_write_group accepted a write group lacking {wh.dropped}: {prob}")
                else:
                    expect_complete("commit")
            else:
                # suspend paths
                tokens = tgt.suspend_write_group()
                in_group = False
                sim.probe("suspended")
                sim.event("suspended", len(tokens))
                sim.disarm()
                expect_unchanged("suspend")
                if path == "suspend_abort":
                    tgt.resume_write_group(tokens)
                    in_group = True
                    tgt.abort_write_group()
                    in_group = False
                    expect_unchanged("resume-abort")
                else:
                    rounds = 2 if "suspend_resume_suspend" in path else 1
                    for rnd in range(rounds):
                        if plan["reopen"] or rnd > 0:  # a second resume always happens in a fresh process
                            tgt.unlock()
                            srcr.unlock()
                            storesim.clear_caches()
                            tgt, srcr = open_pair()
                            sink = tgt._get_sink()
                            tgt.lock_write()
                            srcr.lock_read()
                            source = srcr._get_source(tgt._format)
                        tgt.resume_write_group(tokens)
                        in_group = True
                        sim.probe("resume_token_used")
                        if rnd + 1 < rounds:
                            tokens = tgt.suspend_write_group()
                            in_group = False
                            expect_unchanged("second-suspend")
                    # fill in whatever is still missing (the withheld record included)
                    missing = tgt.get_missing_parent_inventories(check_for_missing_texts=True)
                    for prefix, vf in (("texts", tgt.texts), ("inventories", tgt.inventories), ("revisions", tgt.revisions), ("signatures", tgt.signatures), ("chk_bytes", tgt.chk_bytes)):
                        if vf is not None:
                            missing.update((prefix,) + k for k in vf.get_missing_compression_parent_keys())
                    if wh is not None:
                        if wh.dropped[0] in ("inventories", "inventory-deltas"):
                            missing.add(("inventories",) + tuple(wh.dropped[1]))
                        else:
                            # texts / chk pages cannot be requested as "missing keys":
                            # send that one record again from a fresh stream
                            def only(stream, kind=wh.dropped[0], key=wh.dropped[1]):
                                for k, sub in stream:
                                    if k == kind:
                                        yield k, (r for r in sub if r.key == key)
                                    else:
                                        for _ in sub:  # later substreams are computed while earlier ones are consumed
                                            pass

                            _, st2 = stream_for(tgt, srcr)
                            sink.insert_stream_without_locking(only(st2), srcr._format, True)
                            sim.probe("withheld_record_resent")
                    if missing:
                        sim.probe("missing_keys_filled")
                        left = sink.insert_missing_keys(source, missing)
                        if left:
                            sim.event("still-missing", sorted(left))
                    tgt.commit_write_group()
                    in_group = False
                    expect_complete("resume-commit")
        except SimCrash:
            raise
        except Exception as e:  # noqa: BLE001 - allowed only as the consequence of an injected error
            if not sim.faults_fired or sim.violation is not None:
                raise
            faulted = True
            sim.event("failed-under-fault", type(e).__name__)
        finally:
            sim.disarm()
            if in_group and tgt.is_in_write_group():
                tgt.abort_write_group(suppress_errors=True)
    finally:
        for r in (srcr, tgt):
            try:
                r.unlock()
            except Exception:  # noqa: BLE001
                pass
    if faulted or (sim.faults_fired and path in ("abort", "suspend_abort")):
        # an injected error inside the session: the write group was aborted -> nothing visible
        sim.nontrivial = True
        try:
            storesim.open_repo(url_t + "t").break_lock()
        except Exception:  # noqa: BLE001
            pass
        now = visible(url_t + "t")
        d = diff_visible(before, now)
        # the error may have hit after the commit point; then the new state must be complete
        if d:
            storesim.clear_caches()
            repo = storesim.open_repo(url_t + "t")
            with repo.lock_read():
                listed = {r.decode() for r in repo.all_revision_ids()}
                prob = storesim.readable(repo, mh, None)
            if prob or (listed != want_all and listed != {r.decode() for r in before["revs"]}):
                sim.fail("invisible", ["invisible", "err_before", "failed-session-left-partial-state"], f"session failed under an injected error but changed {d}; listed={sorted(listed)} problem={prob}")
        # and a retry without faults completes
        tb = storesim.open_branch(url_t + "t")
        tb.pull(storesim.open_branch(url_s + "s"), stop_revision=tip)
        expect_complete("retry-after-fault")
    sim.state_seen((fmt, path, plan["pre"], bool(wh), kindsig))


def _special_paths(sim, plan, path, open_pair, stream_for, expect_unchanged, expect_complete, kindsig):
    """(a) multi_round_*: the stream is inserted in 2-3 rounds, each round adds data and
    is followed by suspend -> (fresh target object) -> resume with ALL tokens so far; the
    last round commits (or aborts).  (b) abort_fault_reuse: a resumed write group is
    aborted the way StreamSink.insert_stream does (suppress_errors=True) while the n-th
    delete of the abort fails; the same locked object then runs another write group."""
    tgt, srcr = open_pair()
    sink = tgt._get_sink()
    tgt.lock_write()
    srcr.lock_read()
    in_group = False
    try:
        tgt.start_write_group()
        in_group = True
        _source, st = stream_for(tgt, srcr)
        parts = [(kind, list(sub)) for kind, sub in st]
        flat = [(kind, rec) for kind, recs in parts for rec in recs]
        if not flat:
            tgt.abort_write_group()
            in_group = False
            return
        sim.nontrivial = True

        def insert(items, is_resume):
            grouped = []
            for kind, rec in items:
                if grouped and grouped[-1][0] == kind:
                    grouped[-1][1].append(rec)
                else:
                    grouped.append((kind, [rec]))
            # is_resume=False on purpose: with True the sink checks for missing texts right
            # away, which presumes a complete first round (the smart server's flow); the
            # rounds here are arbitrary slices and completeness is judged at commit time
            sink.insert_stream_without_locking(iter([(k, iter(r)) for k, r in grouped]), srcr._format, False)

        def reopen_target():
            nonlocal tgt, sink
            tgt.unlock()
            storesim.clear_caches()
            tgt = storesim.open_repo(tgt.user_url)
            sink = tgt._get_sink()
            tgt.lock_write()

        if path == "abort_fault_reuse":
            insert(flat, False)
            tokens = tgt.suspend_write_group()
            in_group = False
            reopen_target()
            tgt.resume_write_group(tokens)
            in_group = True
            if plan.get("reuse_inserts"):
                # something new in the resumed group as well, so that two packs are aborted
                insert(flat[:1], True)
            sim.arm([{"kind": "err_before", "op": "delete", "nth": plan["nth_delete"], "err": "permission"}])
            try:
                tgt.abort_write_group(suppress_errors=True)
            finally:
                sim.disarm()
            in_group = False
            if sim.faults_fired:
                sim.probe("abort_delete_failed")
            # the same object, still write-locked, goes on with another write group
            try:
                tgt.start_write_group()
                in_group = True
                tgt.commit_write_group()
                in_group = False
                sim.probe("next_group_after_failed_abort_committed")
            except SimCrash:
                raise
            except Exception as e:  # noqa: BLE001 - after a failed abort the object may refuse; what matters is what becomes visible
                if not sim.faults_fired:
                    raise
                sim.probe("next_group_after_failed_abort_raised")
                sim.event("next-group-raised", type(e).__name__)
                if tgt.is_in_write_group():
                    tgt.abort_write_group(suppress_errors=True)
                in_group = False
            tgt.unlock()
            srcr.unlock()
            now = visible(tgt.user_url)
            d = diff_visible_keys(plan, now, expect_unchanged)
            return
        rounds = plan["rounds"]
        cuts = sorted({1 + (c % max(1, len(flat) - 1)) for c in plan["splits"][: rounds - 1]}) if len(flat) > 1 else []
        bounds = [0] + cuts + [len(flat)]
        tokens = []
        for r in range(len(bounds) - 1):
            if r > 0:
                reopen_target()
                tgt.resume_write_group(tokens)
                in_group = True
                sim.probe("resume_token_used")
            insert(flat[bounds[r] : bounds[r + 1]], r > 0)
            if r < len(bounds) - 2:
                tokens = tgt.suspend_write_group()
                in_group = False
                sim.probe("suspended")
                sim.event("suspended", len(tokens))
                if len(tokens) > 1:
                    sim.probe("multiple_resume_tokens")
                expect_unchanged(f"suspend-round-{r}")
        if path == "multi_round_abort":
            tgt.abort_write_group()
            in_group = False
            expect_unchanged("multi-round-abort")
        else:
            tgt.commit_write_group()
            in_group = False
            expect_complete("multi-round-commit")
    finally:
        sim.disarm()
        try:
            if in_group and tgt.is_in_write_group():
                tgt.abort_write_group(suppress_errors=True)
        except Exception:  # noqa: BLE001
            pass
        for r in (srcr, tgt):
            try:
                r.unlock()
            except Exception:  # noqa: BLE001
                pass


def diff_visible_keys(plan, now, expect_unchanged):
    expect_unchanged("abort-under-delete-error-then-next-write-group")


def _round2_paths(sim, plan, path, url_s, url_t, mh, main, before, open_pair, stream_for, expect_unchanged, kindsig):
    from breezy import errors

    fmt = plan["fmt"]
    if path == "fallback_only_revision":
        _fallback_only_revision(sim, plan, url_s, url_t, mh, main)
        return
    # ---- bad_token_resume
    unrelated = plan["unrelated"]
    ub = storesim.make_branch(url_s + "u", fmt)
    storesim.commit_specs(ub, unrelated)
    del ub
    mh_all = replay_model(plan["src"] + unrelated)
    tgt, srcr = open_pair()
    sink = tgt._get_sink()
    tgt.lock_write()
    srcr.lock_read()
    in_group = False

    def insert(items):
        grouped = []
        for kind, rec in items:
            if grouped and grouped[-1][0] == kind:
                grouped[-1][1].append(rec)
            else:
                grouped.append((kind, [rec]))
        sink.insert_stream_without_locking(iter([(k, iter(r)) for k, r in grouped]), srcr._format, False)

    def reopen_target():
        nonlocal tgt, sink
        tgt.unlock()
        storesim.clear_caches()
        tgt = storesim.open_repo(tgt.user_url)
        sink = tgt._get_sink()
        tgt.lock_write()

    try:
        tgt.start_write_group()
        in_group = True
        _source, st = stream_for(tgt, srcr)
        flat = [(kind, rec) for kind, sub in st for rec in list(sub)]
        if not flat:
            tgt.abort_write_group()
            in_group = False
            return
        two = plan["ngroups"] == 2 and len(flat) > 1
        cut = 1 + plan["splits"][0] % (len(flat) - 1) if two else len(flat)
        insert(flat[:cut])
        tokens = tgt.suspend_write_group()
        in_group = False
        if two:
            reopen_target()
            tgt.resume_write_group(tokens)
            in_group = True
            insert(flat[cut:])
            tokens = tgt.suspend_write_group()
            in_group = False
        sim.probe("suspended")
        sim.event("suspended", len(tokens))
        if len(tokens) > 1:
            sim.probe("multiple_resume_tokens")
        expect_unchanged("suspend")
        # a token that can no longer be resumed
        if plan["stale"] == "garbage":
            stale = "0123456789abcdef0123456789abcdef"
        else:
            reopen_target()
            tgt.start_write_group()
            in_group = True
            insert(flat[:1])
            stale = tgt.suspend_write_group()[0]
            tgt.resume_write_group([stale])
            if plan["stale"] == "aborted":
                tgt.abort_write_group()
            else:
                # "committed by someone else": an empty-history record only; abort keeps the
                # repository as it was, then the name is reused as a token of a published pack
                tgt.abort_write_group()
                with_names = sorted(tgt._pack_collection.names())
                stale = with_names[0] if with_names else stale
            in_group = False
        sim.event("stale-token", plan["stale"])
        # the token list reaches a fresh process (as a smart-server request would)
        reopen_target()
        good = list(tokens)
        raised = None
        try:
            tgt.resume_write_group(good + [stale])
            in_group = True
        except errors.UnresumableWriteGroup as e:
            raised = e
        except SimCrash:
            raise
        except Exception as e:  # noqa: BLE001
            raised = e
            sim.event("resume-raised", type(e).__name__)
        sim.nontrivial = True
        if raised is None:
            tgt.abort_write_group(suppress_errors=True)
            in_group = False
            sim.fail("bad_token", ["bad_token", fmt, "resume-accepted-unresumable-token:" + plan["stale"]], f"resume_write_group({good + [stale]}) did not raise although {stale!r} ({plan['stale']}) cannot be resumed")
        sim.probe("bad_token_resume_refused")
        # the same object: no write group, nothing of the suspended data visible
        if tgt.is_in_write_group():
            sim.fail("bad_token", ["bad_token", fmt, "still-in-write-group-after-failed-resume"], f"after the failed resume ({type(raised).__name__}) the repository object still reports an open write group")
        same = {"revs": sorted(tgt.all_revision_ids())}
        for name in ("revisions", "inventories", "texts", "signatures", "chk_bytes"):
            vf = getattr(tgt, name, None)
            same[name] = sorted(vf.keys()) if vf is not None else None
        leaked = [k for k in same if same[k] != before[k]]
        if leaked:
            extra = sorted(set(same[leaked[0]]) - set(before[leaked[0]]))[:4]
            sim.fail("invisible", ["invisible", "none", "failed-resume:same-object-sees-suspended-data"], f"after resume_write_group failed ({type(raised).__name__}: {raised}) the same repository object, with no write group open, sees suspended data in {leaked}: e.g. {extra}")
        # an unrelated ordinary write group on the same object
        usrc = storesim.open_repo(url_s + "u")
        utip = unrelated[-1]["id"].encode()
        with usrc.lock_read():
            search = tgt.search_missing_revision_ids(usrc, revision_ids=[utip])
            tgt.start_write_group()
            in_group = True
            sink.insert_stream_without_locking(usrc._get_source(tgt._format).get_stream(search), usrc._format)
            tgt.commit_write_group()
            in_group = False
        sim.probe("unrelated_group_committed_after_failed_resume")
    finally:
        sim.disarm()
        try:
            if in_group and tgt.is_in_write_group():
                tgt.abort_write_group(suppress_errors=True)
        except Exception:  # noqa: BLE001
            pass
        for r in (srcr, tgt):
            try:
                r.unlock()
            except Exception:  # noqa: BLE001
                pass
    # a fresh opener: only the unrelated revision was added
    now = visible(tgt.user_url)
    want = sorted(before["revs"] + [utip])
    if now["revs"] != want:
        sim.fail("invisible", ["invisible", "none", "failed-resume:suspended-data-published-by-next-write-group"], f"after a failed resume and an unrelated write group a fresh process lists {now['revs']}, expected {want} (tokens {good}, stale {stale!r})")
    storesim.clear_caches()
    repo = storesim.open_repo(tgt.user_url)
    with repo.lock_read():
        prob = storesim.readable(repo, mh_all, None)
        names = set(repo._pack_collection.names())
    if prob:
        sim.fail("content", ["content", "none", "failed-resume:unreadable"], prob)
    prob = storesim.check_clean(repo)
    if prob:
        sim.fail("content", ["content", "none", "failed-resume:check"], prob)
    published = [t for t in good if t in names or (t + ".pack") in now["packs"]]
    if published:
        sim.fail("invisible", ["invisible", "none", "failed-resume:suspended-pack-published"], f"suspended packs {published} are listed in pack-names / present in packs/ although their write group was never committed")
    rt = raw(repo.control_transport)
    kept = [t for t in good if rt.has("upload/" + t + ".pack")]
    sim.probe("suspended_packs_kept_in_upload" if len(kept) == len(good) else "suspended_packs_removed_by_failed_resume")


def _fallback_only_revision(sim, plan, url_s, url_t, mh, main):
    """A 2a repository stacked on the source receives ONLY the revision record of a
    revision whose inventory, chk pages and texts exist in the fallback: commit_write_group
    must refuse and leave the stacked repository as it was."""
    from breezy.transport import get_transport

    sb = storesim.open_branch(url_s + "s")
    pre_rev = main[plan["pre"] - 1]["id"].encode() if plan["pre"] else main[0]["id"].encode()
    get_transport(url_t).ensure_base()
    sb.controldir.sprout(url_t + "stk", revision_id=pre_rev, stacked=True, source_branch=sb)
    del sb
    url = url_t + "stk"
    before = visible(url)
    later = [s_["id"] for s_ in main if s_["id"].encode() not in before["revs"]]
    pick = later[plan["rev_pick"] % len(later)].encode() if later else pre_rev
    storesim.clear_caches()
    tgt = storesim.open_branch(url).repository
    srcr = storesim.open_repo(url_s + "s")
    if not tgt._fallback_repositories:
        raise RuntimeError("stacked target has no fallback")
    tgt.lock_write()
    srcr.lock_read()
    accepted = False
    refused = None
    try:
        tgt.start_write_group()
        tgt.revisions.insert_record_stream(srcr.revisions.get_record_stream([(pick,)], "unordered", True))
        sim.nontrivial = True
        sim.event("revision-record-only", pick.decode())
        try:
            if plan["via_suspend"]:
                tokens = tgt.suspend_write_group()
                sim.probe("suspended")
                tgt.resume_write_group(tokens)
            tgt.commit_write_group()
            accepted = True
        except SimCrash:
            raise
        except Exception as e:  # noqa: BLE001
            refused = e
            if tgt.is_in_write_group():
                tgt.abort_write_group(suppress_errors=True)
    finally:
        for r in (srcr, tgt):
            try:
                r.unlock()
            except Exception:  # noqa: BLE001
                pass
    now = visible(url)
    d = diff_visible(before, now)
    if accepted:
        sim.fail("refuse_incomplete", ["refuse_incomplete", "withheld", "2a-stacked:revision-record-only"], f"commit_write_group of a stacked 2a repository accepted revision {pick!r} although only its revision record was inserted (inventory, chk pages and texts exist only in the fallback); the repository itself now lists revisions {now['revs']} with inventories {now['inventories']}")
    sim.probe("revision_record_only_refused")
    sim.event("refused", type(refused).__name__)
    if d:
        sim.fail("invisible", ["invisible", "none", f"refused-commit-stacked:{','.join(d)}"], f"after the refused commit the stacked repository differs in {d}")
