"""C35 — Git object export is consistent and round-trips.

native case:  a generated 2a history (files, directories incl. empty ones, symlinks, exec
    changes, renames, deletes, merges) is pushed (lossy, `InterToLocalGitRepository.
    fetch_refs`) into a bare git repository on a simulated store (or a local directory
    behind the seam), in one go or tip by tip, each push with a SHA-map cache that is
    kept / re-opened / cold (Dict, Index on the store, Sqlite file); optionally one push
    is hit by a crash or an injected error at a seeded store operation of the cache or
    the target, after which a fresh process pushes again.  Then everything is fetched back
    into a fresh 2a repository.
git case:     the same kind of history is written as git objects with dulwich, fetched into a
    2a repository, exported again (cache update + push into a second git repository).

Oracles (per revision): tree SHA and every blob/tree SHA of the incremental path (what the
push stored; what `_revision_to_objects` yields with the final cache; what the object
store reconstructs by SHA) == the from-scratch conversion (`_tree_to_objects` without
parents, empty id map) == a conversion written from the git format alone; every tree
entry in the target exists; git-origin revisions reproduce the original commit/tree/blob
SHAs; pushed-then-fetched-back trees have the same paths, texts, exec bits and symlink
targets (directories that hold nothing excepted)."""

import contextlib
import copy
import os

from simkit import world
from simkit.sim import SimCrash

from . import gitsim

PROPERTY = "C35"
LEVEL = "exploration"
CASES_PER_RUN = 6
RULE = (
    f"one case = one of the {CASES_PER_RUN} independent scenarios a run (one forked child) evaluates: a generated history of 2-6 "
    "revisions (native 2a or written as git objects), a cache backend (dict/index/sqlite), a push script (one go or tip by tip, cache "
    "kept/re-opened/cold per push, optional crash/error at a seeded store operation followed by a re-push from a fresh process) and "
    "the fetch back; non-trivial = at least 2 revisions were exported, at least one revision was exported with a parent already in "
    "the cache (incremental path) and the history has a merge, an exec-only change, a rename, a symlink or an empty directory; "
    "distinct = distinct event-log digests of such cases"
)
COMPONENTS = {
    "real": [
        "breezy.git.object_store: BazaarObjectStore (_update_sha_map, _revision_to_objects, _reconstruct_*), _tree_to_objects, directory_to_tree",
        "breezy.git.interrepo: InterToLocalGitRepository.fetch_refs/fetch_revs/missing_revisions, InterLocalGitNonGitRepository.fetch",
        "breezy.git.push.MissingObjectsIterator, breezy.git.fetch.import_git_objects/import_git_commit, breezy.git.mapping (default mapping)",
        "breezy.git.cache Dict/Index/Sqlite backends, breezy.git.transportgit.TransportRepo/TransportObjectStore (pack upload), TransportRefsContainer",
        "2a repositories (source and fetched-back), dulwich objects/packs",
        "dromedary MemoryTransport / LocalTransport under the seam",
    ],
    "simulated": ["storage of source, target, cache (index) and fetched-back repository", "process death / injected transport error at a seeded mutating store operation of the cache or target during one push"],
    "stub": ["cache selection: breezy.git.object_store.cache_from_repository is routed to the backend/lifetime the case prescribes", "stale ref lock files are removed before the re-push (user's break-lock)"],
}
ASSUMPTIONS = [
    "native histories are pushed lossy (dpush), the only mode the default mapping allows; the fetched-back revision of r is revidmap[r]",
    "empty directories, and directories that contain only such directories, do not exist in git",
    "put/rename/delete of the store are atomic; stream writes may be torn by a crash",
    "after a crash or injected error the fresh process may find leftovers (temporary pack files, lock files); lock files are removed by hand",
    "commit SHAs are compared only for git-origin histories (plain author/committer/timezones); file names are ASCII for native histories (MemoryTree limitation) and include one non-ASCII name for git-origin ones",
]
STEP_CAP = 400000
ISOLATION = "fork"

_state = {"factory": None}


def _cache_from_repository(repo):
    f = _state["factory"]
    if f is None:
        return _orig_cache_from_repository(repo)
    return f(repo)


_orig_cache_from_repository = None


def install_cache_hook():
    """Route BazaarObjectStore's cache selection through the running case (idempotent)."""
    global _orig_cache_from_repository
    from breezy.git import object_store

    if _orig_cache_from_repository is None:
        _orig_cache_from_repository = object_store.cache_from_repository
        object_store.cache_from_repository = _cache_from_repository


def warm():
    gitsim.warm_common()
    import sqlite3  # noqa: F401

    import breezy.branchbuilder  # noqa: F401
    import breezy.bzr.groupcompress_repo  # noqa: F401
    import breezy.git.dir  # noqa: F401
    import breezy.git.fetch  # noqa: F401
    import breezy.git.interrepo  # noqa: F401
    import breezy.git.push  # noqa: F401
    from simkit.sim import Sim

    install_cache_hook()
    if not getattr(warm, "done", False):
        warm.done = True
        import random
        import shutil
        import tempfile

        d = tempfile.mkdtemp(prefix="c35warm", dir=os.environ.get("VERIF_SCRATCH_BASE"))
        old = {k: os.environ.get(k) for k in ("VERIF_SCRATCH", "BRZ_HOME", "HOME")}
        os.environ["VERIF_SCRATCH"] = d
        os.environ["BRZ_HOME"] = os.environ["HOME"] = d
        try:
            rng = random.Random(11)
            for origin in ("native", "git"):
                for backend in ("dict", "index", "sqlite"):
                    case = gen_case(rng)
                    case["origin"] = origin
                    case["cache"] = backend
                    plan = {"cases": [case]}
                    try:
                        execute(Sim(1, plan, step_cap=STEP_CAP), plan)
                    except Exception:  # noqa: BLE001 - warming only; real runs report
                        pass
        finally:
            for k, v in old.items():
                if v is None:
                    os.environ.pop(k, None)
                else:
                    os.environ[k] = v
            shutil.rmtree(d, ignore_errors=True)
            world.reset_stores()
            _state["factory"] = None


def config(tier):
    if tier == "thorough":
        return {"budget_s": 600, "run_timeout": 180, "selftest": 24}
    return {"budget_s": 45, "run_timeout": 90, "selftest": 6}


# -- generation ---------------------------------------------------------------------------------


def generate(rng, tier):
    return {"cases": [gen_case(rng) for _ in range(CASES_PER_RUN)]}


def gen_case(rng):
    n = rng.randint(2, 6)
    history = gitsim.gen_history(rng, n, moves=True)
    if rng.random() < 0.8:
        # one-character file names in the root are kept rare (they have their own finding)
        history = _rename_component(history, "z", "zed")
    case = {
        "origin": "native" if rng.random() < 0.7 else "git",
        "history": history,
        "cache": rng.choice(["dict", "dict", "index", "index", "index", "sqlite"]),
        "target": "memory" if rng.random() < 0.7 else "local",
    }
    # pushes: revision indices (1-based prefix of the topological order) whose tip is pushed
    style = rng.choice(["one-go", "each", "some", "some"])
    if style == "one-go":
        ups = [n]
    elif style == "each":
        ups = list(range(1, n + 1))
    else:
        ups = sorted(set(rng.sample(range(1, n + 1), rng.randint(1, n)) + [n]))
    pushes = []
    for i, k in enumerate(ups):
        pushes.append({"upto": k, "cache": "keep" if i == 0 else rng.choice(["keep", "keep", "reopen", "reopen", "cold"])})
    if rng.random() < 0.35:
        p = rng.choice(pushes)
        kind = rng.choice(["crash", "crash", "err_before"])
        p["fault"] = {"kind": kind, "at": rng.randint(1, 14), "count": "mut"}
        if kind == "crash":
            p["fault"]["applied"] = rng.random() < 0.5
            if rng.random() < 0.4:
                p["fault"]["torn"] = rng.choice([0.0, 0.3, 0.9])
        else:
            p["fault"]["err"] = rng.choice(["transport", "enospc", "permission", "connection"])
    case["pushes"] = pushes
    if case["origin"] == "git":
        unusual = {}
        if rng.random() < 0.08:
            files = [a[1] for r in case["history"] for a in r["actions"] if a[0] == "file"]
            if files:
                r = rng.choice(case["history"])
                unusual[r["revid"]] = {rng.choice(files): rng.choice([0o100664, 0o100600])}
        case["unusual"] = unusual
        case["unicode"] = rng.random() < 0.5
        case["plain_push"] = rng.random() < 0.4
    return case


def _rename_component(history, old, new):
    def fix(p):
        return "/".join(new if c == old else c for c in p.split("/"))

    out = copy.deepcopy(history)
    for r in out:
        for a in r["actions"]:
            if a[0] in ("file", "mkdir", "symlink", "modify", "chmod", "retarget", "remove", "rename") and a[1]:
                a[1] = fix(a[1])
            if a[0] == "rename":
                a[2] = fix(a[2])
    return out


def shrink_candidates(plan):
    cases = plan["cases"]
    if len(cases) > 1:
        for i in range(len(cases) - 1, -1, -1):
            yield {"cases": [cases[i]]}
        return
    c = cases[0]
    h = c["history"]
    n = len(h)
    # the plainest configuration first, then one simplification at a time
    simple = copy.deepcopy(c)
    simple.update(cache="dict", target="memory", pushes=[{"upto": n, "cache": "keep"}])
    if simple != c:
        yield {"cases": [simple]}
    for i, pu in enumerate(c["pushes"]):
        if "fault" in pu:
            p = copy.deepcopy(c)
            del p["pushes"][i]["fault"]
            yield {"cases": [p]}
    if len(c["pushes"]) > 1:
        for i in range(len(c["pushes"]) - 1):
            p = copy.deepcopy(c)
            del p["pushes"][i]
            yield {"cases": [p]}
    for i, pu in enumerate(c["pushes"]):
        if pu["cache"] != "keep":
            p = copy.deepcopy(c)
            p["pushes"][i]["cache"] = "keep"
            yield {"cases": [p]}
    for key, val in (("target", "memory"), ("cache", "dict"), ("unicode", False), ("plain_push", False)):
        if c.get(key, val) != val:
            p = copy.deepcopy(c)
            p[key] = val
            yield {"cases": [p]}
    for i in range(n - 1, 0, -1):
        if not any(h[i]["revid"] in r["parents"] for r in h[i + 1 :]):
            p = copy.deepcopy(c)
            del p["history"][i]
            for pu in p["pushes"]:
                if pu["upto"] > i:
                    pu["upto"] -= 1
            yield {"cases": [p]}
    for k in range(1, n):
        p = copy.deepcopy(c)
        p["history"] = h[:k]
        for pu in p["pushes"]:
            pu["upto"] = min(pu["upto"], k)
        yield {"cases": [p]}
    for i, r in enumerate(h):
        for j in range(len(r["actions"])):
            a = r["actions"][j]
            if a[0] in ("modify", "chmod", "retarget"):
                p = copy.deepcopy(c)
                del p["history"][i]["actions"][j]
                yield {"cases": [p]}
            elif a[0] in ("file", "symlink", "mkdir") and a[1]:
                p = _without_path(c, a[1])
                if p is not None:
                    yield {"cases": [p]}


def _without_path(case, path):
    """The case without everything that touches `path` (None if a rename is involved)."""
    p = copy.deepcopy(case)
    for r in p["history"]:
        keep = []
        for a in r["actions"]:
            paths = [a[1]] + ([a[2]] if a[0] == "rename" else [])
            hit = any(x == path or x.startswith(path + "/") for x in paths if isinstance(x, str))
            if hit and a[0] == "rename":
                return None
            if not hit:
                keep.append(a)
        r["actions"] = keep
    return p


# -- execution ------------------------------------------------------------------------------------


def execute(sim, plan):
    import hashlib

    warm()
    world.setup_sim(sim)
    sim.disarm()
    subs = []
    for n, case in enumerate(plan["cases"]):
        start = len(sim.log)
        sim.event("case", n, case["origin"], case["cache"], case["target"])
        sim.notes["evaluations"] = n + 1
        c = Case(sim, case, n)
        try:
            c.run()
        finally:
            c.cleanup()
            if c.nontrivial:
                h = hashlib.sha1()
                for e in sim.log[start + 1 :]:
                    h.update("\x1f".join(e).encode("utf-8", "replace") + b"\n")
                subs.append(h.hexdigest()[:20])
            sim.nontrivial = bool(subs)
            sim.notes["sub_digests"] = subs


class Caches:
    """The SHA-map cache of the exporting side, with the lifetime the case prescribes."""

    def __init__(self, backend, case_no):
        self.backend = backend
        self.case_no = case_no
        self.gen = 0  # storage generation (bumped by 'cold')
        self.cache = None
        self.sqlite_paths = set()

    def _open(self):
        from breezy.git import cache as gcache
        from breezy.transport import get_transport

        if self.backend == "dict":
            return gcache.DictBzrGitCache()
        if self.backend == "sqlite":
            path = os.path.join(os.environ["VERIF_SCRATCH"], f"c35-{self.case_no}-{self.gen}.db")
            self.sqlite_paths.add(path)
            return gcache.SqliteBzrGitCache(path)
        t = get_transport(self._index_url())
        return gcache.BzrGitCacheFormat.from_transport(t)

    def _index_url(self):
        if not hasattr(self, "_urls"):
            self._urls = {}
        if self.gen not in self._urls:
            from breezy.transport import get_transport

            url = world.new_store(f"cache{self.gen % 4}")
            get_transport(url).mkdir("gitcache")
            self._urls[self.gen] = url + "gitcache/"
        return self._urls[self.gen]

    def _close(self):
        from breezy.git import cache as gcache

        if self.backend == "sqlite" and self.cache is not None:
            self.cache.idmap.db.close()
            for p in list(self.sqlite_paths):
                gcache.mapdbs().pop(p, None)

    def prepare(self, mode):
        """mode: keep | reopen | cold | lost (process died: in-memory state is gone)."""
        if self.cache is None:
            self.cache = self._open()
        elif mode in ("reopen", "lost"):
            if self.backend == "dict":
                if mode == "lost":
                    self.cache = self._open()
            else:
                self._close()
                self.cache = self._open()
        elif mode == "cold":
            self._close()
            self.gen += 1
            self.cache = self._open()
        return self.cache

    def close(self):
        try:
            self._close()
        except Exception:  # noqa: BLE001
            pass


class Case:
    def __init__(self, sim, case, no):
        self.sim = sim
        self.case = case
        self.no = no
        self.nontrivial = False
        self.caches = Caches(case["cache"], no)
        self.incremental = False

    def cleanup(self):
        _state["factory"] = None
        self.caches.close()

    def fail(self, what, where, detail):
        origin = self.case["origin"]
        if origin == "git" and self.case.get("unusual"):
            origin = "git+unusual-modes"  # file modes other than 100644/100755/120000: own findings
        self.sim.fail("export", ["export", origin, what, where], f"case {self.no}: {detail}")

    @contextlib.contextmanager
    def guard(self, stage):
        """Exceptions raised by breezy.git code while an oracle drives it (e.g. its own
        'Invalid sha' assertion) are violations; anything else stays a harness error."""
        from simkit.sim import HarnessTruncated, Violation

        try:
            yield
        except (Violation, HarnessTruncated, SimCrash):
            raise
        except Exception as e:  # noqa: BLE001
            site = exc_site(e)
            if site.endswith(":?"):
                raise
            self.fail(stage + "-raised", site, f"{stage}: {type(e).__name__}: {str(e)[:300]}")

    # -- set-up -------------------------------------------------------------------------------
    def new_bare_git(self, kind, name):
        from breezy.git.dir import BareLocalGitControlDirFormat
        from breezy.transport import get_transport

        if kind == "memory":
            root = get_transport(world.new_store(name))
        else:
            gitsim.install_scratch_transport()
            d = os.path.join(os.environ["VERIF_SCRATCH"], f"{name}-{self.no}")
            os.makedirs(d)
            root = get_transport("simx+file://" + d + "/")
        t = root.clone("target.git")
        t.mkdir(".")
        BareLocalGitControlDirFormat().initialize_on_transport(t)
        return t

    @staticmethod
    def open_git(t):
        from breezy.controldir import ControlDir

        return ControlDir.open_from_transport(t.clone()).open_repository()

    def new_bzr_repo(self, name):
        from breezy import controldir
        from breezy.transport import get_transport

        t = get_transport(world.new_store(name)).clone("back")
        t.mkdir(".")
        return controldir.format_registry.make_controldir("2a").initialize_on_transport(t).create_repository()

    # -- the scenario -----------------------------------------------------------------------------
    def run(self):
        if self.case["origin"] == "native":
            self.run_native()
        else:
            self.run_git()

    def features(self, history):
        acts = [a for r in history for a in r["actions"]]
        return (
            any(len(r["parents"]) > 1 for r in history)
            or any(a[0] in ("chmod", "rename", "symlink") for a in acts)
            or any(a[0] == "mkdir" and a[1] for a in acts)
        )

    def run_native(self):
        from breezy.transport import get_transport

        case, sim = self.case, self.sim
        history = case["history"]
        src_t = get_transport(world.new_store("h")).clone("src")
        branch = gitsim.build_history(src_t, history)
        src_url = branch.repository.user_url
        revids = [r["revid"].encode() for r in history]
        target_t = self.new_bare_git(case["target"], "g")
        shamap = {}  # source revid -> (git sha, new revid)
        for i, push in enumerate(case["pushes"]):
            tips = self.tips(history, push["upto"])
            self.push(src_url, target_t, tips, push, i, shamap, lossy=True)
        # everything must have arrived
        repo = self.open_repo(src_url)
        git = self.open_git(target_t)
        with repo.lock_read():
            with self.guard("export-with-final-cache"):
                shamap = self.final_shamap(repo, revids, shamap, lossy=True)
            with self.guard("from-scratch-conversion"):
                self.check_export(repo, git, revids, shamap, None)
            with self.guard("export-with-final-cache"):
                self.check_store_level(repo, revids, shamap, lossy=True)
            self.check_round_trip(repo, git, revids, shamap)
        self.nontrivial = len(revids) >= 2 and self.incremental and self.features(history)

    def final_shamap(self, repo, revids, pushed, lossy):
        """{revid: (commit sha, revid after the round trip)} for every revision, from the
        exporter with the final cache; what the pushes reported must agree with it."""
        from breezy.git.mapping import default_mapping
        from breezy.git.object_store import BazaarObjectStore

        cache = self.caches.prepare("keep")
        _state["factory"] = lambda r, c=cache: c
        store = BazaarObjectStore(repo, default_mapping)
        out = {}
        store.lock_read()
        try:
            for revid in revids:
                sha = _b(store._lookup_revision_sha1(revid))
                out[revid] = (sha, default_mapping.revision_id_foreign_to_bzr(sha) if lossy else revid)
                if revid in pushed and pushed[revid] != out[revid]:
                    self.fail("sha-unstable", "push-vs-final-cache", f"{revid!r}: a push reported {pushed[revid]!r}, the exporter with the final cache says {out[revid]!r}")
        finally:
            store.unlock()
            _state["factory"] = None
        return out

    @staticmethod
    def open_repo(url):
        from breezy.repository import Repository

        return Repository.open(url)

    @staticmethod
    def tips(history, upto):
        """Heads of the first `upto` revisions."""
        heads = []
        sub = history[:upto]
        parents = {p for r in sub for p in r["parents"]}
        for r in sub:
            if r["revid"] not in parents:
                heads.append(r["revid"].encode())
        return heads

    def push(self, src_url, target_t, tips, push, i, shamap, lossy):
        """One push by one process; with a fault: the process dies / gets the error, a fresh
        process removes stale locks and pushes again."""
        from breezy.git.errors import NoPushSupport

        sim = self.sim
        fault = push.get("fault")
        mode = push["cache"]
        attempts = 0
        while True:
            attempts += 1
            cache = self.caches.prepare(mode)
            had = self.cache_revids(cache)
            _state["factory"] = lambda repo, c=cache: c
            repo = self.open_repo(src_url)
            git = self.open_git(target_t)
            fired_before = sum(sim.faults_fired.values())
            if fault is not None and attempts == 1:
                sim.fault_filter = lambda a, op, path, mutating: "target.git" in path or "gitcache" in path
                sim.arm([dict(fault)])
            try:
                revidmap = self.do_push(repo, git, tips, lossy)
            except NoPushSupport:
                # a documented refusal ("try dpush"): the user pushes lossy instead
                sim.disarm()
                sim.fault_filter = None
                if lossy:
                    self.fail("push-raised", "NoPushSupport:lossy", f"lossy push {i} was refused with NoPushSupport")
                sim.probe("non_lossy_push_refused")
                sim.event("push", i, "refused-non-lossy")
                self.lossy = lossy = True
                attempts -= 1
                continue
            except SimCrash:
                sim.disarm()
                sim.fault_filter = None
                sim.restart_main()
                sim.event("push", i, "crashed")
                sim.probe("push_crashed")
                mode = "lost"
                self.break_locks(target_t)
                continue
            except Exception as e:  # noqa: BLE001 - allowed only as the consequence of an injected error
                sim.disarm()
                sim.fault_filter = None
                if fault is not None and attempts == 1 and sum(sim.faults_fired.values()) > fired_before:
                    sim.event("push", i, "failed", type(e).__name__)
                    sim.probe("push_failed:" + type(e).__name__)
                    mode = "lost"
                    self.break_locks(target_t)
                    continue
                what = f"re-push-after-{fault['kind']}-raised" if attempts > 1 else "push-raised"
                self.fail(what, exc_site(e), f"push {i} of {[t.decode() for t in tips]} (attempt {attempts}) raised {type(e).__name__}: {str(e)[:300]}")
            sim.disarm()
            sim.fault_filter = None
            break
        for old, (sha, new) in sorted(revidmap.items()):
            if old in shamap and shamap[old][0] != sha:
                self.fail("sha-unstable", "commit", f"push {i}: {old!r} was exported as {shamap[old][0]!r} before and as {sha!r} now")
            shamap.setdefault(old, (sha, new))
        if had and revidmap:
            self.incremental = True  # exported on top of revisions the cache already knew
        sim.event("push", i, len(revidmap), "attempts", attempts)
        sim.probe("pushes")

    @staticmethod
    def cache_revids(cache):
        try:
            return set(cache.idmap.revids())
        except Exception:  # noqa: BLE001
            return set()

    def break_locks(self, target_t):
        from simkit.transport import raw, snapshot

        rt = raw(target_t)
        for p in sorted(snapshot(target_t)):
            if p.endswith(".lock"):
                rt.delete(p)
                self.sim.probe("stale_lock_removed")

    def do_push(self, repo, git, tips, lossy):
        from breezy.repository import InterRepository

        inter = InterRepository.get(repo, git)

        def update_refs(old_refs):
            new = dict(old_refs)
            for tip in tips:
                new[b"refs/heads/" + tip.replace(b":", b"_")] = (None, tip)
            return new

        revidmap, _old, _new = inter.fetch_refs(update_refs, lossy=lossy, overwrite=True)
        return revidmap

    # -- oracles --------------------------------------------------------------------------------------
    def check_export(self, repo, git, revids, shamap, originals):
        """Target objects == from-scratch conversion == independent conversion; no dangling
        tree entries.  `originals` (git-origin): {revid: original commit sha}."""
        from breezy.git.mapping import default_mapping, extract_unusual_modes

        store = git._git.object_store
        for revid in revids:
            if revid not in shamap:
                self.fail("not-exported", "revision", f"{revid!r} is an ancestor of a pushed tip but was never exported; exported: {sorted(shamap)}")
            sha = shamap[revid][0]
            try:
                commit = store[sha]
            except KeyError:
                self.fail("missing-object", "commit", f"commit {sha!r} of {revid!r} is not in the target repository")
            tree = repo.revision_tree(revid)
            unusual = extract_unusual_modes(repo.get_revision(revid))
            scratch, scratch_root = gitsim.scratch_objects(tree, unusual, default_mapping.BZR_DUMMY_FILE)
            indep, indep_root = gitsim.independent_objects(tree, unusual)
            try:
                got = gitsim.walk_git_tree(store, commit.tree)
            except KeyError as e:
                self.fail("dangling-tree-entry", "target", f"{revid!r}: tree {commit.tree!r} in the target refers to a missing object {e}")
            if commit.tree != scratch_root:
                bad = sorted(p for p in set(scratch) | set(got) if p and (got.get(p, (None, None))[1] != scratch.get(p)) and (p in scratch or p in got))[:6]
                self.fail(
                    "incremental-vs-scratch", self.diff_class(got, indep),
                    f"{revid!r}: pushed root tree {commit.tree!r} != from-scratch {scratch_root!r}; differing paths {bad}; pushed {self.show(got)} independent {self.show(indep)}",
                )
            for p, s in scratch.items():
                if p and got.get(p, (None, None))[1] != s:
                    self.fail("incremental-vs-scratch", "object", f"{revid!r}: path {p!r}: pushed {got.get(p)} from-scratch {s!r}")
            if indep_root != scratch_root or {p: v for p, v in got.items()} != indep:
                self.fail(
                    "scratch-vs-independent", self.diff_class(got, indep),
                    f"{revid!r}: from-scratch root {scratch_root!r}, independent conversion {indep_root!r}; pushed {self.show(got)} independent {self.show(indep)}",
                )
            if originals is not None and originals[revid] != sha:
                self.fail("original-sha", "commit", f"{revid!r}: original commit {originals[revid]!r}, exported {sha!r}")
        self.sim.probe("revisions_checked", len(revids))

    @staticmethod
    def show1(v):
        return None if v is None else (oct(v[0]), v[1][:8].decode())

    @staticmethod
    def show(d):
        return {p: (oct(m), s[:8].decode()) for p, (m, s) in sorted(d.items())}

    @staticmethod
    def diff_class(got, want):
        """What kind of difference: missing-path | extra-path | mode | content."""
        if set(want) - set(got):
            return "missing-path"
        if set(got) - set(want):
            return "extra-path"
        if any(got[p][0] != want[p][0] for p in want):
            return "mode"
        return "content"

    def check_store_level(self, repo, revids, shamap, lossy):
        """With the final cache: what _revision_to_objects yields and what the object store
        reconstructs by SHA, against the from-scratch conversion."""
        from breezy.git.mapping import default_mapping, extract_unusual_modes
        from breezy.git.object_store import BazaarObjectStore

        cache = self.caches.prepare("keep")
        _state["factory"] = lambda r, c=cache: c
        store = BazaarObjectStore(repo, default_mapping)
        store.lock_read()
        try:
            store._update_sha_map()
            for revid in revids:
                rev = repo.get_revision(revid)
                tree = repo.revision_tree(revid)
                scratch, scratch_root = gitsim.scratch_objects(tree, extract_unusual_modes(rev), default_mapping.BZR_DUMMY_FILE)
                root = None
                commit = None
                for path, obj in store._revision_to_objects(rev, tree, lossy):
                    if path is None:
                        commit = obj
                        continue
                    if path == "":
                        root = obj.id
                    if path in scratch and scratch[path] != obj.id:
                        self.fail("incremental-vs-scratch", "yielded-object", f"{revid!r}: _revision_to_objects yields {obj.id!r} for {path!r}, from-scratch {scratch[path]!r}")
                if root != scratch_root:
                    self.fail("incremental-vs-scratch", "yielded-root", f"{revid!r}: _revision_to_objects root tree {root!r}, from-scratch {scratch_root!r}")
                if commit is None or commit.id != shamap[revid][0]:
                    self.fail("sha-unstable", "commit-with-final-cache", f"{revid!r}: pushed as {shamap[revid][0]!r}, with the final cache {getattr(commit, 'id', None)!r}")
                try:
                    cached = store._cache.idmap.lookup_commit(revid)
                except KeyError:
                    cached = None
                if cached is not None and _b(cached) != shamap[revid][0]:
                    self.fail("sha-unstable", "cache-commit", f"{revid!r}: pushed as {shamap[revid][0]!r}, cache says {cached!r}")
                for path, sha in sorted(scratch.items()):
                    try:
                        obj = store[sha]
                    except KeyError:
                        self.sim.probe("reconstruct_unknown_sha")
                        continue
                    if obj.id != sha:
                        self.fail("reconstruct", "by-sha", f"{revid!r}: object store returns {obj.id!r} for {sha!r} ({path!r})")
        finally:
            store.unlock()
            _state["factory"] = None

    def check_round_trip(self, repo, git, revids, shamap):
        back = self.new_bzr_repo("b")
        _state["factory"] = _fresh_dict_cache  # the importing side's own cache
        try:
            back.fetch(git)
        except SimCrash:
            raise
        except Exception as e:  # noqa: BLE001 - nothing may fail here
            self.fail("fetch-back-raised", exc_site(e), f"fetching the pushed history back into a fresh 2a repository raised {type(e).__name__}: {str(e)[:300]}")
        with back.lock_read():
            have = set(back.all_revision_ids())
            for revid in revids:
                new = shamap[revid][1]
                if new not in have:
                    self.fail("round-trip", "revision-missing", f"{revid!r} was pushed as {new!r}, which is not among the fetched-back revisions {sorted(have)}")
                a = gitsim.visible_tree(repo.revision_tree(revid))
                b = gitsim.visible_tree(back.revision_tree(new))
                if a != b:
                    if set(a) != set(b):
                        what = "paths"
                    else:
                        p = sorted(p for p in a if a[p] != b[p])[0]
                        if a[p][0] != b[p][0]:
                            what = "kind"
                        elif a[p][0] == "file":
                            what = "content" if a[p][1] != b[p][1] else "exec"
                        else:
                            what = "symlink-target"
                    diff = sorted(p for p in set(a) | set(b) if a.get(p) != b.get(p))[:6]
                    self.fail("round-trip", what, f"{revid!r} -> {new!r}: differing paths {diff}: source {[a.get(p) for p in diff]}, fetched back {[b.get(p) for p in diff]}")
        self.sim.probe("round_trips", len(revids))

    # -- git-origin -------------------------------------------------------------------------------------
    def run_git(self):
        from breezy.git.mapping import default_mapping

        case, sim = self.case, self.sim
        history = copy.deepcopy(case["history"])
        if case.get("unicode"):
            for r in history:
                for a in r["actions"]:
                    for j in (1, 2):
                        if len(a) > j and isinstance(a[j], str) and a[0] != "retarget" and (j == 1 or a[0] == "rename"):
                            a[j] = a[j].replace("cafe.txt", "café.txt")
        unusual = {k: {p.replace("cafe.txt", "café.txt") if case.get("unicode") else p: m for p, m in v.items()} for k, v in (case.get("unusual") or {}).items()}
        origin_t = self.new_bare_git("memory", "o")
        origin = self.open_git(origin_t)
        shas, files = gitsim.build_git_history(origin._git, history, unusual)
        # import into bzr
        bzr = self.new_bzr_repo("h")
        _state["factory"] = _fresh_dict_cache
        try:
            bzr.fetch(self.open_git(origin_t))
        except SimCrash:
            raise
        except Exception as e:  # noqa: BLE001 - nothing may fail here
            self.fail("import-raised", exc_site(e), f"fetching the git history into a 2a repository raised {type(e).__name__}: {str(e)[:300]}")
        src_url = bzr.user_url
        revids = [default_mapping.revision_id_foreign_to_bzr(shas[r["revid"]]) for r in history]
        originals = dict(zip(revids, [shas[r["revid"]] for r in history]))
        with bzr.lock_read():
            have = set(bzr.all_revision_ids())
        for r in revids:
            if r not in have:
                self.fail("import", "revision-missing", f"git commit {originals[r]!r} was not imported; have {sorted(have)}")
        # what was imported must convert back (from scratch) to the original trees
        ostore0 = origin._git.object_store
        with bzr.lock_read(), self.guard("from-scratch-conversion"):
            from breezy.git.mapping import extract_unusual_modes

            for r, rev in zip(history, revids):
                o = ostore0[shas[r["revid"]]]
                modes = extract_unusual_modes(bzr.get_revision(rev))
                _objs, root = gitsim.scratch_objects(bzr.revision_tree(rev), modes, default_mapping.BZR_DUMMY_FILE)
                if root != o.tree:
                    want = gitsim.walk_git_tree(ostore0, o.tree)
                    got, _ = gitsim.independent_objects(bzr.revision_tree(rev), modes)
                    diff = sorted(p for p in set(want) | set(got) if want.get(p) != got.get(p))[:6]
                    self.fail(
                        "original-sha", "scratch:" + self.diff_class(got, want),
                        f"{r['revid']} = {rev!r}: the imported revision converts from scratch to tree {root!r}, the original commit has {o.tree!r}; "
                        f"differing paths {diff}: original {[self.show1(want.get(p)) for p in diff]}, converted {[self.show1(got.get(p)) for p in diff]}; "
                        f"file-modes recorded on this revision: {modes}",
                    )
        # export again into a second git repository: a plain push where the case says so (these
        # revisions carry no bzr metadata), else lossy as the cache update of the default mapping is
        self.lossy = not case.get("plain_push", False)
        target_t = self.new_bare_git(case["target"], "g")
        shamap = {}
        by_name = dict(zip([r["revid"] for r in history], revids))
        for i, push in enumerate(case["pushes"]):
            tips = [by_name[t.decode()] for t in self.tips(history, push["upto"])]
            self.push(src_url, target_t, tips, push, i, shamap, lossy=self.lossy)
        repo = self.open_repo(src_url)
        git = self.open_git(target_t)
        ostore = origin._git.object_store
        with repo.lock_read():
            with self.guard("export-with-final-cache"):
                shamap = self.final_shamap(repo, revids, shamap, lossy=True)
            with self.guard("from-scratch-conversion"):
                self.check_export(repo, git, revids, shamap, originals)
            # every original object is reproduced
            for r, rev in zip(history, revids):
                want = gitsim.walk_git_tree(ostore, ostore[shas[r["revid"]]].tree)
                got = gitsim.walk_git_tree(git._git.object_store, git._git.object_store[shamap[rev][0]].tree)
                if want != got:
                    diff = sorted(p for p in set(want) | set(got) if want.get(p) != got.get(p))[:6]
                    self.fail("original-sha", self.diff_class(got, want), f"{rev!r}: exported objects differ from the original ones at {diff}: original {[want.get(p) for p in diff]} exported {[got.get(p) for p in diff]}")
            with self.guard("export-with-final-cache"):
                self.check_store_level(repo, revids, shamap, lossy=True)
        self.nontrivial = len(revids) >= 2 and self.incremental and (self.features(history) or bool(unusual))


def _b(v):
    return v.encode("ascii") if isinstance(v, str) else v


def _fresh_dict_cache(repo):
    from breezy.git.cache import DictBzrGitCache

    return DictBzrGitCache()


def exc_site(e):
    """'<ExceptionType>:<innermost function of breezy/git>' — a stable name for where an
    unexpected exception came from."""
    fn = "?"
    tb = e.__traceback__
    while tb is not None:
        code = tb.tb_frame.f_code
        if "/breezy/git/" in code.co_filename:
            fn = code.co_name
        tb = tb.tb_next
    return f"{type(e).__name__}:{fn}"
