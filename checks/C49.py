"""C49 — Configuration values resolve by location and round-trip through files.

Three kinds of runs over real `breezy.config` stores on a simulated disk:

main        one process edits a LocationStack-like assembly (locations.conf with location
            sections -> optional branch.conf of a real branch -> DEFAULT of breezy.conf)
            through `Stack.set/remove`, `save_changes`, re-open, and reads values back for
            seeded locations; a dict model predicts the section chosen (most specific
            component-wise match, ignore_parents, appendpath / {relpath} / {basename}) and
            every stored value after save + re-load.
concurrent  2-3 processes with private Store/Stack objects set *different* options in the
            same LockableIniFileStore file and save, interleaved at every store operation by
            the seeded scheduler; a fresh reader must find every acknowledged change.
read_error  a fresh process edits and saves while its n-th read fails with an injected
            error; whatever fails, options stored before and not touched must survive.
crash_save  one process saves and crashes at the k-th mutating store op of the save; a fresh
            reader must parse the file and see the old or the new content."""

import fnmatch

from simkit import world
from simkit.sim import SimCrash
from simkit.transport import raw

PROPERTY = "C49"
LEVEL = "exploration"
RULE = (
    "one case = one seeded run of one kind: main (edit script over 1-3 stores with values from the value grammar, "
    "section names from the path/glob grammar, ignore_parents, :policy=appendpath, {relpath}/{basename}, save, re-open, "
    "reads at seeded locations), concurrent (2-3 writer scripts on one file, save protocol, schedule policy) or "
    "crash_save (edit script, store kind, crash point inside the save) or read_error (durable content, a fresh process's "
    "edit/save script, 1-2 injected errors PermissionDenied|TransportError|ConnectionError - NoSuchFile only when the "
    "file is absent - at its n-th read); non-trivial = read_error: an error fired, durable content existed and a save "
    "was attempted; main: at least one value was read "
    "back after save + re-open and one lookup had >= 2 matching sections; concurrent: >= 2 actors completed a save and "
    "the scheduler switched actors inside a save; crash_save: the crash fired inside the save; distinct = distinct "
    "event-log digests of such runs"
)
COMPONENTS = {
    "real": ["breezy.config: Stack, MutableSection.apply_changes, IniFileStore (quote/unquote, load, save_changes), TransportIniFileStore, LockableIniFileStore, BranchStore, LocationMatcher, NameMatcher, LocationSection, ListOption, _iter_for_location_by_parts", "configobj parser/writer", "breezy.lockdir.LockDir under the store lock", "BzrBranch control transport for BranchStore"],
    "simulated": ["disk (SimTransport over memory transport)", "process scheduling at every store op (2-3 writers)", "clock of breezy.lockdir", "crash inside the save, fresh reader process"],
    "stub": ["UI", "stacks are assembled explicitly the way LocationStack/BranchStack do (no command-line override section, no process-wide store cache)"],
}
ASSUMPTIONS = [
    "option names are identifier-like ([a-z][a-z0-9._-]*, optionally ':policy'); configobj cannot represent names with '=', leading '#', quotes or surrounding blanks (observed: such names are silently lost)",
    "section names come from a path grammar of lowercase components with *, ?, [..] globs, blanks and non-ASCII inside components, optional trailing '/', optional file:// form; names that end in ']' or start/end with blanks or quotes are excluded (configobj writes a file it cannot parse / renames them: observed, not counted)",
    "among matching sections with the same number of components breezy's documented order (descending section name) is taken as the definition of 'most specific' (explicit beats glob for lowercase names)",
    "text values: any str without lone surrogates and without C0/C1 controls other than \\n, \\t, \\r; \\r, \\x85, U+2028 are generated as their own class ('other-linebreak'); \\x0b \\x0c \\x1c-\\x1e U+2029 behave the same and are not generated",
    "a refusal (exception from Stack.set) is allowed for any value; after an accepted set every later read, save and re-load must give the value back",
    "values used for expansion lookups contain no option references other than {relpath} and {basename}; references and :policy only in named location sections (for the no-name section the 'unmatched part' is the whole absolute location)",
    "appendpath for an exact match (empty unmatched part) may yield value or value + '/' (urlutils.join(value, '') appends the slash; the legacy LocationConfig returns value)",
    "Stack.get(expand=False) still applies the section-local policy and {relpath}/{basename} (LocationSection.get is always called with its default expand=True): modelled as such",
    "concurrent writers touch disjoint option names; 'acknowledged' = the set+save call sequence returned; LockContention (after the 300 s virtual timeout) is an allowed refusal",
    "put_bytes is atomic; a crash leaves applied operations durable; after a crash break_lock is applied to the store lock",
]
ISOLATION = "thread"
STEP_CAP = 8000

FILE = "locations.conf"


def warm():
    world.quiet_breezy()
    import breezy.lockdir  # noqa: F401
    from breezy import config

    from . import storesim

    storesim.warm()
    try:
        config.option_registry.get("c49.list")
    except KeyError:
        config.option_registry.register(config.ListOption("c49.list", default=None, help="C49 test list option"))
    global _warmed
    if _warmed:
        return
    _warmed = True
    import random

    from simkit.sim import Sim

    for i in range(12):
        plan = generate(random.Random(i), "quick")
        plan.pop("faults", None)
        sim = Sim(i, plan)
        try:
            execute(sim, plan)
        except Exception:  # noqa: BLE001 - warm-up only
            pass
    world.reset_stores()


_warmed = False


def config(tier):
    if tier == "thorough":
        return {"budget_s": 600, "run_timeout": 120, "selftest": 64}
    return {"budget_s": 45, "run_timeout": 120, "selftest": 32}


# -- grammar -----------------------------------------------------------------------------------

COMPS = ["a", "b", "c", "bc", "b c", "\u00e9", "x", "d1"]
GLOBS = ["*", "?", "b*", "[bc]", "**", "?c"]
PLAIN_ATOMS = ["a", "b c", " ", "  ", "'", '"', ",", "#", "=", "\t", "\u00e9", "e\u0301", "\U0001f600", "\\", "[", "]", "%", "$", "!", ";", ":", "'''", '"""', "{", "}", "{x}", "0", "-", "/", "~"]
NL_ATOMS = ["\n", "\n", "a\nb", "\n\n"]
LB_CHARS = "\r\x85\u2028"
OTHER_LB = ["\r", "\r\n", "\x85", "\u2028"]
LOOKUP_VALUES = ["v1", "v2", "v3", "http://h/p1", "/srv/x", "rel/path", "pre-{relpath}-post", "{basename}", "{relpath}", "sp ace", "caf\u00e9"]
BOOLS = ["true", "True", "yes", "1", "on", "false", "no", "0", "maybe", ""]


def gen_path(rng, depth=None):
    d = depth or rng.choice([1, 2, 2, 3, 3, 4])
    return "/" + "/".join(rng.choice(COMPS) for _ in range(d))


def gen_section_for(rng, path):
    parts = path.strip("/").split("/")
    k = rng.randint(1, len(parts))
    parts = parts[:k]
    for i in range(len(parts)):
        if rng.random() < 0.3:
            g = rng.choice(GLOBS)
            if i == len(parts) - 1 and g.endswith("]"):
                g = "*"
            parts[i] = g
    s = "/" + "/".join(parts)
    r = rng.random()
    if r < 0.12:
        s += "/"
    elif r < 0.22 and all(p.isascii() and " " not in p and "[" not in p and "?" not in p for p in parts):
        s = "file://" + s
    return s


def gen_value(rng, profile):
    """(value, class).  Lists are produced for the registered list option only."""
    r = rng.random()
    if profile == "any" and r < 0.3:
        atoms = PLAIN_ATOMS + NL_ATOMS * 4
        v = "".join(rng.choice(atoms) for _ in range(rng.randint(1, 4)))
        if "\n" not in v:
            v += "\n"
        return v, "newline"
    if profile == "any" and r < 0.4:
        v = "".join(rng.choice(PLAIN_ATOMS[:8] + OTHER_LB * 3) for _ in range(rng.randint(1, 3)))
        if not any(c in v for c in LB_CHARS):
            v += rng.choice(OTHER_LB)
        return v, ("newline" if "\n" in v.replace("\r\n", "") else "other-linebreak")
    if r < 0.5:
        return "", "plain"
    v = "".join(rng.choice(PLAIN_ATOMS) for _ in range(rng.randint(1, 5)))
    if "'" in v and '"' in v:
        if profile == "any":
            return v, "both-quote-kinds"
        v = v.replace('"', "") if rng.random() < 0.5 else v.replace("'", "")
    return v, "plain"


def gen_list(rng, profile):
    simple = ["a", "b", "c d", "\u00e9", "x=y", "{x}", "a\\b", "1", "-"]
    quoted = ["a, b", "", " a ", "a#b", "'", '"', ","]
    n = rng.choice([0, 1, 1, 2, 3])
    if profile == "any" and rng.random() < 0.5:
        v = [rng.choice(simple + quoted * 2) for _ in range(n or 1)]
    else:
        v = [rng.choice(simple) for _ in range(n)]
    needs = any((e == "" or e != e.strip() or any(c in e for c in ",#'\"")) for e in v)
    if v == ["", ""]:
        needs = True
    return v, ("list-quoted" if needs else "list")


def classify_value(v):
    if isinstance(v, list):
        needs = any((e == "" or e != e.strip() or any(c in e for c in ",#'\"\n")) for e in v)
        return "list-quoted" if needs else "list"
    if any(c in v for c in LB_CHARS):
        return "other-linebreak"
    if "\n" in v:
        return "newline+triple-quote" if ("'''" in v or '"""' in v) else "newline"
    if "'" in v and '"' in v:
        return "both-quote-kinds"
    return "plain"


CLASS_RANK = ["plain", "list", "both-quote-kinds", "newline", "newline+triple-quote", "list-quoted", "other-linebreak"]


def generate(rng, tier):
    mode = rng.choice(["main"] * 5 + ["concurrent"] * 4 + ["crash_save"] * 2 + ["read_error"] * 3)
    if mode == "read_error":
        return gen_read_error(rng)
    if mode == "main":
        return gen_main(rng)
    if mode == "concurrent":
        return gen_concurrent(rng)
    return gen_crash(rng)


def gen_main(rng):
    profile = rng.choice(["plain", "plain", "plain", "any"])
    use_branch = rng.random() < 0.1
    bases = [gen_path(rng, rng.choice([2, 3, 4])) for _ in range(rng.choice([1, 2, 2]))]
    sections = []
    for _ in range(rng.randint(1, 5)):
        s = gen_section_for(rng, rng.choice(bases))
        if s not in sections:
            sections.append(s)
    if rng.random() < 0.1:
        sections.append(None)  # the no-name section of locations.conf
    locations = []
    for b in bases:
        locations.append(b)
        parts = b.strip("/").split("/")
        locations.append("/" + "/".join(parts[: rng.randint(1, len(parts))]))
        locations.append(b + "/" + rng.choice(COMPS))
    if rng.random() < 0.3:
        locations.append(gen_path(rng))
    locations = [(loc + "/") if rng.random() < 0.1 else loc for loc in locations]
    locations = [("file://" + loc) if (rng.random() < 0.1 and loc.isascii() and " " not in loc) else loc for loc in locations]
    onames = ["o1", "o2", "o3"]
    rnames = ["r1", "r2", "r.x-y"]
    ops = []

    def edit_burst(n):
        for _ in range(n):
            r = rng.random()
            store = "loc"
            if r < 0.15:
                store = "glob"
            elif r < 0.25 and use_branch:
                store = "branch"
            section = rng.choice(sections) if store == "loc" else ("DEFAULT" if store == "glob" else None)
            r = rng.random()
            if r < 0.4:
                name = rng.choice(onames)
                v = rng.choice(LOOKUP_VALUES)
                if store != "loc" or section is None:
                    v = rng.choice(LOOKUP_VALUES[:6] + LOOKUP_VALUES[-2:])
                ops.append(["set", store, section, name, v])
                if store == "loc" and section is not None and rng.random() < 0.35:
                    ops.append(["set", store, section, name + ":policy", rng.choice(["appendpath", "appendpath", "none", "norecurse"])])
            elif r < 0.5 and store == "loc":
                ops.append(["set", store, section, "ignore_parents", rng.choice(BOOLS)])
            elif r < 0.8:
                if rng.random() < 0.25:
                    v, _ = gen_list(rng, profile)
                    ops.append(["set", store, section, "c49.list", v])
                else:
                    v, _ = gen_value(rng, profile)
                    ops.append(["set", store, section, rng.choice(rnames), v])
            else:
                ops.append(["remove", store, section, rng.choice(onames + rnames + ["ignore_parents"])])

    def read_burst(n):
        for _ in range(n):
            loc = rng.choice(locations)
            r = rng.random()
            if r < 0.6:
                ops.append(["get", loc, rng.choice(onames), True])
            elif r < 0.85:
                ops.append(["get", loc, rng.choice(rnames + ["c49.list"]), False])
            else:
                ops.append(["get", loc, rng.choice(onames), False])

    for _round in range(rng.randint(1, 3)):
        edit_burst(rng.randint(2, 8))
        if rng.random() < 0.3:
            read_burst(rng.randint(1, 3))
        if rng.random() < 0.85:
            ops.append(["save"])
        if rng.random() < 0.8:
            ops.append(["reload"])
        read_burst(rng.randint(2, 6))
    ops += [["save"], ["reload"], ["check_all"]]
    return {"mode": "main", "profile": profile, "branch": use_branch, "ops": ops}


def gen_plain_value(rng):
    return gen_value(rng, "plain")[0]


def gen_concurrent(rng):
    nact = rng.choice([2, 2, 2, 3])
    names = ["A", "B", "C"][:nact]
    sections = ["/s/one", "/s/two", "DEFAULT"]
    init = []
    owned = {n: [] for n in names}
    for n in names:
        for k in range(rng.randint(0, 2)):
            nm = f"i{n.lower()}{k}"
            sec = rng.choice(sections)
            init.append([sec, nm, gen_plain_value(rng)])
            owned[n].append([sec, nm])
    actors = {}
    for n in names:
        script = []
        mine = list(owned[n])
        for k in range(rng.randint(1, 4)):
            if mine and rng.random() < 0.25:
                sec, nm = mine.pop(rng.randrange(len(mine)))
                script.append(["remove", sec, nm])
            elif mine and rng.random() < 0.3:
                sec, nm = rng.choice(mine)
                script.append(["set", sec, nm, gen_plain_value(rng)])
            else:
                sec = rng.choice(sections)
                nm = f"{n.lower()}{k}"
                script.append(["set", sec, nm, gen_plain_value(rng)])
                mine.append([sec, nm])
        actors[n] = script
    plan = {
        "mode": "concurrent",
        "init": init,
        "actors": actors,
        "protocol": rng.choice(["save_changes", "save_changes", "locked"]),
        "policy": rng.choice(["random", "random", "pct", "pct", "rr"]),
    }
    if plan["policy"] == "pct":
        plan["preempt_at"] = sorted(rng.sample(range(1, 120), rng.randint(1, 6)))
    return plan


def gen_crash(rng):
    sections = ["/s/one", "/s/two", "DEFAULT", None]
    init = [[rng.choice(sections), f"i{k}", gen_plain_value(rng)] for k in range(rng.randint(0, 4))]
    ops = []
    for k in range(rng.randint(1, 4)):
        if init and rng.random() < 0.25:
            sec, nm, _ = rng.choice(init)
            ops.append(["remove", sec, nm])
        else:
            ops.append(["set", rng.choice(sections), rng.choice([f"n{k}"] + [i[1] for i in init]), gen_plain_value(rng) + "x" * rng.choice([0, 0, 40, 400])])
    store = rng.choice(["lockable", "lockable", "transport"])
    at = 1 if store == "transport" else rng.choice([1, 2, 3, 4, 5, 5, 5, 6, 6, 7, 8])
    return {
        "mode": "crash_save",
        "init": init,
        "ops": ops,
        "store": store,
        "faults": [{"kind": "crash", "at": at, "count": "mut", "applied": rng.random() < 0.5, "torn": rng.choice([0.0, 0.2, 0.5, 0.8, 0.97])}],
    }


def gen_read_error(rng):
    """Durable content, then a fresh process edits and saves while one or two of its reads
    fail with an injected error."""
    sections = ["/s/one", "/s/two", "DEFAULT", None]
    init = []
    for k in range(rng.choice([0, 2, 3, 4, 5, 6])):
        init.append([rng.choice(sections), f"i{k}", gen_plain_value(rng)])
    ops = []
    names = [i[1] for i in init]

    def edit():
        r = rng.random()
        if init and r < 0.2:
            sec, nm, _ = rng.choice(init)
            ops.append(["remove", sec, nm])
        elif init and r < 0.4:
            sec, nm, _ = rng.choice(init)
            ops.append(["set", sec, nm, gen_plain_value(rng)])
        else:
            ops.append(["set", rng.choice(sections), f"n{len(ops)}", gen_plain_value(rng)])

    for _round in range(rng.choice([1, 1, 2])):
        if rng.random() < 0.3:
            ops.append(["get", rng.choice(sections), rng.choice(names + ["nope"])])
        for _ in range(rng.randint(1, 3)):
            edit()
        ops.append(["save"])
        if rng.random() < 0.3:
            ops.append(["unload"])
    # a read error is a lie about an existing file unless the file really is absent
    errs = ["permission", "permission", "transport", "connection"] if init else ["permission", "transport", "nosuchfile", "nosuchfile"]
    faults = []
    for n in sorted(rng.sample(range(1, 7), rng.choice([1, 1, 2]))):
        faults.append({"kind": "err_before", "op": "get", "nth": n, "err": rng.choice(errs)})
    return {"mode": "read_error", "store": rng.choice(["lockable", "lockable", "transport"]), "init": init, "ops": ops, "faults": faults}


# -- model -------------------------------------------------------------------------------------


def local_path(s):
    if s.startswith("file://"):
        return s[len("file://") :]
    return s


def match_sections(section_ids, location):
    """[(section id, extra path)] most specific first (breezy's documented order: number of
    components, then name, descending)."""
    lp = local_path(location).rstrip("/").split("/")
    out = []
    for sid in section_ids:
        sp = local_path(sid).rstrip("/").split("/")
        if len(sp) > len(lp):
            continue
        if all(fnmatch.fnmatchcase(a, b) for a, b in zip(lp, sp)):
            out.append((len(sp), sid, "/".join(lp[len(sp) :])))
    out.sort(key=lambda m: (m[0], m[1]), reverse=True)
    return [(sid, extra) for _, sid, extra in out]


def truthy(s):
    return isinstance(s, str) and s.lower() in ("yes", "y", "on", "true", "1")


class Model:
    def __init__(self):
        self.disk = {"loc": {}, "glob": {}, "branch": {}}
        self.mem = {"loc": {}, "glob": {}, "branch": {}}

    def copy_disk_to_mem(self):
        self.mem = {k: {s: dict(o) for s, o in v.items()} for k, v in self.disk.items()}

    def commit(self, store=None):
        for k in [store] if store else list(self.mem):
            self.disk[k] = {s: dict(o) for s, o in self.mem[k].items()}

    def set(self, store, section, name, value):
        self.mem[store].setdefault(section, {})[name] = value

    def remove(self, store, section, name):
        self.mem[store].setdefault(section, {})
        del self.mem[store][section][name]

    def candidates(self, location, use_branch):
        """Sections in lookup order: [(store, section id, options, extra or None)], and the
        same order if ignore_parents also dropped the section that carries it."""
        loc = self.mem["loc"]
        named = [s for s in loc if s is not None]
        order = [("loc", sid, loc[sid], extra) for sid, extra in match_sections(named, location)]
        if None in loc and loc[None]:
            order.append(("loc", None, loc[None], local_path(location)))
        kept = []
        kept_exclusive = []
        stopped = False
        for c in order:
            ig = truthy(c[2].get("ignore_parents"))
            if not stopped:
                kept.append(c)
            if ig and not stopped:
                stopped = True
                stop_at = c
        kept_exclusive = [c for c in kept if not (stopped and c is stop_at)]
        tail = []
        if use_branch and self.mem["branch"].get(None):
            tail.append(("branch", None, self.mem["branch"][None], None))
        if self.mem["glob"].get("DEFAULT"):
            tail.append(("glob", "DEFAULT", self.mem["glob"]["DEFAULT"], None))
        return order, kept + tail, kept_exclusive + tail

    @staticmethod
    def value_from(cands, name, expand, slash_on_empty=False, unexpanded=False):
        for store, sid, opts, extra in cands:
            if name in opts and opts[name] is not None:
                v = opts[name]
                if unexpanded:
                    return v, (store, sid)
                # (LocationSection.get applies the policy and the section-local references
                # whatever Stack.get's expand argument says)
                if extra is not None and isinstance(v, str):
                    if opts.get(name + ":policy") == "appendpath":
                        # (urlutils.join(v, "") gives v + "/": accepted as a spelling of the same place)
                        v = (v + "/" + extra) if extra else ((v.rstrip("/") + "/") if slash_on_empty else v)
                    base = extra.rstrip("/").rsplit("/", 1)[-1] if extra else ""
                    v = v.replace("{relpath}", extra).replace("{basename}", base)
                return v, (store, sid)
        return None, None


# -- execution ---------------------------------------------------------------------------------


def execute(sim, plan):
    warm()
    world.setup_sim(sim)
    world.install_clock(sim, ["breezy.lockdir"])
    mode = plan["mode"]
    if mode == "main":
        run_main(sim, plan)
    elif mode == "concurrent":
        run_concurrent(sim, plan)
    elif mode == "read_error":
        run_read_error(sim, plan)
    else:
        run_crash(sim, plan)


def read_all(store):
    """{section id: {name: raw unquoted value}} through the public API of a loaded store."""
    out = {}
    for _st, section in store.get_sections():
        opts = {}
        for name in section.iter_option_names():
            v = section.get(name)
            if isinstance(v, dict):
                continue  # (configobj lists sub-sections among a section's keys)
            opts[name] = store.unquote(v)
        out[section.id] = opts
    return out


def run_main(sim, plan):
    from breezy import config
    from breezy.transport import get_transport

    sim.disarm()
    root = world.new_store("cfg")
    raw(get_transport(root)).mkdir("conf")
    url = root + "conf/"
    t = get_transport(url)
    use_branch = plan["branch"]
    branch_url = None
    if use_branch:
        from . import storesim

        storesim.make_branch(root + "br", "2a")
        branch_url = root + "br"
    model = Model()
    stores = {}
    pending_classes = []
    worst_saved = ["plain"]
    state = {"saved_read": False, "multi_match": False}

    def fresh_stores():
        stores.clear()
        stores["loc"] = config.LockableIniFileStore(get_transport(url), "locations.conf")
        stores["glob"] = config.LockableIniFileStore(get_transport(url), "breezy.conf")
        if use_branch:
            from breezy.branch import Branch

            stores["branch"] = config.BranchStore(Branch.open(branch_url))

    def lookup_stack(location):
        loc = local_path(location) if location.startswith("file://") else location
        defs = [config.LocationMatcher(stores["loc"], location).get_sections]
        if use_branch:
            defs.append(config.NameMatcher(stores["branch"], None).get_sections)
        defs.append(config.NameMatcher(stores["glob"], "DEFAULT").get_sections)
        return config.Stack(defs, stores["loc"], mutable_section_id=loc)

    def edit_stack(store, section):
        st = stores[store]
        return config.Stack([config.NameMatcher(st, section).get_sections], st, mutable_section_id=section)

    def worst(classes):
        return max(classes, key=CLASS_RANK.index) if classes else "plain"

    def fail(oracle, what, detail):
        sim.fail(oracle, [oracle, "none", what], detail)

    fresh_stores()
    for op in plan["ops"]:
        k = op[0]
        if k == "set":
            _, store, section, name, value = op
            cls = classify_value(value)
            try:
                edit_stack(store, section).set(name, value)
            except Exception as e:  # noqa: BLE001 - a refusal is allowed
                sim.event("set-refused", cls, type(e).__name__)
                sim.probe("set_refused_" + cls)
                continue
            model.set(store, section, name, value)
            pending_classes.append(cls)
            sim.probe("set_" + cls)
            # what was set is what this process reads
            try:
                got = edit_stack(store, section).get(name, expand=False)
            except Exception as e:  # noqa: BLE001
                fail("roundtrip", f"value-altered:{cls}", f"[read-after-set-raises] " + f"get after set({name!r}, {value!r}) raised {type(e).__name__}: {e}")
            if got != value:
                fail("roundtrip", f"value-altered:{cls}", f"[value-altered] " + f"set({name!r}, {value!r}) in [{section}] then get (same process, before save) returns {got!r}")
        elif k == "remove":
            _, store, section, name = op
            present = name in model.mem[store].get(section, {})
            try:
                edit_stack(store, section).remove(name)
                if not present:
                    fail("edit", "remove-missing-accepted", f"remove({name!r}) from [{section}] did not raise although the option is not there")
                model.remove(store, section, name)
            except KeyError:
                if present:
                    fail("edit", "remove-existing-refused", f"remove({name!r}) from [{section}] raised KeyError although the option is set")
        elif k == "save":
            cls = worst(pending_classes)
            for sname, st in stores.items():
                try:
                    st.save_changes()
                except config.ParseConfigError as e:
                    # (save_changes re-reads the file first: an earlier save corrupted it)
                    fail("roundtrip", f"value-altered:{worst_saved[0]}", f"[unparseable] " + f"save_changes of {sname} cannot re-read the file written by the previous save (value classes saved so far up to {worst_saved[0]}): {str(e)[:300]}")
                except Exception as e:  # noqa: BLE001
                    fail("roundtrip", f"value-altered:{cls}", f"[save-raises] " + f"save_changes of {sname} raised {type(e).__name__}: {e} after accepted sets (classes {sorted(set(pending_classes))})")
            model.commit()
            worst_saved[0] = worst([worst_saved[0], cls])
            pending_classes.clear()
            sim.probe("saved")
        elif k == "reload":
            try:
                fresh_stores()
            except config.ParseConfigError as e:
                fail("roundtrip", f"value-altered:{worst_saved[0]}", f"[unparseable] " + f"re-opening the stores failed after saving values of class {worst_saved[0]}: {str(e)[:300]}")
            model.copy_disk_to_mem()
            pending_classes.clear()
        elif k == "check_all":
            for sname in stores:
                try:
                    got = read_all(stores[sname])
                except Exception as e:  # noqa: BLE001
                    fail("roundtrip", f"value-altered:{worst_saved[0]}", f"[unparseable] " + f"{sname}: the file written by save_changes cannot be loaded: {type(e).__name__}: {str(e)[:300]}; content {raw(t).get_bytes(stores[sname].file_name) if sname != 'branch' else b''!r}")
                want = {s: o for s, o in model.disk[sname].items() if o or s in got}
                for sec in sorted(set(want) | set(got), key=repr):
                    w, g = want.get(sec, {}), got.get(sec, {})
                    for name in sorted(set(w) | set(g)):
                        wv, gv = w.get(name), g.get(name)
                        if name == "c49.list" and isinstance(gv, str):
                            try:
                                gv = config.option_registry.get("c49.list").convert_from_unicode(None, _rawval(stores[sname], sec, name))
                            except Exception as e:  # noqa: BLE001
                                gv = f"<{type(e).__name__} while converting {_rawval(stores[sname], sec, name)!r}>"
                        if wv != gv:
                            cls = classify_value(wv) if wv is not None else worst_saved[0]
                            fail("roundtrip", f"value-altered:{cls}", f"[value-altered] " + f"{sname} [{sec}] {name}: stored {wv!r}, read back after save + re-open {gv!r}")
            state["saved_read"] = True
            sim.probe("check_all")
        elif k == "get":
            _, location, name, expand = op
            order, want_c, excl_c = model.candidates(location, use_branch)
            want, src = model.value_from(want_c, name, expand)
            if len(order) >= 2:
                state["multi_match"] = True
                sim.probe("lookup_multi_match")
            try:
                got = lookup_stack(location).get(name, expand=expand)
            except Exception as e:  # noqa: BLE001
                if sim.violation is not None:
                    raise
                cls = worst(pending_classes + [worst_saved[0]])
                wcls = classify_value(want) if want is not None else "plain"
                if wcls not in ("plain", "list"):
                    fail("roundtrip", f"value-altered:{wcls}", f"[read-raises] " + f"get({name!r}) at {location} raised {type(e).__name__}: {str(e)[:200]}; stored value {want!r}")
                if cls != "plain" and isinstance(e, config.ParseConfigError):
                    fail("roundtrip", f"value-altered:{cls}", f"[unparseable] " + f"after saving values of class {cls} the file cannot be parsed: {str(e)[:300]}")
                fail("lookup", f"raises:{type(e).__name__}", f"get({name!r}, expand={expand}) at {location} raised {type(e).__name__}: {str(e)[:300]}; model value {want!r} from {src}")
            sim.probe("lookup")
            if got != want and got == model.value_from(want_c, name, expand, slash_on_empty=True)[0]:
                sim.probe("appendpath_exact_match_gets_trailing_slash")
                want = got
            if got != want:
                cls = classify_value(want) if want is not None else "plain"
                if cls not in ("plain", "list"):
                    fail("roundtrip", f"value-altered:{cls}", f"[value-altered] " + f"get({name!r}) at {location}: {got!r}, stored {want!r}")
                what = "wrong-value"
                alt, alt_src = model.value_from(excl_c, name, expand)
                raw_want, _ = model.value_from(want_c, name, False, unexpanded=True)
                allv = {}
                for c in order:
                    v, s = model.value_from([c], name, expand)
                    if s is not None:
                        allv.setdefault(repr(v), s)
                if alt == got and alt != want:
                    what = "ignore_parents:own-section-dropped"
                elif repr(got) in allv and allv[repr(got)] != src:
                    what = "wrong-section"
                elif isinstance(raw_want, str) and ("{relpath}" in raw_want or "{basename}" in raw_want):
                    what = "relpath"
                elif src is not None and any(c[2].get(name + ":policy") == "appendpath" for c in want_c if (c[0], c[1]) == src):
                    what = "appendpath"
                fail("lookup", what, f"get({name!r}, expand={expand}) at {location}: {got!r}; model {want!r} from section {src}; matching sections most specific first {[(c[1], c[3]) for c in order]}; sections {({s: o for s, o in model.mem['loc'].items()})}")
            if src is not None and src[0] == "loc" and len(order) >= 2:
                sim.probe("lookup_resolved_among_several")
            if isinstance(want, str) and want != model.value_from(want_c, name, False, unexpanded=True)[0]:
                sim.probe("lookup_expanded")
    sim.nontrivial = state["saved_read"] and state["multi_match"]
    sim.state_seen((plan["profile"], use_branch, len(model.disk["loc"]), state["multi_match"], worst_saved[0]))


def _rawval(store, sec, name):
    for _st, section in store.get_sections():
        if section.id == sec:
            return section.get(name)
    return None


# -- concurrent writers ----------------------------------------------------------------------------


class Ghost:
    """Who holds the store lock, who read which version of the file (derived at the seam)."""

    def __init__(self):
        self.version = 0
        self.holder = None
        self.read = {}  # actor -> (version, held the lock at that time)
        self.causes = set()
        self.pending = {}
        self.in_save = set()
        self.switch_inside = False
        self.savers = set()

    def monitor(self, sim, actor, phase, op, path, extra):
        name = actor.name
        if phase == "before" and self.in_save - {name}:
            self.switch_inside = True
        if phase == "after":
            if op == "rename" and self.pending.pop(name, None):
                self.holder = name  # (after_op is only reached when the rename succeeded)
            return
        if op == "get" and path.endswith("/" + FILE):
            # (recorded before the op: a get of a file that does not exist yet never reaches 'after')
            self.read[name] = (self.version, self.holder == name)
        if op == "rename":
            self.pending[name] = extra.endswith("/lock/held")
            if path.endswith("/lock/held") and self.holder == name:
                self.holder = None
        if op in ("put", "put_na", "append", "open_write_stream") and path.endswith("/" + FILE):
            if self.holder != name:
                self.causes.add("put-without-lock")
            seen = self.read.get(name)
            if seen is not None and seen[0] != self.version:
                self.causes.add("stale-read:reload-before-lock" if not seen[1] else "stale-read:inside-lock")
            self.version += 1
            self.savers.add(name)


def run_concurrent(sim, plan):
    from breezy import config, errors
    from breezy.transport import get_transport

    root = world.new_store("cfg")
    raw(get_transport(root)).mkdir("conf")
    url = root + "conf/"
    proto = plan["protocol"]
    expected = {}

    def do_op(store, op):
        section = op[1]
        stack = config.Stack([config.NameMatcher(store, section).get_sections], store, mutable_section_id=section)
        if op[0] == "set":
            stack.set(op[2], op[3])
        else:
            stack.remove(op[2])

    # initial content, by the main actor
    import configobj

    st0 = config.LockableIniFileStore(get_transport(url), FILE)
    for sec, nm, v in plan["init"]:
        try:
            do_op(st0, ["set", sec, nm, v])
        except configobj.ConfigObjError:
            continue  # refused value
        expected[(sec, nm)] = v
    st0.save_changes()
    # the lock directory exists (its first creation by two processes at once is LockDir's business: C26/C27)
    st0.lock_write()
    st0.unlock()
    del st0
    g = Ghost()
    sim.monitors.append(g.monitor)
    unknown = set()

    def run_script(name, script):
        me = sim.actors[name]
        store = config.LockableIniFileStore(get_transport(url), FILE)
        for op in script:
            if me.dead:
                return
            key = (op[1], op[2])
            g.in_save.add(name)
            try:
                if proto == "locked":
                    with store.lock_write():
                        store.unload()
                        do_op(store, op)
                        store.save_without_locking()
                else:
                    do_op(store, op)
                    store.save_changes()
            except SimCrash:
                return
            except configobj.ConfigObjError:
                sim.probe("set_refused")
                unknown.add(key)
                store.unload()
                continue
            except errors.LockContention:
                sim.probe("lock_contention")
                sim.event(name, "LockContention")
                unknown.add(key)
                store.unload()
                continue
            except KeyError:
                # remove of an option that this actor set earlier and no longer sees
                sim.event(name, "KeyError", op[2])
                sim.probe("own_option_vanished")
                unknown.add(key)
                store.unload()
                continue
            finally:
                g.in_save.discard(name)
            sim.event(name, "acked", op[0], op[2])
            if op[0] == "set":
                expected[key] = op[3]
            else:
                expected[key] = None

    for name, script in plan["actors"].items():
        sim.spawn(name, (lambda n=name, s=script: run_script(n, s)))
    sim.run_actors()
    for name in plan["actors"]:
        a = sim.actors[name]
        if a.exc is not None and not isinstance(a.exc, SimCrash):
            import traceback

            sim.fail("actor_failed", ["actor_failed", "preempt", f"{proto}:{type(a.exc).__name__}"], f"writer {name} failed: {type(a.exc).__name__}: {a.exc}\n" + "".join(traceback.format_exception(a.exc))[-1500:])
    sim.monitors.remove(g.monitor)
    sim.restart_main("reader")
    st = config.LockableIniFileStore(get_transport(url), FILE)
    try:
        got = read_all(st)
    except Exception as e:  # noqa: BLE001
        sim.fail("lost_update", ["lost_update", "preempt", f"{proto}:unparseable"], f"the file cannot be loaded after concurrent saves: {type(e).__name__}: {e}")
    lost = []
    for (sec, nm), v in sorted(expected.items(), key=repr):
        if (sec, nm) in unknown:
            continue
        have = got.get(sec, {}).get(nm)
        if have != v:
            lost.append((sec, nm, v, have))
    for c in sorted(g.causes):
        sim.probe("seam_" + c.replace(":", "_"))
    if lost:
        cause = sorted(g.causes)[0] if g.causes else "unknown"
        sim.fail(
            "lost_update",
            ["lost_update", "preempt", f"two-writers:{proto}:{cause}"],
            f"acknowledged changes missing in the final file (protocol {proto}): {[(s, n, 'expected', v, 'found', h) for s, n, v, h in lost][:4]}; seam observations {sorted(g.causes)}",
        )
    sim.nontrivial = len(g.savers) >= 2 and g.switch_inside
    sim.state_seen((proto, len(plan["actors"]), tuple(sorted(g.causes)), len(g.savers), g.switch_inside))


# -- crash during save -----------------------------------------------------------------------------


def run_crash(sim, plan):
    import configobj
    from breezy import config
    from breezy.transport import get_transport

    sim.disarm()
    root = world.new_store("cfg")
    raw(get_transport(root)).mkdir("conf")
    url = root + "conf/"

    def mk():
        t = get_transport(url)
        if plan["store"] == "lockable":
            return config.LockableIniFileStore(t, FILE)
        return config.TransportIniFileStore(t, FILE)

    def do_op(store, op, model):
        section = op[1]
        stack = config.Stack([config.NameMatcher(store, section).get_sections], store, mutable_section_id=section)
        if op[0] == "set":
            try:
                stack.set(op[2], op[3])
            except configobj.ConfigObjError:
                return  # refused value
            model.setdefault(section, {})[op[2]] = op[3]
        else:
            try:
                stack.remove(op[2])
            except KeyError:
                return
            model.get(section, {}).pop(op[2], None)

    old = {}
    st = mk()
    for sec, nm, v in plan["init"]:
        do_op(st, ["set", sec, nm, v], old)
    st.save_changes()
    st = mk()
    new = {s: dict(o) for s, o in old.items()}
    for op in plan["ops"]:
        do_op(st, op, new)
    sim.arm(plan.get("faults", []))
    outcome = "completed"
    try:
        st.save_changes()
    except SimCrash:
        outcome = "crash"
    sim.disarm()
    if sim.current().dead:
        outcome = "crash"
    sim.event("save", outcome)
    if outcome == "crash":
        sim.restart_main("reader")
    rd = mk()
    if plan["store"] == "lockable" and outcome == "crash":
        try:
            rd.break_lock()
        except Exception as e:  # noqa: BLE001
            sim.fail("crash_save", ["crash_save", "crash", "break_lock"], f"break_lock after the crash failed: {type(e).__name__}: {e}")
    try:
        got = read_all(rd)
    except Exception as e:  # noqa: BLE001
        content = raw(get_transport(url)).get_bytes(FILE)
        sim.fail("crash_save", ["crash_save", "crash", "unparseable"], f"after a crash at mutating op {plan['faults'][0]['at']} of the save the file cannot be loaded: {type(e).__name__}: {str(e)[:300]}; content {content[-200:]!r}")

    def norm(m):
        return {s: o for s, o in m.items() if o}

    got = norm(got)
    if outcome == "completed":
        if got != norm(new):
            sim.fail("crash_save", ["crash_save", "none", "saved-content-differs"], f"saved {norm(new)} read {got}")
    elif got != norm(old) and got != norm(new):
        sim.fail("crash_save", ["crash_save", "crash", "neither-old-nor-new"], f"after the crash the reader sees {got}, neither the old {norm(old)} nor the new {norm(new)} content")
    else:
        sim.probe("after_crash_" + ("new" if got == norm(new) and norm(new) != norm(old) else "old"))
    # and the store is usable again
    try:
        st2 = mk()
        do_op(st2, ["set", "/s/after", "after", "crash"], {})
        st2.save_changes()
        if read_all(mk()).get("/s/after", {}).get("after") != "crash":
            raise AssertionError("value not there")
    except Exception as e:  # noqa: BLE001
        sim.fail("crash_save", ["crash_save", "crash", "unusable-afterwards"], f"saving again after the crash failed: {type(e).__name__}: {e}")
    sim.nontrivial = outcome == "crash"
    sim.state_seen((plan["store"], plan["faults"][0]["at"] if plan.get("faults") else 0, outcome))


# -- read errors during save / reload ------------------------------------------------------------


def run_read_error(sim, plan):
    """A save may fail; it must never drop options that were durably stored and that the
    pending changes do not touch."""
    import configobj
    from breezy import config
    from breezy.transport import get_transport

    sim.disarm()
    root = world.new_store("cfg")
    raw(get_transport(root)).mkdir("conf")
    url = root + "conf/"

    def mk():
        t = get_transport(url)
        if plan["store"] == "lockable":
            return config.LockableIniFileStore(t, FILE)
        return config.TransportIniFileStore(t, FILE)

    def stack_for(store, section):
        return config.Stack([config.NameMatcher(store, section).get_sections], store, mutable_section_id=section)

    st = mk()
    for sec, nm, v in plan["init"]:
        try:
            stack_for(st, sec).set(nm, v)
        except configobj.ConfigObjError:
            continue
    st.save_changes()
    durable = {s: dict(o) for s, o in read_all(mk()).items() if o}
    touched = {(op[1], op[2]) for op in plan["ops"] if op[0] in ("set", "remove")}
    errs = sorted({f["err"] for f in plan.get("faults", [])})
    sim.event("read_error", plan["store"], errs, len(durable))

    # the process under test: fresh objects, faults armed for all of its reads
    st = mk()
    sim.arm(plan.get("faults", []))
    failed = []
    for op in plan["ops"]:
        k = op[0]
        try:
            if k == "set":
                stack_for(st, op[1]).set(op[2], op[3])
            elif k == "remove":
                stack_for(st, op[1]).remove(op[2])
            elif k == "get":
                stack_for(st, op[1]).get(op[2], expand=False)
            elif k == "save":
                st.save_changes()
            elif k == "unload":
                st.unload()
        except SimCrash:
            raise
        except KeyError:
            pass  # remove of an option this (possibly half-loaded) store does not see
        except Exception as e:  # noqa: BLE001 - any operation may fail under a read error
            if not sim.faults_fired:
                raise
            failed.append(k)
            sim.event("failed", k, type(e).__name__)
            sim.probe("op_failed_" + k)
    sim.disarm()
    fired = sum(sim.faults_fired.values())
    if fired:
        sim.probe("read_error_fired")
    sim.restart_main("reader")
    rd = mk()
    if plan["store"] == "lockable":
        try:
            rd.break_lock()  # an error inside unlock may have left the lock behind
        except Exception:  # noqa: BLE001
            pass
    kind = "err_before" if fired else "none"
    try:
        got = read_all(rd)
    except Exception as e:  # noqa: BLE001
        sim.fail("read_error", ["read_error", kind, "unparseable"], f"after saving under read errors {errs} the file cannot be loaded: {type(e).__name__}: {str(e)[:300]}")
    lost = []
    for sec, opts in sorted(durable.items(), key=repr):
        for nm, v in sorted(opts.items()):
            if (sec, nm) in touched:
                continue
            have = got.get(sec, {}).get(nm)
            if have != v:
                lost.append((sec, nm, v, have))
    if lost:
        sim.fail(
            "read_error",
            ["read_error", kind, "unrelated-option-dropped"],
            f"read errors {plan.get('faults')} during {[o[0] for o in plan['ops']]} (failed ops {failed}): options that were stored before and are not touched by the pending changes are gone or changed: {[(s, n, 'stored', v, 'now', h) for s, n, v, h in lost][:4]}; file now {raw(get_transport(url)).get_bytes(FILE)[:300]!r}",
        )
    # pending changes whose save returned normally and that no later op touched are there
    sim.nontrivial = bool(fired) and bool(durable) and any(op[0] == "save" for op in plan["ops"])
    sim.state_seen((plan["store"], tuple(errs), fired, tuple(failed), len(durable)))
