"""C38 — All git SHA-map cache backends answer identically.

A small native (2a) history with files, directories, symlinks, exec bits, renames and
merges is committed on a simulated store; the real exporter
(`BazaarObjectStore._update_sha_map_revision`) is run once with a recording cache to
obtain, per revision, exactly the `add_object` calls the real code makes.  Every backend
(Dict, Sqlite file, Index on a simulated store, Tdb when importable) is then driven by
the same seeded script the way `_update_sha_map` drives a cache: ask the backend which
revisions are missing, open a write group, add them in topological order, then commit |
abort | crash; persistent backends are closed and re-opened in between.

Oracle, per backend, against two Dict references (C = added in groups whose commit
returned, A = ever added): every query answer must be the reference answer; where C and
A differ (aborted, crashed or still-open groups) either is accepted.  A crashed
commit_write_group of the Index backend must be all-or-nothing after re-opening.

A run (one forked child) evaluates CASES_PER_RUN independent cases, each with its own
stores and files.  Disagreements whose signature is an open entry of
known_findings.json are noted and the case goes on; any other disagreement fails the run
(env VERIF_C38_COLLECT=1 additionally keeps every disagreement of a run in
sim.notes['all_disagreements'], for triage scripts)."""

import copy
import os

from simkit import findings, world
from simkit.sim import HarnessTruncated, SimCrash, Violation

from . import gitsim

PROPERTY = "C38"
LEVEL = "exploration"
RULE = (
    "one case = one of the 8 independent scenarios a run (one forked child) evaluates: a generated native history of 2-6 revisions (files, directories, symlinks, exec bits, renames, "
    "removals, merges; contents from a small pool) plus a script of cache updates (write groups of 1-3 revisions ending in "
    "commit, abort or crash), re-openings and full query sweeps over every backend; non-trivial = at least two revisions were "
    "committed to every backend, a persistent backend was re-opened after data was committed and at least one SHA is reachable "
    "under two different keys or a write group was aborted/crashed; distinct = distinct event-log digests of such runs"
)
COMPONENTS = {
    "real": [
        "breezy.git.cache: DictGitShaMap/DictCacheUpdater, SqliteGitShaMap/SqliteCacheUpdater (real sqlite3 file), IndexGitShaMap/IndexCacheUpdater/IndexGitCacheFormat (BTree index files on the store), TdbGitShaMap when tdb is importable",
        "breezy.git.object_store.BazaarObjectStore._update_sha_map_revision / _revision_to_objects (source of the update sequences)",
        "2a repository, commit builder, MemoryTree, BranchBuilder",
        "dromedary MemoryTransport under the seam",
    ],
    "simulated": ["storage of the history and of the Index backend (every operation through the seam)", "process death inside IndexGitShaMap.commit_write_group (crash fault before/after its put)"],
    "stub": [
        "the driver loop that plays BazaarObjectStore._update_sha_map (missing_revisions -> start_write_group -> add -> commit|abort)",
        "process death of the Sqlite backend = closing its connection without commit",
    ],
}
ASSUMPTIONS = [
    "the Dict backend fed with the same add_object calls is the reference",
    "entries of aborted, crashed or still-open write groups may or may not be visible (they are true facts in a cache); entries of committed groups must be visible, also after re-opening",
    "lookup_git_sha may return any non-empty subset of the reference entries when a SHA is known under several keys (the Index backend keeps one entry per SHA by design)",
    "a backend may leave lookup_tree_id unimplemented (NotImplementedError), as test_cache.py states",
    "str results are accepted where bytes are documented (compared after encoding)",
    "lookup_blob_id is only asked for blob keys and unknown keys, lookup_tree_id only for tree keys and unknown keys (the Dict backend shares one table)",
    "the put of IndexGitShaMap.commit_write_group is atomic",
]
STEP_CAP = 400000
ISOLATION = "fork"  # repositories and sqlite connections: every run starts from the warmed parent image


def warm():
    gitsim.warm_common()
    import sqlite3  # noqa: F401

    import breezy.branchbuilder  # noqa: F401
    import breezy.bzr.groupcompress_repo  # noqa: F401
    from simkit.sim import Sim

    if not getattr(warm, "done", False):
        warm.done = True
        # one dry run of every lazily imported path, before forking
        import random
        import shutil
        import tempfile

        d = tempfile.mkdtemp(prefix="c38warm", dir=os.environ.get("VERIF_SCRATCH_BASE"))
        old = {k: os.environ.get(k) for k in ("VERIF_SCRATCH", "BRZ_HOME", "HOME")}
        os.environ["VERIF_SCRATCH"] = d
        os.environ["BRZ_HOME"] = os.environ["HOME"] = d
        try:
            plan = generate(random.Random(5), "quick")
            execute(Sim(1, plan, step_cap=STEP_CAP), plan)
        except Exception:  # noqa: BLE001 - warming only; real runs report
            pass
        finally:
            for k, v in old.items():
                if v is None:
                    os.environ.pop(k, None)
                else:
                    os.environ[k] = v
            shutil.rmtree(d, ignore_errors=True)
            world.reset_stores()
        # every run is a forked child: keep the collector from touching (and so copying)
        # the pages of everything imported so far
        import gc

        gc.collect()
        gc.freeze()


def config(tier):
    if tier == "thorough":
        return {"budget_s": 600, "run_timeout": 120, "selftest": 32}
    return {"budget_s": 40, "run_timeout": 60, "selftest": 16}


# -- generation ---------------------------------------------------------------------------------


CASES_PER_RUN = 8  # one fork is expensive on this VM; a run evaluates several independent cases


def generate(rng, tier):
    return {"cases": [gen_case(rng) for _ in range(CASES_PER_RUN)]}


def gen_case(rng):
    n = rng.randint(2, 6)
    history = gitsim.gen_history(rng, n)
    ops = []
    pos = 0
    bad = 0
    while pos < n:
        upto = min(n, pos + rng.randint(1, 3))
        r = rng.random()
        outcome = "commit" if r < 0.62 else "abort" if r < 0.82 else "crash"
        if outcome != "commit":
            bad += 1
            if bad > 3:
                outcome = "commit"
        op = {"op": "update", "upto": upto, "outcome": outcome, "midquery": rng.random() < 0.3}
        if outcome == "crash":
            op["applied"] = rng.random() < 0.5
            # mutating store operation of commit_write_group at which the process dies (the
            # put is the first and only one today); stream writes may be torn
            op["at"] = rng.choice([1, 1, 1, 2, 2, 3])
            op["torn"] = rng.choice([None, 0.0, 0.5, 0.9])
        ops.append(op)
        if outcome == "commit":
            pos = upto
        if rng.random() < 0.5:
            ops.append({"op": "reopen", "which": rng.choice([["sqlite"], ["index"], ["sqlite", "index", "tdb"]])})
        ops.append({"op": "query"})
    ops.append({"op": "reopen", "which": ["sqlite", "index", "tdb"]})
    ops.append({"op": "query"})
    return {"history": history, "ops": ops}


def shrink_candidates(plan):
    cases = plan["cases"]
    if len(cases) > 1:
        for i in range(len(cases) - 1, -1, -1):
            yield {"cases": [cases[i]]}
        return
    for c in _shrink_case(cases[0]):
        yield {"cases": [c]}


def _shrink_case(plan):
    from simkit.shrink import generic_candidates

    h = plan["history"]
    for k in range(1, len(h)):
        p = copy.deepcopy(plan)
        p["history"] = h[:k]
        for op in p["ops"]:
            if op["op"] == "update":
                op["upto"] = min(op["upto"], k)
        yield p
    for i, r in enumerate(h):
        if len(r["actions"]) > 1:
            for j in range(len(r["actions"])):
                if r["actions"][j][0] in ("modify", "chmod", "retarget"):
                    p = copy.deepcopy(plan)
                    del p["history"][i]["actions"][j]
                    yield p
    yield from generic_candidates(plan)


# -- backends -------------------------------------------------------------------------------------


class Backend:
    persistent = False

    def __init__(self, name, tag=""):
        self.name = name
        self.tag = tag  # distinguishes the files of the cases of one run
        self.ref = gitsim.Ref()
        self.open()

    @property
    def idmap(self):
        return self.cache.idmap

    def reopen(self):
        pass

    def kill(self):
        """The process dies now (inside an open write group)."""


class DictBackend(Backend):
    def open(self):
        from breezy.git.cache import DictBzrGitCache

        self.cache = DictBzrGitCache()


class SqliteBackend(Backend):
    persistent = True

    def open(self):
        from breezy.git import cache as gcache

        self.path = os.path.join(os.environ["VERIF_SCRATCH"], f"idmap{self.tag}.db")
        self.cache = gcache.SqliteBzrGitCache(self.path)

    def close(self):
        from breezy.git import cache as gcache

        self.cache.idmap.db.close()  # uncommitted changes are rolled back, as at process exit
        gcache.mapdbs().pop(self.path, None)

    def reopen(self):
        self.close()
        self.open()

    kill = reopen


class TdbBackend(Backend):
    persistent = True

    def open(self):
        from breezy.git import cache as gcache

        self.path = os.path.join(os.environ["VERIF_SCRATCH"], f"idmap{self.tag}.tdb")
        self.cache = gcache.TdbBzrGitCache(self.path)

    def reopen(self):
        from breezy.git import cache as gcache

        self.cache.idmap.db.close()
        gcache.mapdbs().pop(self.path, None)
        self.open()

    kill = reopen


class IndexBackend(Backend):
    persistent = True

    def __init__(self, name, transport):
        self.transport = transport
        Backend.__init__(self, name)

    def open(self):
        from breezy.git.cache import BzrGitCacheFormat

        # first call initialises the default (index) format, later calls open it
        self.cache = BzrGitCacheFormat.from_transport(self.transport.clone())

    def reopen(self):
        self.open()

    kill = reopen


# -- execution ------------------------------------------------------------------------------------


class Run:
    def __init__(self, sim, plan, case_no=0):
        self.sim = sim
        self.plan = plan
        self.case_no = case_no
        self.known = findings.load(PROPERTY)
        self.unknown = {}  # signature -> first detail
        self.noted = set()
        self.nontrivial = False

    def disagree(self, backend, query, kind, detail):
        sig = ["disagree", backend, query, kind]
        self.sim.probe("disagree:" + ":".join(sig[1:]))
        if findings.match(self.known, sig) is not None:
            if tuple(sig) not in self.noted:
                self.noted.add(tuple(sig))
                self.sim.notes.setdefault("known", []).append(sig)
            return
        self.sim.event("DISAGREE", *sig[1:])
        self.unknown.setdefault(tuple(sig), detail)
        if os.environ.get("VERIF_C38_COLLECT"):
            self.sim.notes.setdefault("all_disagreements", {}).setdefault(":".join(sig[1:]), detail)

    def finish(self):
        """One violation per run: when a case shows several unknown disagreements, the
        one reported is chosen by a seed-dependent but stable rank, so that across runs
        every signature surfaces and none masks the others."""
        if self.unknown:
            import hashlib

            sig = min(self.unknown, key=lambda s: hashlib.sha1(f"{self.sim.seed}:{s}".encode()).hexdigest())
            others = [":".join(s[1:]) for s in self.unknown if s != sig]
            more = f" (also in this case: {others})" if others else ""
            self.sim.fail("backends_agree", list(sig), f"case {self.case_no}: {self.unknown[sig]}{more}")


def execute(sim, plan):
    import hashlib

    warm()
    world.setup_sim(sim)
    subs = []
    for n, case in enumerate(plan["cases"]):
        start = len(sim.log)
        sim.event("case", n)
        sim.notes["evaluations"] = n + 1
        run = Run(sim, case, n)
        try:
            run_case(sim, run, case, n)
        finally:
            if run.nontrivial:
                h = hashlib.sha1()
                for e in sim.log[start + 1 :]:
                    h.update("\x1f".join(e).encode("utf-8", "replace") + b"\n")
                subs.append(h.hexdigest()[:20])
            sim.nontrivial = bool(subs)
            sim.notes["sub_digests"] = subs


def run_case(sim, run, plan, case_no):
    from breezy.transport import get_transport

    history = plan["history"]
    branch = gitsim.build_history(get_transport(world.new_store("h")).clone("br"), history)
    revids = [r["revid"].encode() for r in history]
    rec = gitsim.record_updates(branch.repository, revids)
    uni = _universe(rec, revids)
    sim.event("history", len(revids), len(uni["shas"]), len(uni["blob_keys"]), len(uni["tree_keys"]), uni["multi"])

    backends = [DictBackend("dict"), SqliteBackend("sqlite", str(case_no)), IndexBackend("index", get_transport(world.new_store("cache")))]
    try:
        import tdb  # noqa: F401

        backends.append(TdbBackend("tdb", str(case_no)))
    except ImportError:
        sim.probe("tdb_unavailable")
    stats = {"reopened_with_data": False, "bad_groups": 0, "sweeps": 0}
    broken = set()  # backends that raised outside a query: reported, then left alone
    try:
        for i, op in enumerate(plan["ops"]):
            kind = op["op"]
            if kind == "update":
                for b in backends:
                    if b.name in broken:
                        continue
                    try:
                        _update(run, b, op, i, revids, rec, uni, stats)
                    except (SimCrash, Violation, HarnessTruncated):
                        raise
                    except _Unreadable:
                        broken.add(b.name)
                    except Exception as e:  # noqa: BLE001 - no step of a cache update may fail like this
                        _backend_raised(run, b, "update", e, f"op {i} (update to {op['upto']}, {op['outcome']})", broken)
            elif kind == "reopen":
                for b in backends:
                    if b.persistent and b.name in op["which"] and b.name not in broken:
                        if _committed(b):
                            stats["reopened_with_data"] = True
                        try:
                            b.reopen()
                        except (SimCrash, Violation, HarnessTruncated):
                            raise
                        except Exception as e:  # noqa: BLE001
                            _backend_raised(run, b, "open", e, f"op {i} (reopen)", broken)
                            continue
                        sim.event("reopen", i, b.name)
                        sim.probe("reopen:" + b.name)
            elif kind == "query":
                for b in backends:
                    if b.name not in broken:
                        _sweep(run, b, uni, f"op {i} (query)")
                stats["sweeps"] += 1
            sim.state_seen(tuple((b.name, len(_committed(b)), len(_ever(b)) - len(_committed(b))) for b in backends))
    finally:
        for b in backends:
            if isinstance(b, SqliteBackend):
                try:
                    b.close()
                except Exception:  # noqa: BLE001
                    pass
    run.nontrivial = (
        all(len(_committed(b)) >= 2 for b in backends)
        and stats["reopened_with_data"]
        and stats["sweeps"] >= 1
        and (uni["multi"] > 0 or stats["bad_groups"] > 0)
    )
    run.finish()


def _backend_raised(run, b, step, e, where, broken):
    """Opening a cache, write-group calls and add_object may not raise (and after a crash a
    fresh opener must see the old or the new state): a violation, never a harness error."""
    import traceback

    fn = "?"
    tb = e.__traceback__
    while tb is not None:
        code = tb.tb_frame.f_code
        if "/breezy/git/cache.py" in code.co_filename:
            fn = code.co_name
        tb = tb.tb_next
    if fn == "?" and not isinstance(e, Exception):
        raise e
    run.disagree(b.name, f"{step}:{fn}", "raised:" + type(e).__name__, f"{where} backend {b.name}: {type(e).__name__}: {str(e)[:300]}\n{''.join(traceback.format_tb(e.__traceback__)[-3:])[:600]}")
    broken.add(b.name)


def _committed(b):
    return set(b.ref.C.idmap._by_revid)


def _ever(b):
    return set(b.ref.A.idmap._by_revid)


def _universe(rec, revids):
    shas, blob_keys, tree_keys = {}, set(), set()
    for revid in revids:
        _rev, adds = rec[revid]
        for obj, key, _path in adds:
            t = gitsim.obj_type(obj)
            shas.setdefault(gitsim.obj_sha(obj), set()).add((t, key if t != "commit" else revid))
            if t == "blob":
                blob_keys.add(key)
            elif t == "tree":
                tree_keys.add(key)
    fileids = sorted({k[0] for k in blob_keys | tree_keys})
    bogus_keys = {(b"no-such-file-id", revids[0]), (fileids[0], b"no-such-rev")}
    # cross keys: a real file id with a real revision in which it was not changed
    for f in fileids[:6]:
        for r in revids:
            if (f, r) not in blob_keys and (f, r) not in tree_keys:
                bogus_keys.add((f, r))
                break
    return {
        "revids": list(revids) + [b"rev-unknown"],
        "shas": sorted(shas) + [b"5686645d49063c73d35436192dfc9a160c672301"],
        "blob_keys": sorted(blob_keys),
        "tree_keys": sorted(tree_keys),
        "bogus_keys": sorted(bogus_keys),
        "multi": sum(1 for v in shas.values() if len(v) > 1),
    }


def _update(run, b, op, i, revids, rec, uni, stats):
    """What BazaarObjectStore._update_sha_map does for the revisions revids[:upto]."""
    sim = run.sim
    target = revids[: op["upto"]]
    where = f"op {i} (update to {op['upto']}, {op['outcome']}) backend {b.name}"
    missing = _q_missing(run, b, set(target), where)
    todo = [r for r in target if r in missing]
    if not todo:
        sim.event("update", i, b.name, "nothing-missing")
        return
    outcome = op["outcome"]
    if outcome == "crash" and not b.persistent:
        outcome = "commit"
    b.idmap.start_write_group()
    for n, r in enumerate(todo):
        gitsim.apply_revision(b.cache, rec[r])
        gitsim.apply_revision(b.ref.A, rec[r])
        if op.get("midquery") and n == 0:
            _sweep(run, b, uni, where + " inside the write group")
    if outcome == "commit":
        b.idmap.commit_write_group()
        for r in todo:
            gitsim.apply_revision(b.ref.C, rec[r])
    elif outcome == "abort":
        b.idmap.abort_write_group()
        stats["bad_groups"] += 1
    else:
        stats["bad_groups"] += 1
        if isinstance(b, IndexBackend):
            fault = {"kind": "crash", "at": int(op.get("at", 1)), "count": "mut", "applied": bool(op.get("applied"))}
            if op.get("torn") is not None:
                fault["torn"] = op["torn"]
            fired = sum(sim.faults_fired.values())
            sim.arm([fault])
            crashed = False
            try:
                b.idmap.commit_write_group()
            except SimCrash:
                crashed = True
            sim.disarm()
            if not crashed:
                if sum(sim.faults_fired.values()) != fired:
                    raise AssertionError("harness: the crash fired but commit_write_group returned")
                # commit_write_group has fewer mutating operations than the crash point: it completed
                for r in todo:
                    gitsim.apply_revision(b.ref.C, rec[r])
                sim.probe("crash_point_beyond_commit")
                sim.event("update", i, b.name, "commit(no crash)", len(todo))
                return
            sim.restart_main()
            b.reopen()
            state = [_has_commit(run, b, r, where) for r in todo]
            if "raised" in state:
                sim.probe("crash_group_unreadable")
                raise _Unreadable()
            present = [r for r, st in zip(todo, state) if st]
            if present and len(present) != len(todo):
                run.disagree(
                    b.name, "crash-in-commit_write_group", "partial-group",
                    f"{where}: after the crash (at mutating op {fault['at']}, {'applied' if op.get('applied') else 'dropped'}, torn {op.get('torn')}) and re-opening, only {present} of the group {todo} are present",
                )
            if len(present) == len(todo):
                for r in todo:
                    gitsim.apply_revision(b.ref.C, rec[r])
            sim.probe("crash_group_survived" if present else "crash_group_lost")
        else:
            b.kill()
            sim.probe("killed:" + b.name)
    sim.event("update", i, b.name, outcome, len(todo))
    sim.probe(f"group:{outcome}")


class _Unreadable(Exception):
    """(internal) the backend was reported as raising from a lookup; stop driving it."""


def _has_commit(run, b, revid, where):
    """True / False / 'raised' (reported: a lookup answers or raises KeyError, nothing else)."""
    try:
        b.idmap.lookup_commit(revid)
        return True
    except KeyError:
        return False
    except (SimCrash, Violation, HarnessTruncated):
        raise
    except Exception as e:  # noqa: BLE001
        run.disagree(b.name, "lookup_commit", "raised:" + type(e).__name__, f"{where}: after the crash in commit_write_group and re-opening, lookup_commit({revid!r}) raised {type(e).__name__}: {str(e)[:300]}")
        return "raised"


def _b(v):
    return v.encode("ascii") if isinstance(v, str) else v


def _q_missing(run, b, q, where):
    C, A = _committed(b), _ever(b)
    lo, hi = q - A, q - C
    out = None
    for arg in (set(q), sorted(q)):
        try:
            got = {_b(x) for x in b.idmap.missing_revisions(arg)}
        except Exception as e:  # noqa: BLE001 - the property allows no exception here
            run.disagree(b.name, "missing_revisions", "raised:" + type(e).__name__, f"{where}: missing_revisions({arg!r}) raised {type(e).__name__}: {e}")
            got = set(hi)
        if not (lo <= got <= hi):
            kind = "too-few" if not lo <= got else "too-many"
            run.disagree(b.name, "missing_revisions", kind, f"{where}: missing_revisions({sorted(q)}) = {sorted(got)}; committed {sorted(C)}, ever added {sorted(A)}")
        out = got if out is None else out
    return out & hi | lo


def _lookup(run, b, qname, fn, args, c_fn, a_fn, where):
    """A single-valued lookup with KeyError = unknown."""

    def ref(f):
        try:
            return f(*args)
        except KeyError:
            return None

    want_c, want_a = ref(c_fn), ref(a_fn)
    try:
        got = _b(fn(*args))
    except KeyError:
        got = None
    except NotImplementedError:
        run.sim.probe(f"not_implemented:{b.name}:{qname}")
        return
    except Exception as e:  # noqa: BLE001
        run.disagree(b.name, qname, "raised:" + type(e).__name__, f"{where}: {qname}{args} raised {type(e).__name__}: {e}")
        return
    legal = {want_a} | ({None} if want_c is None else set())
    if want_c is not None:
        legal = {want_c}
    if got not in legal:
        kind = "missing" if got is None else ("spurious" if want_a is None else "wrong-value")
        run.disagree(b.name, qname, kind, f"{where}: {qname}{args} = {got!r}; reference (committed) {want_c!r}, (ever added) {want_a!r}")


def _sweep(run, b, uni, where):
    sim = run.sim
    m = b.idmap
    C, A = b.ref.C.idmap, b.ref.A.idmap
    n = 0
    for revid in uni["revids"]:
        _lookup(run, b, "lookup_commit", m.lookup_commit, (revid,), C.lookup_commit, A.lookup_commit, where)
        n += 1
    for key in uni["blob_keys"] + uni["bogus_keys"]:
        _lookup(run, b, "lookup_blob_id", m.lookup_blob_id, key, C.lookup_blob_id, A.lookup_blob_id, where)
        n += 1
    for key in uni["tree_keys"] + uni["bogus_keys"]:
        _lookup(run, b, "lookup_tree_id", m.lookup_tree_id, key, C.lookup_tree_id, A.lookup_tree_id, where)
        n += 1
    for sha in uni["shas"]:
        n += 1

        def ref(idmap):
            try:
                return gitsim.norm_entries(idmap.lookup_git_sha(sha))
            except KeyError:
                return None

        want_c, want_a = ref(C), ref(A)
        try:
            entries = list(m.lookup_git_sha(sha))
            got = gitsim.norm_entries(entries)
            if not entries:
                run.disagree(b.name, "lookup_git_sha", "empty-no-keyerror", f"{where}: lookup_git_sha({sha!r}) yields nothing instead of raising KeyError")
                got = None
        except KeyError:
            got = None
        except Exception as e:  # noqa: BLE001
            run.disagree(b.name, "lookup_git_sha", "raised:" + type(e).__name__, f"{where}: lookup_git_sha({sha!r}) raised {type(e).__name__}: {e}")
            continue
        if got is None:
            if want_c is not None:
                run.disagree(b.name, "lookup_git_sha", "missing", f"{where}: lookup_git_sha({sha!r}) raises KeyError; reference {sorted(want_c)}")
        elif want_a is None:
            run.disagree(b.name, "lookup_git_sha", "spurious", f"{where}: lookup_git_sha({sha!r}) = {sorted(got)}; the reference does not know this SHA")
        elif not got <= want_a:
            run.disagree(b.name, "lookup_git_sha", "wrong-value", f"{where}: lookup_git_sha({sha!r}) = {sorted(got)}; reference {sorted(want_a)}")
    for qname, fn, c_set, a_set in (
        ("revids", m.revids, set(C.revids()), set(A.revids())),
        ("sha1s", m.sha1s, set(C.sha1s()), set(A.sha1s())),
    ):
        n += 1
        try:
            got = {_b(x) for x in fn()}
        except Exception as e:  # noqa: BLE001
            run.disagree(b.name, qname, "raised:" + type(e).__name__, f"{where}: {qname}() raised {type(e).__name__}: {e}")
            continue
        if not c_set <= got:
            run.disagree(b.name, qname, "missing", f"{where}: {qname}() lacks {sorted(c_set - got)[:6]}")
        elif not got <= a_set:
            run.disagree(b.name, qname, "spurious", f"{where}: {qname}() has unknown {sorted(got - a_set)[:6]}")
    _q_missing(run, b, set(uni["revids"]), where)
    sim.event("sweep", b.name, where.split(" backend")[0], n)
    sim.probe("queries", n)
