"""C29 — Smart protocol messages survive the wire unchanged.

Requests and responses drawn from a grammar (args, body bytes, readv arrays, streamed
bodies, errors mid-stream; protocol v1, v2, v3; echo verbs plus the real hello/get/readv
verbs) are encoded by the real client (`_SmartClientRequest` -> requesters) into a
SimPipe, decoded by the real server medium loop (pipe or socket flavour), answered by the
real responders and decoded by the real client response handlers.  The schedule of a run
is the segmentation of both byte streams; several requests may be in flight back to
back.  Everything decoded is compared with the model of what was encoded (`MWire`), and
the logical read position of each side must be exactly the end of message k when it
reports message k complete."""

from . import wiresim

PROPERTY = "C29"
LEVEL = "exploration"
RULE = (
    "one case = one seeded run: 1-6 request/response exchanges on one connection (protocol version, verb shape, args, "
    "body/readv/stream/error shape, response shape, client read style per exchange; optionally pipelined) x a seeded "
    "segmentation of every message in both directions x server medium flavour and read semantics; non-trivial = at least "
    "one message was delivered in >= 2 reads with >= 1 read boundary strictly inside it; distinct = distinct event-log "
    "digests (the log holds every delivered segment) of such runs"
)
COMPONENTS = {
    "real": [
        "breezy.bzr.smart.client._SmartClient/_SmartClientRequest (_send, _construct_protocol)",
        "protocol.SmartClientRequestProtocolOne/Two, ProtocolThreeRequester, ProtocolThreeDecoder, LengthPrefixedBodyDecoder, ChunkedBodyDecoder",
        "message.ConventionalResponseHandler / ConventionalRequestHandler",
        "medium.SmartClientStreamMedium + SmartClientStreamMediumRequest (read_bytes, _get_line, _push_back)",
        "medium.SmartServerPipeStreamMedium and SmartServerSocketStreamMedium: _build_protocol, _serve_one_request(_unguarded), _push_back",
        "protocol.SmartServerRequestProtocolOne/Two, ProtocolThreeResponder, request.SmartServerRequestHandler, request_handlers registry",
        "vfs GetRequest/ReadvRequest, HelloRequest on a dromedary MemoryTransport",
        "osutils.read_bytes_from_socket / send_all (socket flavour)",
        "driven directly, encoder -> decoder without a medium (about 12% of the exchanges): LengthPrefixedBodyDecoder, ChunkedBodyDecoder and "
        "ProtocolThreeDecoder fed with _encode_bulk_data / _send_stream / ProtocolThreeResponder output followed by foreign bytes, to observe "
        "decoder.unused_data (no medium in breezy consumes the unused_data of the two body decoders on the client side, so the full loop cannot see it)",
    ],
    "simulated": [
        "the two byte streams (SimPipe): segmentation of written bytes, short reads, recv() ignoring the requested size, what is in flight",
        "request pipelining (several complete requests in flight before the first response is read)",
    ],
    "stub": [
        "socket object given to SmartServerSocketStreamMedium (recv/send on SimPipes); its select() wait is skipped",
        "echo request handlers sim.nobody / sim.body / sim.early (scripted responses, record what they were given; sim.early takes a body but answers from do(), as PutRequest.do does when it refuses its path)",
        "pipelining shim: the stream medium's one-request-at-a-time guard (_current_request) is released by the harness between sends; "
        "a client-side v3 body stream that raises is answered through a hand-built ConventionalResponseHandler because _send loses its own",
    ],
}
ASSUMPTIONS = [
    "v1/v2 argument bytes never contain \\x01 or \\n and the first response word is not a v1 error code unless the response is a failure (the encoding is not claimed to carry them); v3 arguments are arbitrary bytes",
    "a client knows whether the verb takes a body (v1/v2 requests to unknown verbs carry no body) and whether the response carries one (expect_body matches for v1/v2)",
    "responses are read one at a time: while the client decodes response k no byte of response k+1 is deliverable (breezy's client never pipelines), requests may be pipelined to the server",
    "a read that can never return fails the run here too: nothing in flight while the peer waits, or - in the run variants that model a blocking buffered read(n) - n larger than what is in flight; a read that merely asks for more than the current message holds but would return short is not judged (that is C30)",
    "server-side body chunk boundaries are only compared for v3 (v1/v2 hand the handler arbitrary pieces); v2 failures in a response stream are FailedSmartServerResponse chunks (an exception in a v2 stream kills the connection by design)",
]
ISOLATION = "thread"
STEP_CAP = 400000


def warm():
    wiresim.warm()


def config(tier):
    if tier == "thorough":
        return {"budget_s": 600, "run_timeout": 60, "selftest": 64}
    return {"budget_s": 40, "run_timeout": 30, "selftest": 32}


def generate(rng, tier):
    return wiresim.gen_plan(rng, tier, strict=False)


def execute(sim, plan):
    wiresim.run_plan(sim, plan, strict=False)


shrink_candidates = wiresim.shrink_candidates
