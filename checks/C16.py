"""C16 — Uncommit undoes commit.

World: a subject tree X in a real directory - standalone (branch + repository in the same
directory), a lightweight checkout of a branch on a simulated memory store, or a
heavyweight checkout bound to a master on the store (plus M, a lightweight checkout of the
master for commits that make X out of date) - and two side trees Y, Z with branches of
their own that pull from X, commit and get merged back (`merge_from_branch`, real content
merges of disjoint files), so that X's history has merges, merges of merges and commits
with 1-2 pending merges.  Tags are set on mainline, merged and side revisions.

Operations (seeded history of 8-20): commit in X (optionally `local=True`; optionally
followed at once by the depth-1 round trip `uncommit(branch, tree=tree)` and a re-commit),
side commit, merge, tag, `uncommit(branch, tree=?, revno=?, keep_tags=?, local=?)` of depth
1-4, direct commit to the master, update, reopen.

Oracles.  Round trip: tip, revno, master tip, `tree.get_parent_ids()` (order included),
`iter_changes(basis)`, tags and every file (bytes, mode, mtime) equal the values before the
commit.  Every uncommit: tip = k-th left-hand ancestor (NULL when the history is used up),
revno = old - k, master moves with the local branch unless `local=True`; tree parents =
new tip followed by the merged revisions of the removed mainline revisions in merge order
(oldest removed revision first), reduced to heads; files untouched; tags whose revision is
in the ancestry of the old tip but of none of the new parents are gone (from the master
too, for a bound non-local uncommit) unless keep_tags, all other tags stay.  Out-of-date
bound branch => BoundBranchOutOfDate, `local=True` on an unbound branch =>
LocalRequiresBoundBranch, nothing changes.

Failing tip writes: some uncommits run with the write of the master's or the local branch's
tip failing - an error raised before the put of `last-revision` at the storage seam, or a
`pre_change_branch_tip` hook vetoing the change (TipChangeRejected).  uncommit must raise and
may have done only a prefix of (master tip, local tip, tree parents, tags): with the local
tip unmoved the tree's parents, its pending changes, the tags and all files are as before;
the master is unmoved when its own write failed and is at the old or the new tip when the
local write failed.  The run ends after a failure that fired."""

import json
import os

from simkit import findings, world
from simkit.sim import SimCrash

from . import cosim, storesim
from . import treesim as T
from .cosim import NULL

PROPERTY = "C16"
LEVEL = "exploration"
ISOLATION = "thread"
STEP_CAP = 400000
RULE = (
    "one case = one seeded history (8-20 operations: commits with 0-2 pending merges, side commits, merges, tags, uncommits of depth 1-4 with "
    "keep_tags / local / tree variants, depth-1 commit+uncommit round trips, direct master commits, update) on a standalone tree, a lightweight "
    "checkout or a bound checkout; non-trivial = at least one uncommit removed a merge revision, removed >= 2 revisions, met a tag on a removed "
    "or merged revision, was refused, or ran with a failing tip write; distinct = distinct event-log digests of such runs"
)
COMPONENTS = {
    "real": [
        "breezy.uncommit.uncommit (left-hand walk, pending-merge reconstruction) and src/uncommit.rs remove_tags through breezy._cmd_rs",
        "breezy.commit (commits with pending merges, bound / local), WorkingTree.merge_from_branch / set_parent_ids (heads filter) / update",
        "breezy.bzr.branch.BzrBranch.set_last_revision_info, get_master_branch, BasicTags set_tag / delete_tag (propagation to the master)",
        "vcsgraph Graph.iter_lefthand_ancestry / find_unique_ancestors / heads over the real repository indices",
        "dirstate working trees on /dev/shm; standalone, lightweight and heavyweight (bound) layouts",
    ],
    "simulated": ["disk of store-hosted branches (SimTransport over memory transport) and of every control directory (sim+file://)", "failure of a branch-tip write during uncommit (err_before at the put of last-revision; a vetoing pre_change_branch_tip hook)", "the user's history (seeded)", "process restart (fresh objects)", "clock of breezy.lockdir"],
    "stub": ["UI (SilentUIFactory)", "user identity / BRZ_HOME (scratch)"],
}
ASSUMPTIONS = [
    "every commit adds one new file with a run-unique name, so merges and updates never conflict (a run whose tree reports conflicts stops without verdict)",
    "pending merges the tree already had when uncommit is called are expected to stay pending; their position relative to each other and to the re-recorded merges is NOT judged (uncommit.py reverses them: [p1, p2] comes back as [p2, p1]; the property text is silent) - the re-recorded merges' own order is judged",
    "when the uncommit uses up the whole left-hand history (new tip = null) and merged revisions are re-recorded, the first of them becomes the tree's basis; only the set of parents is judged then",
    "uncommit without a tree leaves the tree alone (and out of date); generated only as the last operation of a run; the tags of merged revisions are then dropped too (no pending merge keeps them reachable) - follows remove_tags(parents=[new tip])",
    "for `local=True` on a bound branch only the local branch and its tags are judged (BasicTags.delete_tag also deletes the tag in the master although the master keeps the revision: reported as an observation, the property text does not cover it)",
    "tree parents after commit / merge / update are read from the real tree (they feed the graph model; C09 / C23 judge those operations); parents after uncommit are predicted",
    "ghost merge parents: a pending merge id absent from every repository is set through set_parent_ids right before some commits; it is an ordinary head for the parent filter, has no ancestry and carries no tags; commit records it and uncommit must bring it back in place",
    "mtime is compared at nanosecond resolution through os.lstat; uncommit must not rewrite any file",
    "failed uncommit: the property text only speaks of successful uncommits; judged is the order the code documents and C23 states for commits (master first, then local, then tree, then tags): whatever was not reached must be unchanged, in particular a tree must never be rewritten while its branch tip stays; a master that moved while the local write failed is accepted; faults after the tip writes (tree / tag steps) are not injected (the dirstate has no seam)",
    "a process-wide pre_change_branch_tip hook is installed in warm(); it only acts when the running simulation arms it",
]


def config(tier):
    if tier == "thorough":
        return {"budget_s": 700, "run_timeout": 180, "selftest": 24, "max_runs": 8000}  # in-process runs keep ~0.3 MB each
    return {"budget_s": 50, "run_timeout": 180, "selftest": 12}


KINDS = ["standalone", "light", "bound", "bound"]

# --------------------------------------------------------------------------------------
# model
# --------------------------------------------------------------------------------------


def filter_parents(g, revs):
    """WorkingTree.set_parent_trees: the first one always; later ones only when they are
    heads of the whole list and not yet taken."""
    if not revs:
        return []
    out = [revs[0]]
    for r in revs[1:]:
        if r in out:
            continue
        if any(o != r and r in g.ancestry(o) for o in revs):
            continue
        out.append(r)
    return out


class Model:
    def __init__(self, kind):
        self.kind = kind
        self.g = cosim.Graph()
        self.tip = NULL
        self.parents = []  # of X's tree
        self.tags = {}
        self.bound = kind == "bound"
        self.master = NULL
        self.mtags = {}
        self.mbasis = NULL
        self.side = {"Y": NULL, "Z": NULL}

    def predict_uncommit(self, a, k):
        g = self.g
        lh = g.lefthand(self.tip)
        old = len(lh)
        if a.get("local") and not self.bound:
            return {"refusal": "LocalRequiresBoundBranch"}
        via_master = self.bound and not a.get("local")
        if via_master and self.tip != self.master:
            return {"refusal": "BoundBranchOutOfDate"}
        new_tip = lh[k] if k < old else NULL
        removed = lh[:k]
        existing = list(self.parents[1:]) if a.get("tree", True) else []
        rerecorded = []  # in the order they come back: oldest removed revision first
        acc = list(existing)
        for r in removed:
            acc.extend(reversed(g.parents[r][1:]))
        for r in reversed(removed):
            rerecorded.extend(g.parents[r][1:])
        raw = [new_tip] if new_tip != NULL else []
        if a.get("tree", True):
            raw += list(reversed(acc))  # without a tree nothing records the merged revisions
        keep = set()
        for p in raw:
            keep |= g.ancestry(p)
        gone = g.ancestry(self.tip) - keep
        dropped = set() if a.get("keep_tags") else {n for n, r in self.tags.items() if r in gone}
        return {
            "refusal": None,
            "via_master": via_master,
            "tip": new_tip,
            "revno": old - k,
            "raw": raw,
            "parents": filter_parents(g, raw),
            "existing": existing,
            "rerecorded": rerecorded,
            "dropped": dropped,
            "removed": removed,
            "gone": gone,
        }


# --------------------------------------------------------------------------------------
# generation
# --------------------------------------------------------------------------------------


def generate(rng, tier):
    kind = rng.choice(KINDS)
    ops = []
    n = 0

    def fresh():
        nonlocal n
        n += 1
        return n

    w = {
        "commit": 4,
        "merge": rng.choice([3, 4, 5]),
        "tag": rng.choice([1, 2, 3]),
        "uncommit": rng.choice([3, 4, 5]),
        "reopen": 1,
    }
    if kind == "bound":
        w.update(mcommit=rng.choice([0, 1, 2]), update=rng.choice([1, 2]), lcommit=rng.choice([0, 1, 2]))
    pool = [k for k, v in sorted(w.items()) for _ in range(v)]
    p_undo = rng.choice([0.15, 0.3, 0.5])

    def commit(local=False):
        ops.append(["commit", {"n": fresh(), "undo": rng.random() < p_undo, "local": local}])

    def tag(where):
        ops.append(["tag", {"name": "t%d" % fresh(), "pick": rng.randrange(1000), "where": where}])

    commit()
    depth = 1
    total = rng.randint(8, 20)
    while len(ops) < total:
        kind_op = rng.choice(pool)
        if kind_op in ("commit", "lcommit"):
            if rng.random() < 0.12:
                ops.append(["ghost", {"n": fresh()}])
            commit(local=kind_op == "lcommit")
            depth += 1
        elif kind_op == "merge":
            # an episode: side work, 1-2 merges, a commit that records them, tags around it
            who = rng.choice([["Y"], ["Z"], ["Y", "Z"], ["Y", "Z"], ["Z", "Y"]])
            for s in who:
                for _ in range(rng.choice([1, 1, 2])):
                    ops.append(["side", {"n": fresh(), "who": s, "sync": rng.random() < 0.4}])
            for s in who:
                ops.append(["merge", {"who": s}])
            if rng.random() < 0.85:
                if rng.random() < 0.3:
                    ops.append(["ghost", {"n": fresh()}])
                commit()
                depth += 1
                if rng.random() < 0.5:
                    tag(rng.choice(["merged", "merged", "tip"]))
        elif kind_op == "tag":
            tag(rng.choice(["any", "tip", "tip", "merged", "merged"]))
        elif kind_op == "uncommit":
            back = rng.choice([1, 1, 1, 2, 2, 3, 4])
            a = {"back": back, "keep_tags": rng.random() < 0.3, "tree": True}
            if kind == "bound" and rng.random() < 0.3:
                a["local"] = True
            elif kind != "bound" and rng.random() < 0.06:
                a["local"] = True
            if rng.random() < 0.2:
                a["default_revno"] = True
                a["back"] = 1
            if rng.random() < 0.2:
                a["fault"] = {"how": rng.choice(["err", "err", "hook"]), "which": rng.choice(["master", "local"]), "err": rng.choice(["transport", "enospc", "connection"])}
            ops.append(["uncommit", a])
            depth = max(0, depth - a["back"])
            if depth == 0:
                ops.append(["commit", {"n": fresh(), "undo": False}])
                depth = 1
        elif kind_op == "mcommit":
            ops.append(["mcommit", {"n": fresh()}])
        elif kind_op == "update":
            ops.append(["update"])
        else:
            ops.append(["reopen"])
    if rng.random() < 0.15:
        ops.append(["uncommit", {"back": rng.choice([1, 2]), "keep_tags": rng.random() < 0.3, "tree": False}])
    return {"kind": kind, "ops": ops}


# --------------------------------------------------------------------------------------
# execution
# --------------------------------------------------------------------------------------


def file_stats(root):
    """path -> (kind, size, mode, mtime_ns, bytes | link target) below root, control dir excluded."""
    out = {}

    def walk(rel):
        for name in sorted(os.listdir(os.path.join(root, rel))):
            if rel == "" and name == ".bzr":
                continue
            p = os.path.join(rel, name) if rel else name
            full = os.path.join(root, p)
            st = os.lstat(full)
            if os.path.islink(full):
                out[p] = ("symlink", os.readlink(full))
            elif os.path.isdir(full):
                out[p] = ("directory",)
                walk(p)
            else:
                with open(full, "rb") as f:
                    out[p] = ("file", st.st_size, st.st_mode, st.st_mtime_ns, f.read())

    walk("")
    return out


def stats_diff(a, b):
    out = []
    for p in sorted(set(a) | set(b)):
        if a.get(p) != b.get(p):
            x, y = a.get(p), b.get(p)
            out.append((p, x[:4] if x else None, y[:4] if y else None))
    return out[:6]


def execute(sim, plan):
    warm()
    cosim.start_tracking()
    try:
        _execute(sim, plan)
    finally:
        cosim.dispose_repos()


def _execute(sim, plan):
    from breezy import errors
    from breezy import uncommit as _uncommit
    from breezy.controldir import ControlDir

    T.quiet()
    T.settle_randomness(sim.seed)
    sim.disarm()
    world.setup_sim(sim)
    kind = plan["kind"]
    roots = {c: cosim.scratch("w", c) for c in ("X", "Y", "Z", "M")}
    cosim.mask_log(sim, roots["X"])
    known = findings.load(PROPERTY)
    store = world.new_store("c16")
    fmt = storesim.fmt_obj("2a")
    murl = None
    if kind == "standalone":
        os.makedirs(roots["X"])
        wt = ControlDir.create_standalone_workingtree(roots["X"], format=fmt)
        with wt.lock_write():
            wt.set_root_id(T.ROOT_ID)
        del wt
        xurl = "sim+file://" + roots["X"]
    elif kind == "light":
        xurl = store + "x"
        cosim.light_checkout(storesim.make_branch(xurl, "2a"), roots["X"])
    else:
        murl = store + "master"
        master = storesim.make_branch(murl, "2a")
        cosim.heavy_checkout(master, roots["X"])
        cosim.light_checkout(master, roots["M"])
        del master
        xurl = "sim+file://" + roots["X"]
    for s in ("Y", "Z"):
        os.makedirs(roots[s])
        wt = ControlDir.create_standalone_workingtree(roots[s], format=fmt)
        with wt.lock_write():
            wt.set_root_id(T.ROOT_ID)
        del wt
    m = Model(kind)
    trees = {}

    def tree(c):
        if c not in trees:
            trees[c] = T.open_tree(roots[c], "bzr")
        return trees[c]

    def reopen():
        trees.clear()

    def new_file(c, n):
        name = "%s%d" % (c.lower(), n)
        with open(os.path.join(roots[c], name), "wb") as f:
            f.write(T.content(n))
        tree(c).add([name], ids=[("id-" + name).encode()])

    def commit(c, n, rev, local=False):
        return tree(c).commit(message="m " + rev, rev_id=rev.encode(), timestamp=1700000000 + n, timezone=0, committer=cosim.COMMITTER, local=local, reporter=T._quiet_reporter())

    def tags_of(url):
        b = storesim.open_branch(url)
        with b.lock_read():
            return {k: v.decode() for k, v in b.tags.get_tag_dict().items()}

    def snapshot(files=True):
        reopen()
        out = {"local": cosim.branch_info(xurl), "tree": cosim.tree_state(roots["X"]), "tags": tags_of(xurl)}
        if murl:
            out["master"] = cosim.branch_info(murl)
            out["master_tags"] = tags_of(murl)
        if files:
            out["files"] = file_stats(roots["X"])
        return out

    def state_text():
        return "kind=%s tip=%s parents=%s master=%s bound=%s tags=%s" % (kind, m.tip, m.parents, m.master, m.bound, sorted(m.tags.items()))

    def deviation(oracle, sig, detail):
        if findings.match(known, sig) is not None:
            kn = sim.notes.setdefault("known", [])
            if sig not in kn:
                kn.append(sig)
            sim.probe("known_" + sig[-1])
            return True
        sim.fail(oracle, sig, detail)

    def verify(label, site="-"):
        reopen()
        got = cosim.branch_info(xurl)
        want = (m.g.revno(m.tip), m.tip)
        if got != want:
            sim.fail("local_tip", ["local_tip", "none", site], "%s: X's branch is at %r, the model says %r [%s]" % (label, got, want, state_text()))
        if murl:
            got = cosim.branch_info(murl)
            want = (m.g.revno(m.master), m.master)
            if got != want:
                sim.fail("master_tip", ["master_tip", "none", site], "%s: the master is at %r, the model says %r [%s]" % (label, got, want, state_text()))
        sim.state_seen((m.tip, tuple(m.parents), m.master, tuple(sorted(m.tags.items()))))

    def observe_parents():
        reopen()
        m.parents = cosim.tree_state(roots["X"], want_changes=False)[0]

    def conflicts(c):
        return len(tree(c).conflicts()) > 0

    def do_uncommit(a, revno):
        b = tree("X").branch
        return _uncommit.uncommit(b, tree=tree("X") if a.get("tree", True) else None, revno=revno, keep_tags=bool(a.get("keep_tags")), local=bool(a.get("local")))

    def is_master_path(path):
        return "/master/.bzr/" in path

    def arm_tip_fault(fault, p):
        """The write of a branch tip fails during uncommit: an error before the put of
        last-revision (how=err) or a pre_change_branch_tip hook veto (how=hook), at the
        master's tip (which=master, only when the uncommit goes through the master) or at
        the local one."""
        which = fault.get("which", "local")
        if which == "master" and not p["via_master"]:
            which = "local"
        st = {"fired": False, "which": which, "how": fault.get("how", "err"), "mon": None}
        if st["how"] == "hook":

            def rej(branch):
                base = branch.base
                hit = is_master_path(base + ".bzr/") if which == "master" else not is_master_path(base + ".bzr/")
                if hit and not st["fired"]:
                    st["fired"] = True
                    return True
                return False

            sim.c16_reject = rej
            return st

        def filt(actor, opname, path, mutating):
            if not st["fired"] and opname == "put" and path.endswith("/branch/last-revision") and is_master_path(path) == (which == "master"):
                st["fired"] = True
                sim.faults = [{"kind": "err_before", "at": actor.nops + 1, "count": "any", "err": fault.get("err", "transport")}]
            return True

        sim.arm([])
        sim.fault_filter = filt
        return st

    def disarm_tip_fault(st):
        sim.c16_reject = None
        sim.fault_filter = None
        sim.disarm()

    def judge_failed_uncommit(op, a, p, before, exc, st, site):
        """The tip write failed.  uncommit moves the master, then the local branch, then
        rewrites the tree, then drops tags: a failure may leave a prefix of that order done,
        never a later step without the earlier ones."""
        fk = "hook" if st["how"] == "hook" else "err_before"
        fsite = "%s:%s-tip" % (site, st["which"])
        sim.probe("uncommit_fault_%s_%s" % (st["how"], st["which"]))
        what = "%s with the %s tip write failing (%s)" % (json.dumps(op), st["which"], "hook veto" if fk == "hook" else "I/O error")
        if exc is None:
            sim.fail("failed_uncommit", ["failed_uncommit", fk, fsite + ":reported-success"], "%s returned normally [%s]" % (what, state_text()))
        if fk == "err_before":
            sim.restart_main()
            urls_ = [xurl] + ([murl] if murl else [])
            cosim.break_locks(sim, urls_, [roots["X"]])
        after = snapshot()
        if after["files"] != before["files"]:
            sim.fail("files_untouched", ["files_untouched", fk, fsite], "%s changed files: %r" % (what, stats_diff(before["files"], after["files"])))
        if after["local"] != before["local"]:
            sim.fail("failed_uncommit", ["failed_uncommit", fk, fsite + ":local-tip-moved"], "%s raised %r, yet the local branch moved %r -> %r" % (what, exc, before["local"], after["local"]))
        # the local tip did not move: nothing after it may have happened
        if after["tree"] != before["tree"]:
            sim.fail(
                "failed_uncommit",
                ["failed_uncommit", fk, fsite + ":tree-rewritten-tip-not-moved"],
                "%s raised %s; the branch is still at %r but the tree's parents / pending changes were rewritten: parents %r -> %r, changes %s" % (what, type(exc).__name__, after["local"], before["tree"][0], after["tree"][0], cosim.diff(before["tree"][1], after["tree"][1])),
            )
        if after["tags"] != before["tags"]:
            sim.fail("failed_uncommit", ["failed_uncommit", fk, fsite + ":tags-dropped-tip-not-moved"], "%s; tags %r -> %r" % (what, before["tags"], after["tags"]))
        if murl:
            moved = (p["revno"], p["tip"])
            if st["which"] == "master" or not p["via_master"]:
                if after["master"] != before["master"]:
                    sim.fail("failed_uncommit", ["failed_uncommit", fk, fsite + ":master-moved"], "%s; the master moved %r -> %r" % (what, before["master"], after["master"]))
            elif after["master"] not in (before["master"], moved):
                sim.fail("failed_uncommit", ["failed_uncommit", fk, fsite + ":master-elsewhere"], "%s; the master is at %r (before %r, target %r)" % (what, after["master"], before["master"], moved))
            elif after["master"] == moved:
                sim.probe("uncommit_master_first_outcome")
            if after["master_tags"] != before["master_tags"]:
                sim.fail("failed_uncommit", ["failed_uncommit", fk, fsite + ":master-tags"], "%s; the master's tags %r -> %r" % (what, before["master_tags"], after["master_tags"]))
        sim.event("failed-uncommit", fsite, type(exc).__name__)

    def judge_uncommit(op, a, k, before, site):
        """Run the uncommit and compare with the model; returns False when the run must stop."""
        p = m.predict_uncommit(a, k)
        lh = m.g.lefthand(m.tip)
        revno = None if a.get("default_revno") else len(lh) - k + 1
        exc = None
        fault = a.get("fault") if not p["refusal"] else None
        armed = arm_tip_fault(fault, p) if fault else None
        try:
            do_uncommit(a, revno)
        except (SimCrash, KeyboardInterrupt, SystemExit):
            raise
        except Exception as e:  # noqa: BLE001 - judged below
            exc = e
        if armed is not None:
            disarm_tip_fault(armed)
            if armed["fired"]:
                judge_failed_uncommit(op, a, p, before, exc, armed, site)
                return False
        after = snapshot()
        if p["refusal"]:
            if exc is None:
                sim.fail("must_refuse", ["must_refuse", "none", site + ":" + p["refusal"]], "%s succeeded; expected %s [%s]" % (json.dumps(op), p["refusal"], state_text()))
            if type(exc).__name__ != p["refusal"]:
                sim.fail("refusal_kind", ["refusal_kind", "none", site + ":" + type(exc).__name__], "%s raised %r; expected %s [%s]" % (json.dumps(op), exc, p["refusal"], state_text()))
            for key in sorted(before):
                if before[key] != after[key]:
                    sim.fail("refusal_changes_nothing", ["refusal_changes_nothing", "none", site + ":" + p["refusal"] + ":" + key], "%s was refused (%s) but %s changed: %r -> %r" % (json.dumps(op), p["refusal"], key, before[key] if key != "files" else stats_diff(before[key], after[key]), after[key] if key != "files" else ""))
            sim.probe("refused_" + p["refusal"])
            return True
        if exc is not None:
            import traceback

            tb = "".join(traceback.format_exception(type(exc), exc, exc.__traceback__)[-5:])
            tagged = bool(p["dropped"])
            sig = ["uncommit_raised", "none", "%s:%s%s" % (site.split(":")[0], type(exc).__name__, ":bound-tag-removal" if (tagged and p["via_master"]) else "")]
            if deviation("uncommit_raised", sig, "%s raised %r [%s]\n%s" % (json.dumps(op), exc, state_text(), tb)):
                # known: adopt the real state and stop judging this run
                return False
        want = (p["revno"], p["tip"])
        if after["local"] != want:
            sim.fail("uncommit_tip", ["uncommit_tip", "none", site], "%s: X's branch is at %r; the %d-th left-hand ancestor of %s is %r [%s]" % (json.dumps(op), after["local"], k, m.tip, want, state_text()))
        if murl:
            wantm = want if p["via_master"] else before["master"]
            if after["master"] != wantm:
                sim.fail("uncommit_master", ["uncommit_master", "none", site + (":local" if a.get("local") else "")], "%s: the master is at %r, expected %r [%s]" % (json.dumps(op), after["master"], wantm, state_text()))
        if after["files"] != before["files"]:
            sim.fail("files_untouched", ["files_untouched", "none", site], "%s changed files of the working tree: %r" % (json.dumps(op), stats_diff(before["files"], after["files"])))
        got = after["tree"][0]
        if not a.get("tree", True):
            if got != before["tree"][0]:
                sim.fail("tree_left_alone", ["tree_left_alone", "none", site], "uncommit without a tree changed the tree's parents: %r -> %r" % (before["tree"][0], got))
        elif p["tip"] == NULL and len(p["raw"]) > 0:
            if set(got) != set(p["parents"]):
                sim.fail("pending_merges", ["pending_merges", "none", site + ":to-null:set"], "%s: tree parents %r; expected the set %r [%s]" % (json.dumps(op), got, p["parents"], state_text()))
        else:
            if set(got) != set(p["parents"]) or got[:1] != p["parents"][:1]:
                sim.fail("pending_merges", ["pending_merges", "none", site + ":set"], "%s: tree parents %r; expected %r (new tip, then the merged revisions of the removed %r, then what was pending before) [%s]" % (json.dumps(op), got, p["parents"], p["removed"], state_text()))
            ex = set(p["existing"])
            got_new = [r for r in got[1:] if r not in ex]
            want_new = [r for r in p["parents"][1:] if r not in ex]
            if got_new != want_new:
                sim.fail("pending_merges", ["pending_merges", "none", site + ":order"], "%s: re-recorded pending merges come back as %r; merge order is %r [%s]" % (json.dumps(op), got_new, want_new, state_text()))
            if len(p["existing"]) < 2 and got != p["parents"]:
                sim.fail("pending_merges", ["pending_merges", "none", site + ":list"], "%s: tree parents %r; expected %r [%s]" % (json.dumps(op), got, p["parents"], state_text()))
        want_tags = {n: r for n, r in m.tags.items() if n not in p["dropped"]}
        if after["tags"] != want_tags:
            sim.fail("tags", ["tags", "none", site + (":keep" if a.get("keep_tags") else "")], "%s: tags now %r; expected %r (revisions no longer reachable: %r) [%s]" % (json.dumps(op), sorted(after["tags"].items()), sorted(want_tags.items()), sorted(p["gone"]), state_text()))
        if murl and p["via_master"]:
            want_mtags = {n: r for n, r in m.mtags.items() if n not in p["dropped"]}
            if after["master_tags"] != want_mtags:
                sim.fail("tags", ["tags", "none", site + ":master"], "%s: the master's tags now %r; expected %r [%s]" % (json.dumps(op), sorted(after["master_tags"].items()), sorted(want_mtags.items()), state_text()))
        if murl and not p["via_master"] and after["master_tags"] != before["master_tags"]:
            sim.probe("local_uncommit_changed_master_tags")
        # adopt
        m.tip = p["tip"]
        if p["via_master"]:
            m.master = p["tip"]
        m.tags = want_tags
        if murl:
            m.mtags = after["master_tags"]
        m.parents = got
        return True

    nontrivial = False
    ops = plan["ops"]
    for i, op in enumerate(ops):
        kind_op = op[0]
        sim.event("op", i, json.dumps(op, sort_keys=True))
        if kind_op == "reopen":
            reopen()
            continue
        if kind_op == "commit":
            a = op[1]
            local = bool(a.get("local")) and m.bound
            rev = "r%d" % a["n"]
            if m.bound and not local and m.tip != m.master:
                sim.event("skip", i, "bound-out-of-date")
                continue
            if m.parents[:1] != ([m.tip] if m.tip != NULL else []):
                sim.event("skip", i, "tree-out-of-date")
                continue
            new_file("X", a["n"])
            before = snapshot() if a.get("undo") else None
            parents = list(m.parents)
            try:
                commit("X", a["n"], rev, local=local)
            except errors.BzrError as e:
                raise RuntimeError("set-up commit failed: %r [%s]" % (e, state_text())) from e
            m.g.add(rev, parents)
            m.tip = rev
            if m.bound and not local:
                m.master = rev
            m.parents = [rev]
            verify(json.dumps(op))
            if a.get("undo"):
                site = "roundtrip:%s%s" % (kind, ":local" if local else "")
                ua = {"tree": True, "local": local, "default_revno": True}
                if not judge_uncommit(["uncommit-after", op], ua, 1, snapshot(), site):
                    return
                after = snapshot()
                for key in sorted(before):
                    if before[key] != after[key]:
                        what = stats_diff(before[key], after[key]) if key == "files" else "%r -> %r" % (before[key], after[key])
                        sim.fail("roundtrip", ["roundtrip", "none", site + ":" + key], "commit %s then uncommit: %s differs from before the commit: %s [%s]" % (rev, key, what, state_text()))
                sim.probe("roundtrip_" + ("merge" if len(parents) > 1 else "plain"))
                if len(parents) > 1:
                    nontrivial = True
                # go on with the history: commit again under another id
                rev2 = rev + "x"
                commit("X", a["n"], rev2, local=local)
                m.g.add(rev2, parents)
                m.tip = rev2
                if m.bound and not local:
                    m.master = rev2
                m.parents = [rev2]
                verify(json.dumps(op) + " (again)")
            continue
        if kind_op == "ghost":
            # a pending merge the repository does not have (ghost): commit records it verbatim
            if m.tip == NULL or m.parents[:1] != [m.tip]:
                continue
            gid = "ghost-%d" % op[1]["n"]
            try:
                tree("X").set_parent_ids([x.encode() for x in m.parents] + [gid.encode()])
            except errors.BzrError as e:
                sim.probe("ghost_refused_" + type(e).__name__)
                continue
            observe_parents()
            if gid in m.parents:
                sim.probe("ghost_pending")
            continue
        if kind_op == "side":
            a = op[1]
            s = a["who"]
            if m.tip == NULL:
                continue
            if a.get("sync") or m.side[s] == NULL:
                tree(s).pull(storesim.open_branch(xurl), overwrite=True)
                m.side[s] = m.tip
                if conflicts(s):
                    sim.probe("tree_conflicts")
                    return
            new_file(s, a["n"])
            rev = "s%d" % a["n"]
            commit(s, a["n"], rev)
            m.g.add(rev, [m.side[s]])
            m.side[s] = rev
            continue
        if kind_op == "merge":
            s = op[1]["who"]
            if m.side[s] == NULL or m.tip == NULL or m.parents[:1] != [m.tip]:
                continue
            if any(r not in m.g.parents for r in m.parents):
                # merging into a tree that has a ghost among its pending merges crashes in the
                # dirstate (TypeError in _generate_inventory): not this property's subject
                sim.event("skip", i, "ghost-pending")
                continue
            try:
                tree("X").merge_from_branch(storesim.open_branch("sim+file://" + roots[s]), force=True)
            except errors.BzrError as e:
                sim.probe("merge_refused_" + type(e).__name__)
                continue
            if conflicts("X"):
                sim.probe("tree_conflicts")
                return
            observe_parents()
            sim.probe("merged")
            continue
        if kind_op == "tag":
            a = op[1]
            revs = sorted(m.g.parents)
            if a["where"] == "tip" and m.tip != NULL:
                revs = m.g.lefthand(m.tip)[:3]
            elif a["where"] == "merged":
                lh = m.g.lefthand(m.tip)
                recent = sorted(m.g.ancestry(m.tip) - (m.g.ancestry(lh[2]) if len(lh) > 2 else set()) - set(lh))
                merged = recent or sorted(m.g.ancestry(m.tip) - set(lh))
                revs = merged or revs
            revs = [r for r in revs if r in m.g.parents]  # no ghosts
            if not revs:
                continue
            rev = revs[a["pick"] % len(revs)]
            try:
                tree("X").branch.tags.set_tag(a["name"], rev.encode())
            except errors.BzrError as e:
                sim.probe("set_tag_raised_" + type(e).__name__)
                continue
            m.tags[a["name"]] = rev
            if m.bound:
                m.mtags[a["name"]] = rev
            continue
        if kind_op == "mcommit":
            if not murl:
                continue
            a = op[1]
            if m.master == NULL and m.mbasis != NULL:
                # updating a tree to a branch that was uncommitted down to nothing crashes
                # (set_root_id(None)); not this property's subject
                sim.event("skip", i, "master-emptied")
                continue
            tree("M").update()
            if conflicts("M"):
                sim.probe("tree_conflicts")
                return
            new_file("M", a["n"])
            parents = [x.decode() for x in tree("M").get_parent_ids()]
            rev = "m%d" % a["n"]
            commit("M", a["n"], rev)
            m.g.add(rev, parents)
            m.master = m.mbasis = rev
            verify(json.dumps(op))
            continue
        if kind_op == "update":
            if not murl or m.master == NULL or any(r not in m.g.parents for r in m.parents):
                # (an empty master: update cannot follow it - C23's finding - and, when the tree
                # is based on a re-recorded merge, crashes in set_root_id(None))
                continue
            try:
                tree("X").update()
            except errors.BzrError as e:
                raise RuntimeError("set-up update failed: %r [%s]" % (e, state_text())) from e
            if conflicts("X"):
                sim.probe("tree_conflicts")
                return
            m.tip = m.master
            observe_parents()
            verify(json.dumps(op))
            continue
        if kind_op == "uncommit":
            a = op[1]
            lh = m.g.lefthand(m.tip)
            if not lh:
                continue
            if a.get("tree", True) and m.parents[:1] != [m.tip]:
                sim.event("skip", i, "tree-out-of-date")
                continue
            k = 1 + (a["back"] - 1) % len(lh)
            if a.get("default_revno"):
                k = 1
            p = m.predict_uncommit(a, k)
            if not p["refusal"] and p["tip"] == NULL and p["raw"] and p["raw"][0] not in m.g.parents:
                # the whole history goes and a ghost would become the tree's basis: refused by
                # set_parent_ids after the tip moved (GhostRevisionUnusableHere); not generated
                sim.event("skip", i, "ghost-would-lead")
                continue
            site = "uncommit:%s%s" % (kind, ":local" if a.get("local") else "")
            before = snapshot()
            if p["refusal"]:
                nontrivial = True
            else:
                if k >= 2 or any(len(m.g.parents[r]) > 1 for r in p["removed"]) or any(r in p["gone"] or r in set(p["rerecorded"]) for r in m.tags.values()):
                    nontrivial = True
                sim.probe("uncommit_depth_%d" % min(k, 4))
                if p["rerecorded"]:
                    sim.probe("uncommit_rerecords_merges")
                if p["existing"]:
                    sim.probe("uncommit_with_pending_merges")
                if p["dropped"]:
                    sim.probe("uncommit_drops_tags")
                if a.get("keep_tags") and any(r in p["gone"] for r in m.tags.values()):
                    sim.probe("uncommit_keeps_tags")
            if a.get("fault") and not p["refusal"]:
                nontrivial = True
            if not judge_uncommit(op, a, k, before, site):
                sim.nontrivial = nontrivial
                return
            verify(json.dumps(op), site)
            if not a.get("tree", True):
                break
            continue
        raise ValueError(op)
    sim.nontrivial = nontrivial


def shrink_candidates(plan):
    import copy

    from simkit.shrink import generic_candidates

    yield from generic_candidates(plan)
    for i, op in enumerate(plan["ops"]):
        if op[0] == "commit" and op[1].get("undo"):
            p = copy.deepcopy(plan)
            p["ops"][i][1]["undo"] = False
            yield p
        if op[0] == "uncommit" and op[1].get("fault"):
            p = copy.deepcopy(plan)
            del p["ops"][i][1]["fault"]
            yield p
        if op[0] == "uncommit" and op[1].get("back", 1) > 1:
            p = copy.deepcopy(plan)
            p["ops"][i][1]["back"] -= 1
            yield p
    if plan.get("kind") != "standalone":
        p = copy.deepcopy(plan)
        p["kind"] = "standalone"
        yield p


# --------------------------------------------------------------------------------------
# warm-up
# --------------------------------------------------------------------------------------

WARM_OPS = [
    ["commit", {"n": 1, "undo": True}],
    ["commit", {"n": 2, "undo": False}],
    ["side", {"n": 3, "who": "Y", "sync": True}],
    ["side", {"n": 4, "who": "Z", "sync": True}],
    ["merge", {"who": "Y"}],
    ["merge", {"who": "Z"}],
    ["ghost", {"n": 20}],
    ["tag", {"name": "t5", "pick": 2, "where": "any"}],
    ["tag", {"name": "t6", "pick": 0, "where": "merged"}],
    ["commit", {"n": 7, "undo": True}],
    ["tag", {"name": "t8", "pick": 0, "where": "tip"}],
    ["commit", {"n": 9, "undo": False, "local": True}],
    ["uncommit", {"back": 1, "keep_tags": False, "tree": True, "local": True}],
    ["mcommit", {"n": 10}],
    ["uncommit", {"back": 1, "keep_tags": False, "tree": True}],
    ["update"],
    ["commit", {"n": 11, "undo": False}],
    ["uncommit", {"back": 2, "keep_tags": True, "tree": True}],
    ["commit", {"n": 12, "undo": False}],
    ["commit", {"n": 13, "undo": False}],
    ["reopen"],
    ["uncommit", {"back": 3, "keep_tags": False, "tree": False}],
]

WARM_HEAD = [
    ["commit", {"n": 1, "undo": False}],
    ["side", {"n": 2, "who": "Y", "sync": True}],
    ["merge", {"who": "Y"}],
    ["commit", {"n": 3, "undo": False}],
    ["tag", {"name": "t4", "pick": 0, "where": "tip"}],
]

_warmed = []


_hook_installed = []


def _tip_hook(params):
    """pre_change_branch_tip hook, installed once per process: vetoes the tip change when
    the simulation that owns the calling thread asks for it (sim.c16_reject(branch))."""
    from breezy import errors
    from simkit.sim import CTX

    sim = getattr(CTX, "sim", None)
    rej = getattr(sim, "c16_reject", None)
    if rej is not None and rej(params.branch):
        raise errors.TipChangeRejected("vetoed by the simulation")


def warm():
    storesim.warm()
    T.quiet()
    cosim.install_repo_tracker()
    if not _hook_installed:
        from breezy.branch import Branch

        Branch.hooks.install_named_hook("pre_change_branch_tip", _tip_hook, "C16 simulated veto")
        _hook_installed.append(1)
    if _warmed:
        return
    _warmed.append(1)
    import copy
    import shutil
    import tempfile

    import breezy.bzr.workingtree_4  # noqa: F401
    import breezy.commit  # noqa: F401
    import breezy.merge  # noqa: F401
    import breezy.transform  # noqa: F401
    import breezy.uncommit  # noqa: F401
    from simkit.sim import Sim

    saved = {k: os.environ.get(k) for k in ("VERIF_SCRATCH", "BRZ_HOME", "HOME")}
    tmp = tempfile.mkdtemp(prefix="verif-warm-", dir="/dev/shm")
    try:
        plans = [(kind, WARM_OPS) for kind in ("standalone", "light", "bound")]
        for kind in ("standalone", "bound"):
            for how, which in (("err", "master"), ("hook", "local"), ("err", "local")):
                plans.append((kind, WARM_HEAD + [["uncommit", {"back": 1, "keep_tags": False, "tree": True, "fault": {"how": how, "which": which, "err": "transport"}}]]))
        for j, (kind, ops) in enumerate(plans):
            sc = os.path.join(tmp, "s%d" % j)
            os.makedirs(os.path.join(sc, "home"))
            os.environ.update(VERIF_SCRATCH=sc, BRZ_HOME=os.path.join(sc, "home"), HOME=os.path.join(sc, "home"))
            plan = {"kind": kind, "ops": copy.deepcopy(ops)}
            sim = Sim(1, plan, step_cap=10**6)
            sim.tier = "quick"
            try:
                execute(sim, plan)
            except Exception:  # noqa: BLE001 - a dry run; real runs report
                if os.environ.get("VERIF_WARM_DEBUG"):
                    raise
    finally:
        for k, v in saved.items():
            if v is None:
                os.environ.pop(k, None)
            else:
                os.environ[k] = v
        shutil.rmtree(tmp, ignore_errors=True)
        world.reset_stores()
