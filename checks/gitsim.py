"""Shared pieces of the git-side checks (C37 refs, C38 SHA-map caches).

Part 1 (C37): stores for a `TransportRefsContainer`, the reference model `MRefs`
(dict + symbolic resolution), state read-back through a fresh container and a brute-force
linearizability checker for tiny histories.

Part 2 (C38): small native histories built from a JSON-able description, recording of
the cache-update sequence the real exporter produces, and backend drivers."""

import hashlib
import os

from simkit import world
from simkit.transport import SimTransport, raw

SYMREF = b"ref: "
ZERO = b"0" * 40


def warm_common():
    world.quiet_breezy()
    import breezy.git.cache  # noqa: F401
    import breezy.git.object_store  # noqa: F401
    import breezy.git.refs  # noqa: F401
    import breezy.git.transportgit  # noqa: F401

    install_scratch_transport()


# -- stores ---------------------------------------------------------------------------------


class ScratchSimTransport(SimTransport):
    """`SimTransport` for local paths below $VERIF_SCRATCH: identical seam, but the paths
    that go into the event log are relative to the per-run scratch directory (whose name
    contains a pid), so that digests stay comparable between workers."""

    @classmethod
    def _get_url_prefix(cls):
        return "simx+"

    def _p(self, relpath):
        p = SimTransport._p(self, relpath)
        s = os.environ.get("VERIF_SCRATCH", "")
        if s and p.startswith(s):
            return "$S" + p[len(s) :]
        return p


_scratch_installed = False


def install_scratch_transport():
    global _scratch_installed
    if not _scratch_installed:
        from dromedary import register_transport

        register_transport("simx+", ScratchSimTransport)
        _scratch_installed = True


def new_git_store(kind, name="g"):
    """A fresh empty store: kind 'memory' (no local paths: lock_ref takes its has+put
    branch) or 'local' (a directory in the run's scratch area: lock_ref uses O_EXCL lock
    files, which do not go through the seam; everything else does)."""
    from breezy.transport import get_transport

    if kind == "memory":
        root = get_transport(world.new_store(name))
    else:
        install_scratch_transport()
        d = os.path.join(os.environ["VERIF_SCRATCH"], name)
        os.makedirs(d)
        root = get_transport("simx+file://" + d + "/")
    # the control directory is never the root of a file system
    raw(root).mkdir("repo.git")
    return root.clone("repo.git")


# -- refs: values, initial state, model -------------------------------------------------------


def sha(i):
    """The i-th unique 40-hex value."""
    return hashlib.sha1(b"c37-value-%d" % i).hexdigest().encode("ascii")


PACKED_HEADER = b"# pack-refs with: peeled fully-peeled sorted \n"


def write_initial_refs(t, init, header=True):
    """Write the initial ref state through the raw transport (not part of the run).
    `init`: {name: {"loose": i?, "packed": j?, "sym": target?}}."""
    from breezy.git.transportgit import TransportRepo

    rt = raw(t)
    TransportRepo.init(rt, bare=True)
    rt.delete("HEAD")
    packed = {}
    for name, st in sorted(init.items()):
        if "sym" in st:
            _put(rt, name, SYMREF + st["sym"].encode() + b"\n")
        if "loose" in st:
            _put(rt, name, sha(st["loose"]) + b"\n")
        if "packed" in st:
            packed[name.encode()] = sha(st["packed"])
    if packed:
        lines = [PACKED_HEADER] if header else []
        for n in sorted(packed):
            lines.append(packed[n] + b" " + n + b"\n")
        rt.put_bytes("packed-refs", b"".join(lines))


def _put(rt, name, data):
    from dromedary.errors import FileExists

    parts = name.split("/")[:-1]
    for i in range(1, len(parts) + 1):
        try:
            rt.mkdir("/".join(parts[:i]))
        except FileExists:
            pass
    rt.put_bytes(name, data)


def initial_model(init):
    d = {}
    for name, st in init.items():
        if "sym" in st:
            d[name.encode()] = SYMREF + st["sym"].encode()
        elif "loose" in st:
            d[name.encode()] = sha(st["loose"])
        elif "packed" in st:
            d[name.encode()] = sha(st["packed"])
    return MRefs(d)


class MRefs:
    """Reference model: name -> sha | b'ref: <name>'; conditional updates are atomic."""

    def __init__(self, d=None):
        self.d = dict(d or {})

    def copy(self):
        return MRefs(self.d)

    def key(self):
        return tuple(sorted(self.d.items()))

    def follow(self, name):
        cur = name
        for _ in range(6):
            v = self.d.get(cur)
            if v is None or not v.startswith(SYMREF):
                return cur, v
            cur = v[len(SYMREF) :]
        raise AssertionError("symref loop in the model (generator bug)")

    def target_value(self, kind, name):
        """The value an `old` argument is compared with: set/add follow symrefs, remove
        does not."""
        if kind == "remove":
            return self.d.get(name)
        return self.follow(name)[1]

    def apply(self, op):
        """op = (kind, name, old, new) -> bool; mutates on success."""
        kind, name, old, new = op
        if kind == "set":
            real, cur = self.follow(name)
            if old is not None and (cur or ZERO) != old:
                return False
            self.d[real] = new
            return True
        if kind == "add":
            real, cur = self.follow(name)
            if cur is not None:
                return False
            self.d[real] = new
            return True
        if kind == "remove":
            cur = self.d.get(name)
            if old is not None and (cur or ZERO) != old:
                return False
            self.d.pop(name, None)
            return True
        raise AssertionError(kind)


def call_op(refs, op):
    kind, name, old, new = op
    if kind == "set":
        return refs.set_if_equals(name, old, new)
    if kind == "add":
        return refs.add_if_new(name, new)
    if kind == "remove":
        return refs.remove_if_equals(name, old)
    raise AssertionError(kind)


OPNAME = {"set": "set_if_equals", "add": "add_if_new", "remove": "remove_if_equals"}


def read_back(t, names):
    """{name: raw value} and {name: followed value} as a FRESH container over the raw
    transport sees them (loose first, then packed)."""
    from breezy.git.transportgit import TransportRefsContainer

    c = TransportRefsContainer(raw(t))
    rawvals, followed = {}, {}
    for n in names:
        v = c.read_ref(n)
        rawvals[n] = v or None
        try:
            followed[n] = c.follow(n)[1]
        except Exception as e:  # noqa: BLE001 - reported by the caller
            followed[n] = ("error", type(e).__name__)
    return rawvals, followed


def storage_shape(t, names):
    """(name, 'absent'|'loose'|'packed'|'both'|'sym') per name, for state coverage."""
    from dromedary.errors import NoSuchFile, ReadError

    from breezy.git.transportgit import TransportRefsContainer

    rt = raw(t)
    packed = TransportRefsContainer(rt).get_packed_refs()
    out = []
    for n in names:
        try:
            data = rt.get_bytes(n.decode())
        except (NoSuchFile, ReadError):
            data = None
        if data is not None and data.startswith(SYMREF):
            k = "sym"
        elif data is not None:
            k = "both" if n in packed else "loose"
        else:
            k = "packed" if n in packed else "absent"
        out.append((n.decode(), k))
    return tuple(out)


def lock_files(t):
    from simkit.transport import snapshot

    return sorted(p for p in snapshot(t) if p.endswith(".lock"))


# -- linearizability of a tiny history ----------------------------------------------------------


def linearizable(model0, history, final_raw):
    """history: list of dicts {op, inv, ret, outcome}; outcome = ('ok', bool) |
    ('noeffect',) | ('unknown',).  Real-time order: a precedes b iff a.ret < b.inv.
    `final_raw`: {name: value|None} observed after everything, or None.
    Returns a witness order (list of indices) or None."""
    n = len(history)
    before = [[j for j in range(n) if history[j]["ret"] < history[i]["inv"]] for i in range(n)]
    seen = set()

    def final_ok(m):
        if final_raw is None:
            return True
        return all(m.d.get(k) == v for k, v in final_raw.items())

    def rec(done, m, order):
        if len(order) == n:
            return order if final_ok(m) else None
        k = (done, m.key())
        if k in seen:
            return None
        seen.add(k)
        for i in range(n):
            if done >> i & 1:
                continue
            if any(not (done >> j & 1) for j in before[i]):
                continue
            h = history[i]
            kind = h["outcome"][0]
            branches = []
            if kind == "ok":
                m2 = m.copy()
                if m2.apply(h["op"]) == h["outcome"][1]:
                    branches.append(m2)
            elif kind == "noeffect":
                branches.append(m)
            else:  # unknown: took effect (with whatever result) or did not
                m2 = m.copy()
                m2.apply(h["op"])
                branches.append(m2)
                branches.append(m)
            for b in branches:
                r = rec(done | (1 << i), b, order + [i])
                if r is not None:
                    return r
        return None

    return rec(0, model0.copy(), [])


import contextlib


@contextlib.contextmanager
def dict_git_cache():
    """While active, every BazaarObjectStore gets a fresh in-memory SHA-map cache instead of
    one in the user's cache directory (in-process checks: one run at a time)."""
    from breezy.git import cache as gcache
    from breezy.git import object_store

    orig = object_store.cache_from_repository
    object_store.cache_from_repository = lambda repo: gcache.DictBzrGitCache()
    try:
        yield
    finally:
        object_store.cache_from_repository = orig


# =============================================================================================
# Part 2 (C38): native histories, recorded cache-update sequences, backend drivers
# =============================================================================================

CONTENTS = [b"", b"x\n", b"hello\n", b"hello\nworld\n", b"#!/bin/sh\necho hi\n", b"\x00\x01binary\xff"]
FILE_NAMES = ["a.txt", "b.txt", "run.sh", "data.bin", "cafe.txt", "z"]
DIR_NAMES = ["d", "e", "lib"]
LINK_NAMES = ["ln", "link2"]


def _under(p, d):
    return p == d or p.startswith(d + "/")


def _mv(tree, src, dst):
    for p in sorted(tree):
        if _under(p, src):
            tree[dst + p[len(src) :]] = tree.pop(p)


def _rm(tree, path):
    for p in sorted(tree):
        if _under(p, path):
            tree.pop(p)


def _gen_replace(rng, tree, actions):
    """One commit frees a path X (remove it, rename it away, or swap) and moves another,
    otherwise unchanged, entry Y (file, symlink-free directory, ...) onto X.  Appends the
    actions and updates `tree`; returns True if something was generated."""
    paths = sorted(p for p, (k, _) in tree.items() if p and k in ("file", "directory"))
    rng.shuffle(paths)
    for x in paths:
        ys = [y for y in paths if y != x and not _under(y, x) and not _under(x, y) and not _under(x.rsplit("/", 1)[0] if "/" in x else "", y)]
        # (no symlinks inside a moved directory: MemoryTree cannot move them)
        ys = [y for y in ys if not any(_under(p, y) and k == "symlink" for p, (k, _) in tree.items())]
        xs_ok = not any(_under(p, x) and k == "symlink" for p, (k, _) in tree.items())
        if not ys:
            continue
        y = rng.choice(ys)
        how = rng.choice(["remove", "remove", "away", "swap"])
        if how != "remove" and not xs_ok:
            how = "remove"
        if how == "remove":
            actions.append(["remove", x])
            _rm(tree, x)
        elif how == "away":
            z = "moved-" + x.replace("/", "-")
            if z in tree:
                continue
            actions.append(["rename", x, z])
            _mv(tree, x, z)
        else:
            tmp = "swap.tmp"
            if tmp in tree:
                continue
            actions.append(["rename", x, tmp])
            _mv(tree, x, tmp)
        actions.append(["rename", y, x])
        _mv(tree, y, x)
        if how == "swap":
            actions.append(["rename", "swap.tmp", y])
            _mv(tree, "swap.tmp", y)
        return True
    return False


def gen_history(rng, nrev, moves=False):
    """A JSON-able history: [{"revid", "parents", "actions"}], parents are earlier
    entries (the list is a topological order).  Trees are tracked so that every action
    is valid; contents come from a small pool so that equal blobs/trees under different
    (file id, revision) keys are common.  `moves`: also commits that free a path and move
    another entry onto it (file<->dir replacements, swaps) and directory renames."""
    revs = []
    trees = {}  # revid -> {path: (kind, fid)}
    ctr = [0]

    def fid(prefix):
        ctr[0] += 1
        return f"{prefix}-{ctr[0]}"

    for i in range(nrev):
        revid = f"rev-{i + 1}"
        if i == 0:
            parents = []
            tree = {}
            actions = [["mkdir", "", "root-id"]]
            tree[""] = ("directory", "root-id")
        else:
            p1 = revs[rng.randrange(len(revs))]["revid"] if rng.random() < 0.3 else revs[-1]["revid"]
            parents = [p1]
            if len(revs) >= 2 and rng.random() < 0.35:
                others = [r["revid"] for r in revs if r["revid"] != p1]
                parents.append(rng.choice(others))
            tree = dict(trees[p1])
            actions = []
        nact = rng.randint(1, 4) if i else rng.randint(2, 6)
        frozen = set()  # paths the replace step of this commit used
        if moves and i and rng.random() < 0.45:
            before = set(tree)
            if _gen_replace(rng, tree, actions):
                frozen = before | set(tree)
                nact = rng.randint(0, 2)
        for _ in range(nact):
            if frozen and rng.random() < 0.7:
                break  # mostly leave the moved entries otherwise unchanged
            dirs = [p for p, (k, _) in tree.items() if k == "directory"]
            files = [p for p, (k, _) in tree.items() if k == "file"]
            links = [p for p, (k, _) in tree.items() if k == "symlink"]
            choice = rng.choice(["file"] * 4 + ["mkdir", "symlink", "modify", "modify", "chmod", "rename", "remove", "retarget"])
            parent = rng.choice(dirs)

            def join(d, n):
                return n if d == "" else d + "/" + n

            if choice == "file":
                p = join(parent, rng.choice(FILE_NAMES))
                if p not in tree:
                    actions.append(["file", p, fid("f"), rng.randrange(len(CONTENTS))])
                    tree[p] = ("file", actions[-1][2])
            elif choice == "mkdir":
                p = join(parent, rng.choice(DIR_NAMES))
                if p not in tree and p.count("/") < 2:
                    actions.append(["mkdir", p, fid("d")])
                    tree[p] = ("directory", actions[-1][2])
            elif choice == "symlink":
                p = join(parent, rng.choice(LINK_NAMES))
                if p not in tree:
                    actions.append(["symlink", p, fid("l"), rng.choice(FILE_NAMES + ["../x", "d"])])
                    tree[p] = ("symlink", actions[-1][2])
            elif choice == "modify" and files:
                actions.append(["modify", rng.choice(files), rng.randrange(len(CONTENTS))])
            elif choice == "chmod" and files:
                actions.append(["chmod", rng.choice(files), rng.random() < 0.7])
            elif choice == "retarget" and links:
                actions.append(["retarget", rng.choice(links), rng.choice(FILE_NAMES + ["nowhere"])])
            elif choice == "rename" and files:
                src = rng.choice(files)  # (MemoryTree cannot move symlinks)
                dst = join(parent, rng.choice(FILE_NAMES + LINK_NAMES))
                touched = {a[1] for a in actions} | {a[2] for a in actions if a[0] == "rename"} | frozen
                if dst not in tree and src not in touched:
                    actions.append(["rename", src, dst])
                    tree[dst] = tree.pop(src)
            elif choice == "remove" and (files or links):
                victim = rng.choice(files + links)
                touched = {a[1] for a in actions} | {a[2] for a in actions if a[0] == "rename"} | frozen
                if victim not in touched:
                    actions.append(["remove", victim])
                    tree.pop(victim)
        revs.append({"revid": revid, "parents": parents, "actions": actions})
        trees[revid] = tree
    return revs


def build_history(t, history):
    """Commit `history` into a new 2a branch at transport `t`; returns the branch.
    Revision ids, file ids, timestamps and committer are explicit."""
    from breezy import revision as _rev
    from breezy.branchbuilder import BranchBuilder
    from bzrformats.inventory import InventoryFile
    from bzrformats.inventory_delta import InventoryDelta

    bb = BranchBuilder(t, format="2a")
    bb.start_series()
    try:
        for n, r in enumerate(history):
            parents = [p.encode() for p in r["parents"]]
            base = parents[0] if parents else _rev.NULL_REVISION
            if base != bb._branch.last_revision():
                bb._move_branch_pointer(base)
            tree = bb._tree
            tree.set_parent_ids(parents)
            for a in r["actions"]:
                k = a[0]
                if k == "mkdir":
                    if a[1] == "":
                        tree.add([""], ["directory"], ids=[a[2].encode()])
                    else:
                        tree.mkdir(a[1], a[2].encode())
                elif k == "file":
                    tree.add([a[1]], ["file"], ids=[a[2].encode()])
                    tree.put_file_bytes_non_atomic(a[1], CONTENTS[a[3]])
                elif k == "symlink":
                    tree._file_transport.symlink(a[3], a[1])
                    tree.add([a[1]], ["symlink"], ids=[a[2].encode()])
                elif k == "modify":
                    tree.put_file_bytes_non_atomic(a[1], CONTENTS[a[2]])
                elif k == "retarget":
                    tree._file_transport.delete(a[1])
                    tree._file_transport.symlink(a[2], a[1])
                elif k == "chmod":
                    ie = tree._inventory.get_entry(tree.path2id(a[1]))
                    new = InventoryFile(
                        ie.file_id, ie.name, ie.parent_id, revision=ie.revision, text_sha1=ie.text_sha1,
                        text_size=ie.text_size, executable=bool(a[2]), text_id=ie.text_id,
                    )
                    tree._inventory.apply_delta(InventoryDelta([(a[1], a[1], ie.file_id, new)]))
                elif k == "rename":
                    tree.rename_one(a[1], a[2])
                elif k == "remove":
                    is_dir = tree.kind(a[1]) == "directory"
                    tree.unversion([a[1]])
                    # (unversion leaves the file behind)
                    if is_dir:
                        tree._file_transport.delete_tree(a[1])
                    else:
                        tree._file_transport.delete(a[1])
                else:
                    raise AssertionError(k)
            bb._do_commit(
                tree, message=f"commit {r['revid']}", rev_id=r["revid"].encode(), timestamp=1_300_000_000 + 1000 * n,
                timezone=0, committer="Sim User <sim@example.com>",
            )
    finally:
        bb.finish_series()
    return bb.get_branch()


def record_updates(repo, revids):
    """Run the real exporter (`BazaarObjectStore._update_sha_map_revision`) over `revids`
    (topological order) with a recording Dict cache; returns {revid: (Revision,
    [(obj, bzr_key_data, path), ...])} — exactly the `add_object` calls the real code
    makes for each revision."""
    from breezy.git import cache as gcache
    from breezy.git import object_store

    calls = {}

    class RecUpdater(gcache.DictCacheUpdater):
        def __init__(self, cache, rev):
            gcache.DictCacheUpdater.__init__(self, cache, rev)
            calls[rev.revision_id] = (rev, [])

        def add_object(self, obj, bzr_key_data, path):
            calls[self.revid][1].append((obj, bzr_key_data, path))
            return gcache.DictCacheUpdater.add_object(self, obj, bzr_key_data, path)

    orig = object_store.cache_from_repository
    object_store.cache_from_repository = lambda r: gcache.BzrGitCache(gcache.DictGitShaMap(), RecUpdater)
    try:
        store = object_store.BazaarObjectStore(repo)
    finally:
        object_store.cache_from_repository = orig
    with repo.lock_read():
        store.lock_read()
        try:
            for revid in revids:
                store._update_sha_map_revision(revid)
        finally:
            store.unlock()
    return calls


def apply_revision(cache, rec):
    """Feed one recorded revision to a cache the way `_update_sha_map_revision` does."""
    rev, adds = rec
    u = cache.get_updater(rev)
    for obj, key, path in adds:
        u.add_object(obj, key, path)
    return u.finish()


def obj_sha(obj):
    return obj[1] if isinstance(obj, tuple) else obj.id


def obj_type(obj):
    return obj[0] if isinstance(obj, tuple) else obj.type_name.decode("ascii")


class Ref:
    """The reference for one backend: two Dict caches — `C` holds what was added in
    write groups whose commit returned, `A` everything that was ever added (aborted,
    crashed and still-open groups included)."""

    def __init__(self):
        from breezy.git.cache import DictBzrGitCache

        self.C = DictBzrGitCache()
        self.A = DictBzrGitCache()


def norm_entries(entries):
    """lookup_git_sha results as a set of hashable, shape-normalised items."""
    out = set()
    for typ, data in entries:
        if typ == "commit":
            out.add((typ, bytes(data[0]), bytes(data[1]), tuple(sorted((k, bytes(v)) for k, v in data[2].items()))))
        else:
            out.add((typ, tuple(bytes(x) for x in data)))
    return out


# =============================================================================================
# Part 3 (C35): git export — from-scratch conversions, tree walks, git-origin histories
# =============================================================================================

GIT_FILE, GIT_EXEC, GIT_LINK, GIT_DIR = 0o100644, 0o100755, 0o120000, 0o040000


def scratch_objects(tree, unusual_modes=None, dummy_file_name=None):
    """The real from-scratch conversion: `_tree_to_objects` with no parent trees and an
    empty id map.  Returns ({path: sha} for every blob/tree it yields, root tree sha)."""
    from breezy.git.cache import DictGitShaMap
    from breezy.git.object_store import _tree_to_objects

    out = {}
    for path, obj, _key in _tree_to_objects(tree, [], DictGitShaMap(), unusual_modes or {}, dummy_file_name):
        out[path] = obj.id
    if "" not in out:
        from dulwich.objects import Tree

        out[""] = Tree().id  # an entirely empty revision tree: _revision_to_objects uses Tree()
    return out, out[""]


def independent_objects(tree, unusual_modes=None):
    """A conversion written from the git object format alone (no breezy.git code): blobs are
    file texts / symlink targets, modes 100644 / 100755 / 120000 / 40000, directories that
    hold nothing (transitively) are left out, the root may be empty.
    Returns ({path: (mode, sha)} without the root, root sha)."""
    from dulwich.objects import Blob, Tree

    unusual_modes = unusual_modes or {}
    children = {}
    entries = {}
    for path, ie in tree.iter_entries_by_dir():
        entries[path] = ie
        if path != "":
            parent = path.rsplit("/", 1)[0] if "/" in path else ""
            children.setdefault(parent, []).append(path)
    out = {}

    def conv(path):
        ie = entries[path]
        if ie.kind == "file":
            b = Blob.from_string(tree.get_file_text(path))
            return (GIT_EXEC if ie.executable else GIT_FILE), b.id
        if ie.kind == "symlink":
            b = Blob.from_string(tree.get_symlink_target(path).encode("utf-8"))
            return GIT_LINK, b.id
        if ie.kind == "directory":
            t = Tree()
            for c in children.get(path, []):
                r = conv(c)
                if r is None:
                    continue
                mode, sha = r
                mode = unusual_modes.get(c, mode)
                t.add(c.rsplit("/", 1)[-1].encode("utf-8"), mode, sha)
                out[c] = (mode, sha)
            if len(t) == 0 and path != "":
                return None
            return GIT_DIR, t.id
        raise AssertionError(ie.kind)

    root = conv("")
    return out, root[1]


def walk_git_tree(store, tree_sha):
    """{path: (mode, sha)} of everything below a tree in a git object store; raises
    KeyError(sha) when an entry's object is missing (fsck-like)."""
    from dulwich.objects import Tree

    out = {}

    def rec(sha, prefix):
        t = store[sha]
        if not isinstance(t, Tree):
            raise KeyError(sha)
        for name, mode, csha in t.iteritems():
            p = prefix + name.decode("utf-8")
            out[p] = (mode, csha)
            if mode == GIT_DIR:
                rec(csha, p + "/")
            elif mode in (GIT_FILE, GIT_EXEC, GIT_LINK) or (mode & 0o170000) == 0o100000:
                store[csha]  # noqa: B018 - existence

    rec(tree_sha, "")
    return out


def visible_tree(tree):
    """What must survive a round trip through git: {path: ('file', text, exec) |
    ('symlink', target) | ('directory',)} without directories that hold nothing."""
    items = {}
    for path, ie in tree.iter_entries_by_dir():
        if path == "":
            continue
        if ie.kind == "file":
            items[path] = ("file", tree.get_file_text(path), bool(ie.executable))
        elif ie.kind == "symlink":
            items[path] = ("symlink", tree.get_symlink_target(path))
        elif ie.kind == "directory":
            items[path] = ("directory",)
        else:
            items[path] = (ie.kind,)
    keep = set()
    for p, v in items.items():
        if v[0] != "directory":
            keep.add(p)
            while "/" in p:
                p = p.rsplit("/", 1)[0]
                keep.add(p)
    return {p: v for p, v in items.items() if p in keep}


def build_git_history(git, history, unusual=None):
    """Create `history` (same description as gen_history) directly as git objects in the
    dulwich repository `git`.  Empty directories do not exist in git; chmod -> 100755;
    `unusual`: {revid: {path: mode}} extra file modes (e.g. 0o100664).
    Returns {revid: commit sha} and sets refs/heads/<revid> for every head."""
    from dulwich.objects import Blob, Commit, Tree

    store = git.object_store
    files = {}  # revid -> {path: (mode, blob sha)}
    shas = {}
    heads = set()
    for n, r in enumerate(history):
        cur = dict(files[r["parents"][0]]) if r["parents"] else {}
        for a in r["actions"]:
            k = a[0]
            if k == "file":
                b = Blob.from_string(CONTENTS[a[3]])
                store.add_object(b)
                cur[a[1]] = (GIT_FILE, b.id)
            elif k == "symlink":
                b = Blob.from_string(a[3].encode("utf-8"))
                store.add_object(b)
                cur[a[1]] = (GIT_LINK, b.id)
            elif k == "modify":
                b = Blob.from_string(CONTENTS[a[2]])
                store.add_object(b)
                cur[a[1]] = (cur[a[1]][0], b.id)
            elif k == "retarget":
                b = Blob.from_string(a[2].encode("utf-8"))
                store.add_object(b)
                cur[a[1]] = (GIT_LINK, b.id)
            elif k == "chmod":
                cur[a[1]] = (GIT_EXEC if a[2] else GIT_FILE, cur[a[1]][1])
            elif k == "rename":
                _mv(cur, a[1], a[2])
            elif k == "remove":
                _rm(cur, a[1])
            elif k == "mkdir":
                pass
            else:
                raise AssertionError(k)
        for p, m in ((unusual or {}).get(r["revid"]) or {}).items():
            if p in cur and cur[p][0] in (GIT_FILE, GIT_EXEC):
                cur[p] = (m, cur[p][1])
        files[r["revid"]] = cur

        def mktree(prefix):
            t = Tree()
            subdirs = set()
            for p, (mode, sha) in cur.items():
                if not p.startswith(prefix):
                    continue
                rest = p[len(prefix) :]
                if "/" in rest:
                    subdirs.add(rest.split("/", 1)[0])
                else:
                    t.add(rest.encode("utf-8"), mode, sha)
            for dname in subdirs:
                t.add(dname.encode("utf-8"), GIT_DIR, mktree(prefix + dname + "/"))
            store.add_object(t)
            return t.id

        c = Commit()
        c.tree = mktree("")
        c.parents = [shas[p] for p in r["parents"]]
        c.author = b"Git Author <author@example.com>"
        c.committer = b"Git Committer <committer@example.com>"
        c.author_time = 1_300_000_000 + 1000 * n
        c.commit_time = 1_300_000_500 + 1000 * n
        c.author_timezone = 3600 * (n % 3)
        c.commit_timezone = -3600 * (n % 2)
        c.message = f"commit {r['revid']}\n".encode()
        store.add_object(c)
        shas[r["revid"]] = c.id
        heads.add(r["revid"])
        heads.difference_update(r["parents"])
    for h in sorted(heads):
        git.refs[b"refs/heads/" + h.encode()] = shas[h]
    return shas, files
