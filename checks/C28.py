"""C28 — Reentrant locking acquires and releases the physical lock exactly once.

One run = one call history (3-14 calls, plus environment steps) over lock_read /
lock_write(token?) / unlock / break_lock on ONE lockable object:

  counted : CountedLock wrapping a recording fake lock (can be told to fail)
  counted0 : the same over a fake lock that hands out NO token (lock_write returns None)
  counted_tl : CountedLock over a real TransportLock (token-less lock of the memory transport), calls recorded
  lf      : LockableFiles(transport, 'lock', LockDir) on a sim store
  repo    : the PackRepository (2a) of a branch created on a sim store
  stacked : a 2a PackRepository with a fallback repository object; some calls lock/unlock the
            fallback object directly (another holder of it)
  branch  : the BzrBranch of that store (its lock_* also lock its repository)
  branch+repo : as branch, some calls go to branch.repository directly

A small model (mode, count [, via_token]) plus the state of the lock directory
(free / held by the object / held by a live peer / left in place with a token) predicts,
for every call: whether it is refused (and with what), and which physical lock events
must be seen AT THE SEAM while it runs (successful rename tmp->lock/held = acquire,
lock/held->releasing.* = release, lock/held->broken.* = break; for `counted` the calls
received by the fake lock).  After every call the public state (is_locked, mode) is
compared; at the end the history is drained (unlock to zero, one more must be refused)
and the object must still be able to do one clean lock_write/unlock cycle.

The outermost physical release is also made to FAIL: a peer breaks (and possibly
re-takes) the lock while the object under test holds it, so its last unlock raises
LockBroken; or a transport error is injected at one of the transport operations of
LockDir.unlock (confirm's get, rename held->releasing, delete, rmdir).  Afterwards the
count is back to 0: the same object must take the physical lock again for its next
lock_write (or be refused while somebody else's lock is in place) - never "succeed"
without a physical acquisition."""

import re

from simkit import world
from simkit.transport import raw

from . import locksim

PROPERTY = "C28"
LEVEL = "exploration"
ISOLATION = "thread"
STEP_CAP = 20000
RULE = (
    "one case = one seeded call history on one lockable object (kind, calls, token choices, environment steps, "
    "injected acquisition failures); non-trivial = the history performed at least one 0->1 and one 1->0 transition of "
    "the lock count and at least one nested (count>=1 -> count+1) or refused call before the drain phase; "
    "distinct = distinct event-log digests of such runs (calls, outcomes, physical lock events, model states)"
)
COMPONENTS = {
    "real": [
        "breezy.counted_lock.CountedLock",
        "breezy.bzr.lockable_files.TransportLock over the memory transport's lock (kind counted_tl)",
        "PackRepository with a fallback repository (add_fallback_repository), kind stacked",
        "breezy.bzr.lockable_files.LockableFiles over breezy.lockdir.LockDir",
        "breezy.bzr.pack_repo.PackRepository (CHKInventoryRepository, format 2a) lock_write/lock_read/unlock/break_lock",
        "breezy.bzr.branch.BzrBranch (BzrBranch7) lock_write/lock_read/unlock/break_lock/leave_lock_in_place",
        "breezy.lockdir.LockDir wait_lock / token validation / leave_in_place",
        "dromedary MemoryTransport",
    ],
    "simulated": [
        "clock of breezy.lockdir (LockDir's 30 s contention wait is virtual)",
        "transport error injected before the rename that takes the physical lock",
        "transport error injected before one transport operation of the outermost physical unlock (get held/info, rename held->releasing.*, delete, rmdir)",
        "another process breaking (peek + force_break), re-taking and possibly releasing the lock while the object under test holds it (peer objects in the same address space)",
    ],
    "stub": ["the real lock under CountedLock (recording fake)", "UI (silent, answers yes)", "competing holders are peer objects of the same kind in the same address space"],
}
ASSUMPTIONS = [
    "model MCounted = (mode, count, via_token) per object + state of its lock directory (free | held by the object | held by a live peer | left in place with a token); nothing else of the objects is modelled",
    "physical lock of LockDir-backed objects = the directory <lock>/held, observed as successful renames at the transport seam; LockDir read locks are fake (no physical operation) by design, so a read-mode history must show NO physical event",
    "PackRepository.lock_write/lock_read take no physical lock at all by design (the repository lock directory is only taken around pack-names updates); the check encodes 'no physical event on .bzr/repository/lock at any transition' for repository and branch histories - the property's 'taken at the first lock' is vacuous there",
    "Branch.lock_* also lock the branch's repository object: modelled as a second (mode, count) coupled to the branch's 0->1 / 1->0 transitions",
    "a stacked repository read-locks its fallback repository object at its own 0->1 and unlocks it at its 1->0 (same coupling, second (mode, count)); a refused call must change no lock state anywhere, fallback included",
    "token-less real locks (TransportLock, fake with token None): lock_write returns None, a given token is refused with TokenLockingNotSupported, TransportLock.break_lock raises NotImplementedError; nested lock_write must not reach the real lock",
    "a lock taken with a valid token is not physically acquired and not physically released (LockDir.lock_write(token) / leave_in_place semantics)",
    "break_lock on an object whose own LockDir holds the physical lock is refused with AssertionError (LockDir._check_not_locked); CountedLock.break_lock resets the count",
    "environment steps (peer takes/releases the lock, leaves a token in place) run only while the object under test is unlocked; the steal steps (peer breaks the lock, optionally re-takes / releases it) run only while the object under test physically holds the write lock",
    "after the outermost unlock - successful, raising LockBroken, or hit by a transport error - the count is 0 and the mode is None; if the error struck before the rename held->releasing the lock directory stays held with the object's old nonce and is modelled as 'left in place with a token' (a later plain lock_write is refused with LockContention, a lock_write with that token takes it over, a peer can release it)",
    "an injected transport error inside LockDir.unlock may be swallowed (only_raises) or surface as LockBroken / the transport error: all three are accepted, the state afterwards is what is checked",
    "TOLERATED (property is silent, reported as probes stale:*): after an outermost unlock that failed before LockDir cleared its own held flag, HEAD's LockDir refuses lock_read with LockContention and break_lock with AssertionError on that same object until its next successful lock_write; both 'refused without state change' and 'accepted' are allowed there",
    "working trees are not covered (their lock is an OS file lock outside the transport seam)",
]

KINDS = ["counted", "counted0", "counted_tl", "lf", "lf", "lf", "repo", "stacked", "stacked", "branch", "branch", "branch", "branch+repo", "branch+repo"]
_PENDING = re.compile(r"/lock/[a-z0-9]{10}\.tmp$")
UNLOCK_STEPS = ["confirm", "rename", "delete", "rmdir"]


def warm():
    import logging

    locksim.warm()
    locksim.install_yes_ui()
    logging.getLogger("brz").setLevel(logging.WARNING)  # LockDir reports contention through trace.note
    _snapshot()
    _snapshot_stacked()
    _exercise()


_exercised = False


def _exercise():
    """Run a fixed set of histories before the workers fork, so that process-wide lazy initialisations (imports,
    extension-module statics that draw from getrandom on first use) never happen inside a run."""
    global _exercised
    if _exercised:
        return
    _exercised = True
    import random

    from simkit.sim import Sim

    rng = random.Random(28)
    for _ in range(150):
        plan = generate(rng, "quick")
        sim = Sim(0, plan, step_cap=STEP_CAP)
        try:
            execute(sim, plan)
        except Exception:  # noqa: BLE001 - verdicts are not the business of the warm-up
            pass


def config(tier):
    if tier == "thorough":
        return {"budget_s": 600, "run_timeout": 120, "selftest": 64}
    return {"budget_s": 40, "run_timeout": 60, "selftest": 32}


def generate(rng, tier):
    kind = rng.choice(KINDS)
    n = rng.randint(3, 14)
    ops = []
    bias = rng.choice(["balanced", "deep", "shallow"])
    w_lock = {"balanced": 3, "deep": 5, "shallow": 2}[bias]
    w_unlock = {"balanced": 4, "deep": 3, "shallow": 5}[bias]
    pool = ["lock_read"] * w_lock + ["lock_write"] * w_lock + ["unlock"] * w_unlock + ["env"] * 2
    contended = 0
    while len(ops) < n:
        name = rng.choice(pool)
        if rng.random() < 0.03:
            name = "break_lock"
        target = "x"
        if kind in ("branch+repo", "stacked") and name in ("lock_read", "lock_write", "unlock") and rng.random() < 0.35:
            target = "r"
        if name == "env":
            if kind.startswith("counted"):
                continue
            step = rng.choice(["other_lock", "other_unlock", "other_unlock", "leave_token", "drop_token", "steal", "steal_hold", "steal_cycle"])
            if step == "other_lock" or step == "leave_token":
                contended += 1
                if contended > 2:  # every contended lock_write costs a 30 s (virtual) poll loop
                    continue
            ops.append(["env", step])
            continue
        op = [target, name]
        if name == "lock_write":
            r = rng.random()
            tok = None if r < 0.7 else ("valid" if r < 0.9 else "bogus")
            flt = None
            if tok is None and target == "x" and rng.random() < 0.12:
                if kind.startswith("counted"):
                    flt = "fail"
                elif kind not in ("repo", "stacked"):
                    flt = "err:" + rng.choice(["transport", "enospc", "permission", "connection"])
            op += [tok, flt]
        elif name == "lock_read" and kind.startswith("counted") and rng.random() < 0.1:
            op += [None, "fail"]
        elif name == "unlock" and target == "x" and rng.random() < 0.2:
            if kind.startswith("counted"):
                op += [None, "fail"]
            elif kind not in ("repo", "stacked"):
                op += [None, "uerr:" + rng.choice(UNLOCK_STEPS) + ":" + rng.choice(["transport", "enospc", "permission", "connection", "nosuchfile"])]
        ops.append(op)
    if kind.startswith("counted") and rng.random() < 0.3:
        # nested write locks: the physical lock is taken by the first one only, token or no token
        seq = [["x", "lock_write", None, None]]
        if rng.random() < 0.5:
            seq.append(["x", "lock_read"])
        seq.append(["x", "lock_write", None, None])
        at = rng.randint(0, len(ops))
        ops[at:at] = seq
    if kind in ("lf", "branch", "branch+repo") and rng.random() < 0.3:
        # make the interesting shape likely: write lock (maybe nested), somebody steals it, unlock(s), lock again
        seq = [["x", "lock_write", None, None]]
        if rng.random() < 0.4:
            seq.append(["x", rng.choice(["lock_write", "lock_read"])] + ([None, None] if seq else []))
        seq.append(["env", rng.choice(["steal", "steal_hold", "steal_cycle"])])
        at = rng.randint(0, len(ops))
        ops[at:at] = seq
    return {"kind": kind, "ops": ops, "no_pin": True}


# ---------------------------------------------------------------------------------------------
_snap = {}


def _snapshot():
    """A 2a branch created once (pre-fork) through the seam; every run starts from a copy of these bytes."""
    if _snap:
        return _snap
    from breezy import controldir
    from dromedary import get_transport_from_url
    from simkit.sim import Sim
    from simkit.transport import snapshot

    sim = Sim(0)
    world.setup_sim(sim)
    url = world.new_store("c28warm")
    controldir.ControlDir.create_branch_convenience(url, format=controldir.format_registry.make_controldir("2a"), force_new_tree=False)
    _snap.update(snapshot(get_transport_from_url(url)))
    return _snap


_snap2 = {}


def _snapshot_stacked():
    """Two empty 2a repositories (base/ and stacked/) in one store."""
    if _snap2:
        return _snap2
    from breezy import controldir
    from dromedary import get_transport_from_url
    from simkit.sim import Sim
    from simkit.transport import snapshot

    sim = Sim(0)
    world.setup_sim(sim)
    url = world.new_store("c28warm2")
    fmt = controldir.format_registry.make_controldir("2a")
    for name in ("base", "stacked"):
        controldir.ControlDir.create(url + name, format=fmt).create_repository()
    _snap2.update(snapshot(get_transport_from_url(url)))
    return _snap2


class FakeLock:
    """The 'real lock' under CountedLock: records what it is asked to do.  With token=None it is a lock that hands
    out no token (like TransportLock / OS file locks) and refuses to be given one."""

    TOKEN = b"fake-token"

    def __init__(self, token=TOKEN):
        self.calls = []
        self.fail_next = False
        self.held = None
        self.token = token

    def _check_token(self, token):
        from breezy import errors

        if token is None:
            return
        if self.token is None:
            raise errors.TokenLockingNotSupported(self)
        if token != self.token:
            raise errors.TokenMismatch(token, self.token)

    def _maybe_fail(self):
        from breezy import errors

        if self.fail_next:
            self.fail_next = False
            raise errors.LockContention(self)

    def lock_read(self):
        self.calls.append("lock_read")
        self._maybe_fail()
        self.held = "r"

    def lock_write(self, token=None):

        self.calls.append("lock_write")
        self._maybe_fail()
        self._check_token(token)
        self.held = "w"
        return self.token

    def unlock(self):
        from breezy import errors

        self.calls.append("unlock")
        self.held = None
        if self.fail_next:  # the lock was broken by somebody else
            self.fail_next = False
            raise errors.LockBroken(self)

    def break_lock(self):
        self.calls.append("break_lock")
        self.held = None

    def validate_token(self, token):

        self.calls.append("validate_token")
        self._check_token(token)

    def peek(self):
        return None


def _rec_transport_lock(transport, name):
    """A real TransportLock (lock of the memory transport under the seam) whose calls are recorded."""
    from breezy import errors
    from breezy.bzr.lockable_files import TransportLock

    class RecTransportLock(TransportLock):
        token = None

        def __init__(self, *a):
            TransportLock.__init__(self, *a)
            self.calls = []
            self.fail_next = False
            self._lock = None
            self._mode = None

        @property
        def held(self):
            return self._mode if self._lock is not None else None

        def _maybe_fail(self):
            if self.fail_next:
                self.fail_next = False
                raise errors.LockContention(self)

        def lock_read(self):
            self.calls.append("lock_read")
            self._maybe_fail()
            TransportLock.lock_read(self)
            self._mode = "r"

        def lock_write(self, token=None):
            self.calls.append("lock_write")
            self._maybe_fail()
            r = TransportLock.lock_write(self, token=token)
            self._mode = "w"
            return r

        def unlock(self):
            self.calls.append("unlock")
            TransportLock.unlock(self)
            if self.fail_next:
                self.fail_next = False
                raise errors.LockBroken(self)

        def break_lock(self):
            self.calls.append("break_lock")
            return TransportLock.break_lock(self)

        def validate_token(self, token):
            self.calls.append("validate_token")
            return TransportLock.validate_token(self, token)

    tl = RecTransportLock(transport, name, 0o644, 0o755)
    tl.create()
    return tl


class M:
    """(mode, count) of one lockable object."""

    def __init__(self):
        self.mode = None
        self.count = 0
        self.via_token = False

    def key(self):
        return (self.mode, self.count, self.via_token)

    def inc(self, mode):
        if self.count == 0:
            self.mode = mode
        self.count += 1

    def dec(self):
        self.count -= 1
        if self.count == 0:
            self.mode = None
            self.via_token = False


class Deviation(Exception):
    def __init__(self, tag, site, detail):
        Exception.__init__(self, detail)
        self.tag, self.site, self.detail = tag, site, detail


class World:
    def __init__(self, sim, plan):
        self.sim = sim
        self.kind = plan["kind"]
        self.mx = M()  # object under test
        self.mr = M()  # the branch's repository object (branch kinds)
        self.rd = 0  # locks taken directly on the repository object in branch+repo histories
        self.phys = None  # lock directory of x: None | 'x' | 'other' | 'token'
        self.peer = None
        self.token = None
        self.broken = False  # a peer broke the lock x believes it holds (x's last unlock must raise LockBroken)
        self.stale = False  # x's LockDir object kept its internal held flag through a failed outermost unlock
        self._aim_pred = None
        self.events = []
        self.recording = False
        self._pending = {}
        self.stats = {"up": 0, "down": 0, "nested": 0, "refused": 0}
        self.build()

    # -- construction ---------------------------------------------------------------------
    def build(self):
        from dromedary import get_transport_from_url

        kind = self.kind
        self.counted = kind.startswith("counted")
        self.tokenless = kind in ("counted0", "counted_tl")
        if kind in ("counted", "counted0"):
            from breezy.counted_lock import CountedLock

            self.fake = FakeLock() if kind == "counted" else FakeLock(token=None)
            self.x = CountedLock(self.fake)
            return
        self.url = world.new_store("c28")
        self.t = get_transport_from_url(self.url)
        self.rt = raw(self.t)
        if kind == "counted_tl":
            from breezy.counted_lock import CountedLock

            self.fake = _rec_transport_lock(self.t, "lockfile")
            self.x = CountedLock(self.fake)
            return
        self.sim.monitors.append(self.monitor)
        if kind == "stacked":
            from breezy.repository import Repository

            snap = _snapshot_stacked()
            for p in sorted(snap):
                if snap[p] is None:
                    self.rt.mkdir(p)
                else:
                    self.rt.put_bytes(p, snap[p])
            self.lockdir = "/stacked/.bzr/repository/lock"
            self.repodir = "/base/.bzr/repository/lock"
            self.x = Repository.open(self.url + "stacked")
            self.r = Repository.open(self.url + "base")  # the fallback repository object, also locked by others
            self.x.add_fallback_repository(self.r)
            return
        if kind == "lf":
            self.rt.mkdir("lock")
            self.lockdir = "/lock"
            self.repodir = None
            self.x = self.new_object()
            return
        snap = _snapshot()
        for p in sorted(snap):
            if snap[p] is None:
                self.rt.mkdir(p)
            else:
                self.rt.put_bytes(p, snap[p])
        self.repodir = "/.bzr/repository/lock"
        branch = self.new_object(branch=True)
        if kind == "repo":
            self.lockdir = "/.bzr/repository/lock"
            self.x = branch.repository
        else:
            self.lockdir = "/.bzr/branch/lock"
            self.x = branch
            self.r = branch.repository

    def new_object(self, branch=False):
        from breezy.branch import Branch
        from breezy.bzr.lockable_files import LockableFiles
        from breezy.lockdir import LockDir

        if self.kind == "lf":
            return LockableFiles(self.t.clone(), "lock", LockDir)
        if self.kind == "repo" and not branch:
            # a competing holder of the repository's lock directory (e.g. a process rewriting pack-names)
            return LockableFiles(self.t.clone(".bzr/repository"), "lock", LockDir)
        if self.kind == "stacked":
            return LockableFiles(self.t.clone("stacked/.bzr/repository"), "lock", LockDir)
        return Branch.open(self.url)

    # -- observation at the seam ----------------------------------------------------------
    def monitor(self, sim, actor, phase, op, path, extra):
        if not self.recording:
            return
        if phase == "before":
            self._pending[actor.name] = (op, path, extra)
            return
        pend = self._pending.pop(actor.name, None)
        if pend is None or pend[0] != op or pend[1] != path:
            return
        _, path, extra = pend
        for tag, d in (("x", self.lockdir), ("repo", self.repodir)):
            if d is None or (tag == "repo" and d == self.lockdir):
                continue
            held = d + "/held"
            if op == "rename" and extra == held:
                self.events.append(f"{tag}:acquire")
            elif op == "rename" and path == held and "/releasing." in extra:
                self.events.append(f"{tag}:release")
            elif op == "rename" and path == held and "/broken." in extra:
                self.events.append(f"{tag}:break")
            elif op not in ("get", "has", "stat", "list_dir", "readv") and (path == held or path.startswith(held + "/") or extra == held):
                self.events.append(f"{tag}:{op}-in-held")

    # -- environment ----------------------------------------------------------------------------
    def env(self, step):
        """Peer objects of the same kind act on the lock directory.  Returns what happened."""
        if step.startswith("steal"):
            return self.steal(step)
        if self.counted or self.mx.count or self.mr.count:
            return "skipped"
        leave = "leave_in_place" if self.kind in ("lf", "repo", "stacked") else "leave_lock_in_place"
        dont = "dont_leave_in_place" if self.kind in ("lf", "repo", "stacked") else "dont_leave_lock_in_place"
        if step == "other_lock" and self.phys is None:
            self.peer = self.new_object()
            self.token = _tok(self.peer.lock_write())
            self.phys = "other"
        elif step == "other_unlock" and self.phys == "other":
            self.peer.unlock()
            self.peer = None
            self.token = None
            self.phys = None
        elif step == "leave_token" and self.phys is None:
            p = self.new_object()
            self.token = _tok(p.lock_write())
            getattr(p, leave)()
            p.unlock()
            self.phys = "token"
        elif step == "drop_token" and self.phys == "token":
            p = self.new_object()
            p.lock_write(token=self.token)
            getattr(p, dont)()
            p.unlock()
            self.token = None
            self.phys = None
        else:
            return "skipped"
        if self.rt.has(self.lockdir[1:] + "/held") != (self.phys is not None):
            raise RuntimeError(f"environment step {step} did not have its effect")
        return "done"

    def steal(self, step):
        """Another process decides x's lock is stale: peek + force_break, then maybe takes it (and releases it)."""
        from breezy.lockdir import LockDir

        if self.counted or self.kind in ("repo", "stacked") or self.phys != "x" or self.mx.mode != "w" or self.mx.via_token or self.broken:
            return "skipped"
        base = self.lockdir[1:].rsplit("lock", 1)[0].rstrip("/")
        ld = LockDir(self.t.clone(base) if base else self.t.clone(), "lock")
        ld.force_break(ld.peek())
        self.broken = True
        self.phys = None
        self.token = None
        if step in ("steal_hold", "steal_cycle"):
            self.peer = self.new_object()
            self.token = _tok(self.peer.lock_write())
            self.phys = "other"
            if step == "steal_cycle":
                self.peer.unlock()
                self.peer, self.token, self.phys = None, None, None
        if self.rt.has(self.lockdir[1:] + "/held") != (self.phys is not None):
            raise RuntimeError(f"environment step {step} did not have its effect")
        return "done"

    def free_lockdir(self):
        if self.phys == "other":
            self.env("other_unlock")
        elif self.phys == "token":
            self.env("drop_token")

    # -- one call on the object under test -------------------------------------------------------
    def token_arg(self, tok):
        if tok is None:
            return None
        if tok == "bogus":
            return b"bogus-token-bogus"
        if self.counted:
            return FakeLock.TOKEN
        info = locksim.read_info(self.t, self.lockdir[1:] + "/held/info")
        if info is None or info[0] in (None, "<corrupt>"):
            return b"bogus-token-bogus"
        return info[0]

    def call(self, target, name, tok=None, flt=None):
        """Predict, perform, compare.  Raises Deviation."""
        from breezy import errors

        sim = self.sim
        obj = self.x if target == "x" else self.r
        m_ = self.mr if target == "r" else self.mx
        site = f"{self.kind}:{target}.{name}@{m_.mode or '-'}{min(m_.count, 2)}"
        token = self.token_arg(tok) if name == "lock_write" else None
        token_valid = tok == "valid" and token != b"bogus-token-bogus"
        before = (self.mx.key(), self.mr.key(), self.rd, self.phys)
        alts = self.predict(target, name, tok, token_valid, flt)
        if isinstance(alts, tuple):
            alts = [alts]
        # -- perform
        injected = False
        ustep = None
        if flt == "fail":
            self.fake.fail_next = True
        elif flt and flt.startswith("err:") and not self.counted:
            injected = True
            self._aim_pred = lambda op, path: op == "rename" and _PENDING.search(path) is not None
            sim.fault_filter = self._aim
            sim.arm([{"kind": "err_before", "at": -1, "count": "any", "op": "rename", "err": flt[4:], "dyn": True}])
        elif flt and flt.startswith("uerr:") and name == "unlock" and self.kind in ("lf", "branch", "branch+repo") and not self.broken:
            _, ustep, uerr = flt.split(":")
            injected = True
            d = self.lockdir
            top, pred = {
                "confirm": ("get", lambda op, path: path == d + "/held/info"),
                "rename": ("rename", lambda op, path: path == d + "/held"),
                "delete": ("delete", lambda op, path: path.startswith(d + "/releasing.") and path.endswith("/info")),
                "rmdir": ("rmdir", lambda op, path: path.startswith(d + "/releasing.")),
            }[ustep]
            self._aim_pred = lambda op, path, _t=top, _p=pred: op == _t and _p(op, path)
            sim.fault_filter = self._aim
            sim.arm([{"kind": "err_before", "at": -1, "count": "any", "op": top, "err": uerr, "dyn": True}])
        self.events = []
        if self.counted:
            self.fake.calls = []
        self.recording = True
        exc = None
        crash = None
        try:
            if name == "lock_write":
                if token is None:
                    obj.lock_write()
                else:
                    obj.lock_write(token=token)
            else:
                getattr(obj, name)()
        except (AssertionError, NotImplementedError) as e:
            exc = e
        except (errors.BzrError, OSError) as e:
            exc = e
        except Exception as e:  # noqa: BLE001 - dromedary errors are outcomes; anything else is a crash of the lock code
            if type(e).__module__.split(".")[0] != "dromedary":
                import traceback

                crash = traceback.format_exc()[-1500:]
            exc = e
        finally:
            self.recording = False
            fired = False
            if injected:
                fired = any(f.get("done") for f in sim.faults)
                sim.disarm()
                sim.fault_filter = None
            if self.counted:
                self.fake.fail_next = False
        events = list(self.events) if not self.counted else [c for c in self.fake.calls if c != "validate_token"]
        got = type(exc).__name__ if exc is not None else "ok"
        sim.event("call", target, name, tok, flt, got, ",".join(events), "fired" if fired else "")
        sim.probe(f"{name}:{got}")
        if fired and ustep is None:
            sim.probe("acquire_error:" + ("gave_up" if exc is not None else "retried_ok"))
        if fired and ustep is not None:
            sim.probe(f"release_error:{ustep}:{got}")
        # -- compare
        if crash is not None:
            raise Deviation("internal_error", site, f"{target}.{name}({tok or ''}) failed with {got}; model before: {before}\n{crash}")
        if fired and ustep is not None:
            # a transport error inside the outermost physical unlock: swallowed (only_raises), LockBroken, or the
            # error itself; what is left on disk depends on whether the rename held->releasing.* had happened
            alts = [self.predict_failed_release(ustep, exc)]
        exp_exc, exp_events, apply_ = alts[0]
        for alt in alts[1:]:
            # a tolerated alternative (see ASSUMPTIONS): taken only if it matches what happened exactly
            if alt[0] is not None and exc is not None and isinstance(exc, alt[0]) and events == alt[1]:
                exp_exc, exp_events, apply_ = alt
                sim.probe(f"stale:{name}:{got}")
        if injected and fired and ustep is None and exc is not None:
            # the physical acquisition met a transport error: LockDir may retry (then the call is judged as an
            # ordinary successful acquisition) or give up: refused, nothing acquired, nothing changed
            exp_exc, exp_events, apply_ = type(exc), [], None
        if exp_exc is None and exc is not None:
            raise Deviation("unexpected_refusal", site, f"{target}.{name}({tok or ''}) raised {got}: {exc}; model before: {before}")
        if exp_exc is not None and exc is None:
            raise Deviation("not_refused", site, f"{target}.{name}({tok or ''}) was accepted, expected {exp_exc.__name__}; model before: {before}")
        if exp_exc is not None and not isinstance(exc, exp_exc):
            raise Deviation("wrong_refusal", site, f"{target}.{name}({tok or ''}) raised {got}, expected {exp_exc.__name__}; model before: {before}")
        if events != exp_events:
            raise Deviation("physical_events", site, f"{target}.{name}({tok or ''}) -> {got}: physical lock events {events}, expected {exp_events}; model before: {before}")
        if apply_ is not None:
            apply_()
        if exc is not None:
            self.stats["refused"] += 1
        self.observe(site, f"after {target}.{name}({tok or ''}) -> {got}")

    def _aim(self, a, op, path, mutating):
        # point the armed fault at the operation selected by _aim_pred (e.g. the rename that takes the physical
        # lock, pending dir -> held)
        if self._aim_pred(op, path):
            for f in self.sim.faults:
                if f.get("dyn") and not f.get("done"):
                    f["at"] = a.nops + 1
        return True

    # -- the model -----------------------------------------------------------------------------------
    def predict(self, target, name, tok, token_valid, flt):
        """(expected exception class or None, expected physical events, state update)."""
        from breezy import errors

        kind, mx, mr = self.kind, self.mx, self.mr
        st = self.stats

        def up(m, mode):
            def f():
                st["nested" if m.count else "up"] += 1
                m.inc(mode)

            return f

        if self.counted:
            notok = tok is not None and self.tokenless  # a lock without tokens refuses to be given one
            if name == "lock_read":
                if mx.count == 0:
                    if flt == "fail":
                        return errors.LockContention, ["lock_read"], None
                    return None, ["lock_read"], up(mx, "r")
                return None, [], up(mx, "r")
            if name == "lock_write":
                if mx.count == 0:
                    if flt == "fail":
                        return errors.LockContention, ["lock_write"], None
                    if notok:
                        return errors.TokenLockingNotSupported, ["lock_write"], None
                    if tok == "bogus":
                        return errors.TokenMismatch, ["lock_write"], None
                    return None, ["lock_write"], up(mx, "w")
                if mx.mode != "w":
                    return errors.ReadOnlyError, [], None
                if notok:
                    return errors.TokenLockingNotSupported, [], None
                if tok == "bogus":
                    return errors.TokenMismatch, [], None
                return None, [], up(mx, "w")
            if name == "unlock":
                if mx.count == 0:
                    return errors.LockNotHeld, [], None
                if mx.count == 1 and flt == "fail":
                    # the real unlock fails: the count is dropped all the same
                    return errors.LockBroken, ["unlock"], self._down(mx)
                return None, (["unlock"] if mx.count == 1 else []), self._down(mx)
            if name == "break_lock":
                if kind == "counted_tl":
                    return NotImplementedError, ["break_lock"], None  # TransportLock cannot be broken

                def reset():
                    mx.mode, mx.count, mx.via_token = None, 0, False

                return None, ["break_lock"], reset
            raise RuntimeError(name)

        if kind == "stacked" and target == "x":
            # a pack repository with a fallback: its 0->1 read-locks the fallback object, its 1->0 unlocks it;
            # a refused call changes no lock state anywhere
            first = mx.count == 0
            if name == "lock_read":
                return None, [], self._both(up(mx, "r"), up(mr, "r") if first else None)
            if name == "lock_write":
                if mx.mode == "r":
                    return errors.ReadOnlyError, [], None
                return None, [], self._both(up(mx, "w"), up(mr, "r") if first else None)
            if name == "unlock":
                if mx.count == 0:
                    return errors.LockNotHeld, [], None
                return None, [], self._both(self._down(mx), self._down(mr) if mx.count == 1 else None)
            if name == "break_lock":
                if self.phys in ("other", "token"):
                    return None, ["x:break"], self._broken
                return None, [], None
            raise RuntimeError(name)
        if kind == "repo" or target == "r":
            m = mx if kind == "repo" else mr
            if name == "lock_read":
                return None, [], self._both(up(m, "r"), self._rd(+1) if target == "r" else None)
            if name == "lock_write":
                if m.mode == "r":
                    return errors.ReadOnlyError, [], None
                return None, [], self._both(up(m, "w"), self._rd(+1) if target == "r" else None)
            if name == "unlock":
                if m.count == 0:
                    return errors.LockNotHeld, [], None
                return None, [], self._both(self._down(m), self._rd(-1) if target == "r" else None)
            if name == "break_lock":
                # the repository object's LockDir never holds the physical lock itself
                if self.phys in ("other", "token"):
                    return None, ["x:break"], self._broken
                return None, [], None
            raise RuntimeError(name)

        # lf / branch: a LockableFiles over a LockDir (+ the repository coupling for a branch)
        br = kind.startswith("branch")
        if name == "lock_read":
            main = (None, [], self._both(up(mx, "r"), up(mr, "r"))) if (mx.count == 0 and br) else (None, [], up(mx, "r"))
            if mx.count == 0 and self.stale:
                return [main, (errors.LockContention, [], None)]
            return main
        if name == "lock_write":
            if mx.count:
                if mx.mode != "w":
                    return errors.ReadOnlyError, [], None
                if tok == "bogus" or (tok == "valid" and not token_valid):
                    return errors.TokenMismatch, [], None
                return None, [], up(mx, "w")
            if br and mr.mode == "r":
                return errors.ReadOnlyError, [], None  # the repository refuses; the branch is not touched
            rep = up(mr, "w") if br else None
            if tok is not None:
                if not token_valid:
                    return errors.TokenMismatch, [], None
                return None, [], self._both(up(mx, "w"), rep, self._set(via_token=True), self._unstale)
            if self.phys is not None:
                return errors.LockContention, [], None
            return None, ["x:acquire"], self._both(up(mx, "w"), rep, self._set(phys="x"), self._unstale)
        if name == "unlock":
            if mx.count == 0:
                return errors.LockNotHeld, [], None
            last = mx.count == 1
            rep = self._down(mr) if (br and last) else None
            if last and mx.mode == "w" and not mx.via_token:
                if self.broken:
                    # somebody broke (and maybe re-took) the lock: nothing is released, the caller is told, and the
                    # object is unlocked all the same
                    return errors.LockBroken, [], self._both(self._down(mx), rep, self._after_broken)
                return None, ["x:release"], self._both(self._down(mx), rep, self._set(phys=None))
            return None, [], self._both(self._down(mx), rep)
        if name == "break_lock":
            if mx.mode == "w":
                return AssertionError, [], None
            main = (None, ["x:break"], self._broken) if self.phys in ("other", "token") else (None, [], None)
            if self.stale:
                return [main, (AssertionError, [], None)]
            return main
        raise RuntimeError(name)

    def predict_failed_release(self, ustep, exc):
        """Outermost unlock of a physically held write lock, transport error before op `ustep` of LockDir.unlock."""
        from breezy import errors

        mx, mr = self.mx, self.mr
        br = self.kind.startswith("branch")
        rep = self._down(mr) if br else None
        ok = exc is None or isinstance(exc, (errors.LockBroken, OSError)) or type(exc).__module__.split(".")[0] == "dromedary"
        exp_exc = (type(exc) if ok else errors.LockBroken) if exc is not None else None
        if ustep in ("confirm", "rename"):

            def left():
                # held/ is still there with x's nonce and no object behind it
                info = locksim.read_info(self.t, self.lockdir[1:] + "/held/info")
                self.phys = "token"
                self.token = info[0] if info else None
                self.stale = True

            return exp_exc, [], self._both(self._down(mx), rep, left)
        return exp_exc, ["x:release"], self._both(self._down(mx), rep, self._set(phys=None))

    def _unstale(self):
        self.stale = False

    def _after_broken(self):
        self.broken = False
        self.stale = True

    def _down(self, m):
        def f():
            m.dec()
            if m.count == 0:
                self.stats["down"] += 1

        return f

    def _rd(self, d):
        def f():
            self.rd += d

        return f

    def _set(self, **kw):
        def f():
            for k, v in kw.items():
                if k == "phys":
                    self.phys = v
                else:
                    setattr(self.mx, k, v)

        return f

    @staticmethod
    def _both(*fs):
        def f():
            for g in fs:
                if g is not None:
                    g()

        return f

    def _broken(self):
        self.phys = None
        self.peer = None  # it still believes it holds the lock; never used again
        self.token = None

    # -- public state after every call ----------------------------------------------------------------
    def observe(self, site, when):
        kind, mx, mr = self.kind, self.mx, self.mr
        obs, want = {}, {}
        x = self.x
        obs["is_locked"], want["is_locked"] = bool(x.is_locked()), mx.count > 0
        if self.counted:
            obs["fake_held"], want["fake_held"] = self.fake.held, mx.mode
        if kind == "lf":
            obs["mode"], want["mode"] = x._lock_mode, mx.mode
        elif kind in ("repo", "stacked"):
            obs["write_locked"], want["write_locked"] = bool(x.is_write_locked()), mx.mode == "w"
        elif kind.startswith("branch"):
            obs["mode"], want["mode"] = x.peek_lock_mode(), mx.mode
        if kind.startswith("branch") or kind == "stacked":
            obs["repo_locked"], want["repo_locked"] = bool(self.r.is_locked()), mr.count > 0
            obs["repo_write_locked"], want["repo_write_locked"] = bool(self.r.is_write_locked()), mr.mode == "w"
        # the counters themselves (documented instance variables; skipped if an implementation has none)
        for label, o, m in (("count", x, mx), ("repo_count", getattr(self, "r", None), mr)):
            c = _count_of(o)
            if c is not None:
                obs[label], want[label] = c, m.count
        if not self.counted:
            obs["held_on_disk"], want["held_on_disk"] = self.rt.has(self.lockdir[1:] + "/held"), self.phys is not None
            if self.repodir and self.repodir != self.lockdir:
                obs["repo_held_on_disk"], want["repo_held_on_disk"] = self.rt.has(self.repodir[1:] + "/held"), False
        self.sim.state_seen((kind, mx.key(), mr.key(), self.phys))
        self.sim.event("state", mx.mode, mx.count, mx.via_token, mr.mode, mr.count, self.phys)
        if obs != want:
            diff = {k: (obs[k], want[k]) for k in obs if obs[k] != want[k]}
            raise Deviation("state", site, f"{when}: observed/expected {diff}; model x={mx.key()} repo={mr.key()} lockdir={self.phys}")


def _count_of(o):
    if o is None:
        return None
    if hasattr(o, "_write_lock_count") and hasattr(o, "control_files"):  # PackRepository
        return o._write_lock_count or getattr(o.control_files, "_lock_count", None)
    if hasattr(o, "control_files"):
        return getattr(o.control_files, "_lock_count", None)
    return getattr(o, "_lock_count", None)


def _tok(res):
    """lock_write of LockableFiles returns the token, of a branch a result object."""
    return getattr(res, "token", res)


def execute(sim, plan):
    warm()
    world.setup_sim(sim)
    w = World(sim, plan)
    try:
        for op in plan["ops"]:
            if op[0] == "env":
                sim.event("env", op[1], w.env(op[1]))
                continue
            target, name = op[0], op[1]
            if target == "r" and name == "unlock" and w.rd == 0:
                # the history would release a lock the *branch* took on its repository: a caller error, not a case
                sim.event("skip", target, name)
                continue
            w.call(target, name, *(op[2:4]))
        st = dict(w.stats)
        # -- drain: unlock down to zero; exactly the last one releases; one more is refused
        guard = 0
        while w.rd and guard < 40:
            w.call("r", "unlock")
            guard += 1
        while w.mx.count and guard < 40:
            w.call("x", "unlock")
            guard += 1
        w.call("x", "unlock")  # count is 0: must be refused and change nothing
        # -- and the object is still usable: one clean cycle takes and releases the physical lock once
        w.free_lockdir()
        w.call("x", "lock_write")
        w.call("x", "lock_read")
        w.call("x", "unlock")
        w.call("x", "unlock")
        sim.nontrivial = st["up"] >= 1 and st["down"] >= 1 and (st["nested"] + st["refused"]) >= 1
    except Deviation as d:
        # model and object have diverged: the history ends here.  Signatures of open known findings are
        # matched by simkit.batch against known_findings.json.
        sim.fail(d.tag, [d.tag, plan["kind"], d.site], d.detail)
