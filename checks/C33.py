"""C33 — Search recipes sent to the server describe exactly the intended revisions.

A monitor inside remote fetch runs.  One run: a source history with merges and ghost
parents on store S, a target T pre-populated with a seeded sub-DAG; then, through the
loop-back smart server, either the remote side is the source (graph queries + pull /
fetch / search_missing_revision_ids from bzr+sim://s/ into the local T) or the target
(push / fetch from the local S into bzr+sim://t/).  The client's parents cache (the
"already seen" set of Repository.get_parent_map recipes) is whatever these real operations
put there, under a seeded search depth.

Observation wrappers (installed once, consulting the current simulation) record
 * client side: every recipe handed to RemoteRepository._serialise_search_recipe (the
   get_parent_map "already seen" recipe, together with the client's cached parent map)
   and every search handed to _serialise_search_result (get_stream: SearchResult.get_keys()
   and get_recipe());
 * server side: every SmartServerRepositoryRequest.recreate_search_from_recipe call: the
   recipe as decoded, discard_excess, and the key set the server's walk included (or the
   error it answered)."""

from simkit import world
from simkit.sim import cur_sim

from . import storesim, wiresim
from .storesim import MHist, gen_spec, replay_model

PROPERTY = "C33"
LEVEL = "exploration"
RULE = (
    "one case = one seeded fetch session through the loop-back server: source DAG (merges, ghost parents), pre-populated "
    "target sub-DAG, direction (remote source: graph queries, pull/fetch/search_missing; remote target: push/fetch), search "
    "depth of the client's get_parent_map recipes, 1-5 client operations inside one lock of the remote repository, seeded "
    "segmentation; in 35% of the plans another process fills one of the source's ghosts on the server in the middle of the client's session; every search recipe that reaches the server is judged; non-trivial = at least one judged recipe had a "
    "non-empty exclude set; distinct = distinct event-log digests of such runs"
)
COMPONENTS = {
    "real": [
        "breezy.bzr.vf_search: SearchResult, search_result_from_parent_map, limited_search_result_from_parent_map, _run_search, _find_possible_heads, NotInOtherForRevs",
        "breezy.bzr.remote.RemoteRepository: _get_parent_map_rpc + CachingParentsProvider cache and missing-keys, revision_ids_to_search_result, _serialise_search_recipe/_serialise_search_result, RemoteStreamSource._get_stream, RemoteStreamSink",
        "InterRepository.search_missing_revision_ids (_walk_to_common_revisions and the generic path), RepoFetcher, Branch.pull/push, vcsgraph Graph + Rust breadth-first searcher on both sides",
        "server: SmartServerRepositoryRequest.recreate_search / recreate_search_from_recipe, SmartServerRepositoryGetParentMap, SmartServerRepositoryGetStream(_1.19), insert_stream handlers; real smart client/server media and protocol v3 over SimPipe",
    ],
    "simulated": ["both disks", "the connection (seeded segmentation, short reads)", "lockdir clock", "scheduling of the second process that fills a ghost on the server (released at a request boundary, then pre-empted at every store operation)"],
    "stub": [
        "UI",
        "bzr+sim:// URL scheme -> loop-back medium; the server's insert_stream worker thread runs synchronously; lock info files carry pid 1 / virtual start time (wiresim pins)",
        "remote._DEFAULT_SEARCH_DEPTH is set per run from the plan (100 = shipped default, 1..5 exercise the depth-limited recipe, 0 selects search_result_from_parent_map)",
        "the observation wrappers read the server repository (get_parent_map) to learn which keys are present",
        "in half of the runs SmartServerRepositoryGetParentMap.no_extra_results is set (the switch breezy's own tests use): the server does not prefetch further ancestry, so the client needs many get_parent_map requests with growing 'already seen' recipes",
    ],
}
ASSUMPTIONS = [
    "intended set of a get_stream search = SearchResult.get_keys(); intended set of a get_parent_map recipe (which has no key list) = the keys an independent walk over the CLIENT's cached parent map "
    "includes when started at the recipe's start keys and stopped at its exclude keys and at keys the client has no parents for",
    "oracle per recipe that reaches recreate_search_from_recipe: (a) the server did not answer NoSuchRevision from the count check; (b) recipe count == number of keys the server's walk included, also with "
    "discard_excess=True; (c) included ∩ present-on-server == intended ∩ present-on-server; 'null:' is left out of the set comparison (it is a key of every graph and never a revision) but is part of (b)",
    "end to end: after a fetch/pull/push the receiving repository holds exactly (what it had) ∪ (the present ancestry of the requested tip), every revision readable and equal to the model",
    "ghosts are parent ids that are present nowhere, except in the ghost-fill runs (35% of the plans): there ANOTHER process fetches one ghost revision into the served repository once the client has cached it as "
    "missing - either completely between two get_parent_map requests (mode boundary) or as a second actor released at that request boundary and then interleaved with the client's server-side work by the seeded "
    "scheduler at every store operation (mode actor); the per-recipe oracle is unchanged (the server must still replay every recipe to exactly the client's seen set and never answer NoSuchRevision; every call completes); "
    "the end-to-end sets may then lie between the state before and after the fill; these runs use the shipped depth-limited recipe builder (depth >= 2), not search_result_from_parent_map, which omits ghosts from the stop keys by design; no stacking",
    "searches of kind 'ancestry-of' / 'everything' do not go through recreate_search_from_recipe and are only counted",
]
ISOLATION = "fork"
STEP_CAP = 3_000_000
NULL = b"null:"


def config(tier):
    if tier == "thorough":
        return {"budget_s": 700, "run_timeout": 180, "selftest": 12}
    return {"budget_s": 50, "run_timeout": 180, "selftest": 6}


# ----------------------------------------------------------------------------------------
# generation (pure)


def gen_history(rng):
    """2-4 interleaved lines with cross merges and ghost right-hand parents."""
    mh = MHist()
    specs = []
    tips = {}
    nline = rng.randint(1, 3)
    nrev = rng.randint(4, 14)
    nghost = 0
    counter = {}
    ts = 1_500_000_000
    for _ in range(nrev):
        line = rng.choice("abc"[:nline])
        if line not in tips:
            base = rng.choice(sorted(tips.values())) if tips and rng.random() < 0.8 else None
            prev = base
        else:
            prev = tips[line]
        counter[line] = counter.get(line, 0) + 1
        rid = f"{line}-{counter[line]}"
        parents = [prev] if prev else []
        if prev:
            r = rng.random()
            others = sorted(t for t in tips.values() if t not in mh.ancestry(prev))
            if r < 0.3 and others:
                parents.append(rng.choice(others))
            if rng.random() < 0.22:
                nghost += 1
                parents.append(f"ghost-{nghost}")
        ts += 10
        specs.append(gen_spec(rng, mh, rid, parents, ts, nchanges=rng.choice([1, 1, 2])))
        tips[line] = rid
    return mh, specs, tips


def _descendants(mh, rid):
    return sorted(r for r in mh.revs if rid in mh.ancestry(r))


def gen_fill_plan(rng, tier):
    """A session in which ANOTHER process fills one of the source's ghosts on the server
    between two of the client's get_parent_map requests."""
    for _ in range(50):
        mh, specs, tips = gen_history(rng)
        ghosts = sorted({p for s in specs for p in s["parents"] if p.startswith("ghost-")})
        if ghosts and len(specs) >= 7:
            break
    else:
        return None
    # prefer a ghost high above the root: the walk has to go on (more requests) after it was learnt as missing
    depth_of = {g: len(mh.ancestry(next(s["id"] for s in specs if g in s["parents"]))) for g in ghosts}
    ghost = rng.choices(ghosts, [depth_of[g] ** 2 for g in ghosts])[0]
    child = next(s["id"] for s in specs if ghost in s["parents"])
    above = _descendants(mh, child)  # walking down from these reaches the ghost
    ids = [s["id"] for s in specs]
    ops = []
    for _ in range(rng.randint(2, 5)):
        k = rng.choices(["ancestry", "unique", "difference", "missing", "pull", "fetch", "parent_map", "heads"], [5, 2, 2, 2, 3, 1, 1, 1])[0]
        op = {"op": k}
        if k in ("parent_map", "heads"):
            op["keys"] = sorted({rng.choice(above), rng.choice(ids)})
        elif k in ("unique", "difference"):
            op["a"] = rng.choice(above)
            op["b"] = sorted({rng.choice(ids) for _ in range(rng.randint(1, 2))})
        else:
            op["rev"] = rng.choice(above)
        ops.append(op)
    gspec = gen_spec(rng, MHist(), ghost, [], 1_400_000_000, nchanges=1)
    return {
        "fmt": rng.choice(storesim.FORMATS),
        "src": specs,
        "pre": sorted({rng.choice(ids) for _ in range(rng.choice([0, 0, 1, 2]))}),
        "dir": "pull",
        # the shipped recipe builder (limited_search_result_from_parent_map); depth 0 selects
        # search_result_from_parent_map, which leaves ghosts out of the stop keys by design
        "depth": rng.choice([100, 100, 100, 2, 3, 5]),
        "ops": ops,
        "no_extra": rng.random() < 0.85,
        "relock": False,
        "fill": {"ghost": ghost, "spec": gspec, "extra": rng.choice([0, 0, 0, 1]), "mode": rng.choice(["boundary", "actor"])},
        "server": rng.choice(["pipe", "socket"]),
        "client_read": rng.choice(["atmost", "greedy"]),
        "seg": {"m": rng.choice(["hot", "rand", "whole", "whole"]), "ph": 0.2, "sh": rng.random() < 0.5, "s": rng.randrange(1 << 30)},
    }


def generate(rng, tier):
    if rng.random() < 0.35:
        plan = gen_fill_plan(rng, tier)
        if plan is not None:
            return plan
    fmt = rng.choice(storesim.FORMATS)
    mh, specs, tips = gen_history(rng)
    ids = [s["id"] for s in specs]
    pre = sorted({rng.choice(ids) for _ in range(rng.choice([0, 1, 1, 2, 2, 3]))})
    direction = rng.choice(["pull", "pull", "push"])
    ops = []
    n = rng.randint(1, 5)
    for _ in range(n):
        if direction == "pull":
            k = rng.choices(["heads", "parent_map", "unique", "difference", "missing", "missing_limit", "missing_ghosts", "pull", "fetch", "fetch_ghosts", "ancestry"], [2, 3, 2, 2, 2, 1, 1, 4, 2, 1, 1])[0]
        else:
            k = rng.choices(["push", "fetch", "fetch_ghosts", "tgt_parent_map", "tgt_heads"], [4, 2, 1, 2, 1])[0]
        op = {"op": k}
        pick = lambda: rng.choice(ids + ["ghost-1", "nope"]) if rng.random() < 0.15 else rng.choice(ids)  # noqa: E731
        if k in ("heads", "parent_map", "tgt_parent_map", "tgt_heads"):
            op["keys"] = sorted({pick() for _ in range(rng.randint(1, 4))})
        elif k in ("unique", "difference"):
            op["a"] = rng.choice(ids)
            op["b"] = sorted({rng.choice(ids) for _ in range(rng.randint(1, 2))})
        elif k == "missing_limit":
            op["rev"] = rng.choice(ids)
            op["limit"] = rng.randint(1, 4)
        else:
            op["rev"] = rng.choice(ids[len(ids) // 2 :]) if rng.random() < 0.7 else rng.choice(ids)
        ops.append(op)
    if not any(o["op"] in ("pull", "push", "fetch", "fetch_ghosts") for o in ops):
        ops.append({"op": "pull" if direction == "pull" else "push", "rev": rng.choice(sorted(tips.values()))})
    return {
        "fmt": fmt,
        "src": specs,
        "pre": pre,
        "dir": direction,
        "depth": rng.choice([100, 100, 1, 2, 3, 5, 0, 0]),
        "ops": ops,
        "no_extra": rng.random() < 0.5,  # server answers get_parent_map without prefetching further ancestry (more RPCs, richer recipes)
        "relock": rng.random() < 0.25,  # release and re-take the remote lock between operations (drops the cache)
        "server": rng.choice(["pipe", "socket"]),
        "client_read": rng.choice(["atmost", "greedy"]),
        "seg": {"m": rng.choice(["hot", "rand", "whole", "whole"]), "ph": 0.2, "sh": rng.random() < 0.5, "s": rng.randrange(1 << 30)},
    }


def shrink_candidates(plan):
    import copy

    from simkit.shrink import generic_candidates

    yield from generic_candidates(plan)
    if plan["pre"]:
        for i in range(len(plan["pre"])):
            p = copy.deepcopy(plan)
            del p["pre"][i]
            yield p
    # drop the newest revision that nothing refers to
    used = {r for s in plan["src"] for r in s["parents"]} | set(plan["pre"])
    for o in plan["ops"]:
        used |= set(o.get("keys", [])) | set(o.get("b", [])) | {o.get("a"), o.get("rev")}
    for i in range(len(plan["src"]) - 1, -1, -1):
        if plan["src"][i]["id"] not in used:
            p = copy.deepcopy(plan)
            del p["src"][i]
            yield p
            break
    if plan["seg"].get("m") != "whole":
        p = copy.deepcopy(plan)
        p["seg"] = {"m": "whole", "s": 0}
        yield p


# ----------------------------------------------------------------------------------------
# the monitor


class Monitor:
    def __init__(self, sim):
        self.sim = sim
        self.client = {}  # (start, exclude, count) -> record
        self.server = []  # records in arrival order
        self.judged = 0
        self.nontrivial = False
        self.fill = None  # {"ghost": bytes, "extra": n, "trigger": fn, "triggered": bool, "done": bool}

    @staticmethod
    def key(start, exclude, count):
        return (frozenset(k for k in start if k), frozenset(k for k in exclude if k), int(count))

    # -- client side ----------------------------------------------------------------------
    def on_client_recipe(self, repo, recipe):
        f = self.fill
        if f is not None and not f["triggered"] and f["ghost"] in repo._unstacked_provider.missing_keys:
            # an RPC boundary at which the client already knows the ghost as missing
            if f["extra"] > 0:
                f["extra"] -= 1
            else:
                f["triggered"] = True
                self.sim.probe("ghost_fill_triggered")
                f["trigger"]()
        start, exclude, count = recipe[1], recipe[2], recipe[3]
        pm = repo._unstacked_provider.get_cached_map() or {}
        intended = walk(lambda k: pm.get(k), start, exclude)
        self.client[self.key(start, exclude, count)] = {
            "via": "get_parent_map",
            "intended": intended,
            "cached": len(pm),
            "missing": sorted(repo._unstacked_provider.missing_keys),
            "after_fill": bool(f is not None and f["done"]),
        }
        self.sim.probe("client_parent_map_recipes")
        if pm:
            self.sim.probe("client_parent_map_recipes_with_cache")

    def on_client_search(self, repo, search):
        recipe = search.get_recipe() if hasattr(search, "get_recipe") else None
        kind = recipe[0] if recipe else type(search).__name__
        self.sim.probe(f"client_search_{kind}")
        if kind != "search":
            return
        _, start, exclude, count = recipe
        self.client[self.key(start, exclude, count)] = {"via": "get_stream", "intended": set(search.get_keys()), "cached": None, "missing": []}

    # -- server side ----------------------------------------------------------------------
    def on_server_walk(self, handler, repository, lines, discard_excess, result):
        start = set(lines[0].split(b" ")) - {b""}
        exclude = set(lines[1].split(b" ")) - {b""}
        count = int(lines[2].decode("ascii"))
        search_result, error = result
        rec = {"verb": type(handler).__name__, "start": start, "exclude": exclude, "count": count, "discard_excess": bool(discard_excess), "error": None}
        if error is not None:
            rec["error"] = tuple(error.args)
        with repository.lock_read():
            g = repository.get_graph()
            if search_result is not None:
                included = set(search_result.get_keys())
            else:
                included = walk(lambda k: g.get_parent_map([k]).get(k), start, exclude)
            c = self.client.get(self.key(start, exclude, count))
            probe = set(included)
            if c is not None:
                probe |= c["intended"]
            probe.discard(NULL)
            present = set(g.get_parent_map(probe)) if probe else set()
        rec["included"] = included
        rec["present"] = present
        rec["client"] = c
        self.server.append(rec)

    # -- oracle ---------------------------------------------------------------------------
    def judge(self, where):
        sim = self.sim
        recs, self.server = self.server, []
        for r in recs:
            self.judged += 1
            sim.probe("recipes_judged")
            sim.probe(f"server_walk_{r['verb']}")
            if r["exclude"]:
                self.nontrivial = True
                sim.probe("recipes_with_exclude")
            if r["discard_excess"]:
                sim.probe("recipes_discard_excess")
            c = r["client"]
            via = c["via"] if c else "unknown"
            desc = f"{where}: {r['verb']} (client: {via}) recipe start={_l(r['start'])} exclude={_l(r['exclude'])} count={r['count']} discard_excess={r['discard_excess']}"
            sim.event("recipe", r["verb"], via, len(r["start"]), len(r["exclude"]), r["count"], len(r["included"]), r["error"])
            if c is not None and c.get("after_fill") and self.fill["ghost"] in set(c["missing"]):
                sim.probe("recipes_judged_after_ghost_was_filled")
            sim.state_seen((r["verb"], via, min(len(r["start"]), 3), min(len(r["exclude"]), 3), bool(r["error"]), r["discard_excess"], NULL in r["included"]))
            if r["error"] is not None:
                sim.fail(
                    "count_check",
                    ["count_check", r["verb"], via, "server-answered-" + r["error"][0].decode()],
                    f"{desc}: the server answered {r['error']}: its walk included {len(r['included'])} keys {_l(r['included'])}" + (f"; client intended {_l(c['intended'])}, cached {c['cached']} keys, missing {c['missing']}" if c else ""),
                )
            if len(r["included"]) != r["count"]:
                sim.fail(
                    "count",
                    ["count", r["verb"], via, "more" if len(r["included"]) > r["count"] else "fewer"],
                    f"{desc}: the server's walk included {len(r['included'])} keys {_l(r['included'])}" + (f"; client intended {_l(c['intended'])}, missing {c['missing']}" if c else ""),
                )
            if c is None:
                sim.probe("server_walk_without_client_record")
                continue
            inc = (r["included"] & r["present"]) - {NULL}
            want = (c["intended"] & r["present"]) - {NULL}
            if inc != want:
                sim.fail(
                    "included",
                    ["included", r["verb"], via, "extra" if inc - want else "missing"],
                    f"{desc}: server walk included {_l(inc)}, the client intended {_l(want)} (of those present on the server): extra {_l(inc - want)} missing {_l(want - inc)}",
                )


def _l(keys):
    return sorted(k.decode() if isinstance(k, bytes) else k for k in keys)


def walk(parents_of, start, exclude):
    """Keys included by a breadth-first walk from `start` that neither includes nor
    crosses `exclude` and treats keys without known parents as ghosts (not included)."""
    exclude = set(exclude)
    seen = set()
    included = set()
    todo = [k for k in start if k]
    while todo:
        k = todo.pop()
        if k in seen:
            continue
        seen.add(k)
        if k in exclude:
            continue
        ps = parents_of(k)
        if ps is None:
            continue
        included.add(k)
        todo.extend(ps)
    return included


def _mon():
    try:
        return getattr(cur_sim(), "c33", None)
    except RuntimeError:
        return None


def _install_hooks():
    from breezy.bzr import remote
    from breezy.bzr.smart import repository as smart_repo

    if getattr(remote.RemoteRepository._serialise_search_recipe, "_c33", False):
        return
    o_recipe = remote.RemoteRepository._serialise_search_recipe
    o_result = remote.RemoteRepository._serialise_search_result
    o_walk = smart_repo.SmartServerRepositoryRequest.recreate_search_from_recipe

    def _serialise_search_recipe(self, recipe):
        m = _mon()
        if m is not None:
            m.on_client_recipe(self, recipe)
        return o_recipe(self, recipe)

    def _serialise_search_result(self, search_result):
        m = _mon()
        if m is not None:
            m.on_client_search(self, search_result)
        return o_result(self, search_result)

    def recreate_search_from_recipe(self, repository, lines, discard_excess=False):
        lines = list(lines)
        result = o_walk(self, repository, lines, discard_excess=discard_excess)
        m = _mon()
        if m is not None:
            m.on_server_walk(self, repository, lines, discard_excess, result)
        return result

    _serialise_search_recipe._c33 = True
    remote.RemoteRepository._serialise_search_recipe = _serialise_search_recipe
    remote.RemoteRepository._serialise_search_result = _serialise_search_result
    smart_repo.SmartServerRepositoryRequest.recreate_search_from_recipe = recreate_search_from_recipe


# ----------------------------------------------------------------------------------------


def warm():
    storesim.warm()
    wiresim.warm()
    wiresim.pin_lock_info()
    _install_hooks()
    import random

    import breezy.bzr.remote  # noqa: F401
    from simkit.sim import Sim

    for seed in (21, 22, 23):
        plan = generate(random.Random(seed), "quick")
        plan["dir"] = "pull" if seed != 22 else "push"
        if seed == 22:
            plan["ops"] = [{"op": "push", "rev": plan["src"][-1]["id"]}]
        try:
            execute(Sim(0, plan, step_cap=STEP_CAP), plan)
        except Exception:  # noqa: BLE001, S110 - import warming only
            pass
    world.reset_stores()


def _b(s):
    return s.encode()


def execute(sim, plan):
    from breezy import errors
    from breezy.branch import Branch
    from breezy.bzr import remote
    from breezy.bzr.smart import repository as smart_repo
    from breezy.transport import get_transport

    _install_hooks()
    sim.disarm()
    world.setup_sim(sim)
    fmt = plan["fmt"]
    mh = replay_model(plan["src"])
    url_s = world.new_store("s")
    url_t = world.new_store("t")
    sb = storesim.make_branch(url_s + "br", fmt)
    storesim.commit_specs(sb, plan["src"])
    tb = storesim.make_branch(url_t + "br", fmt)
    for p in plan["pre"]:
        tb.repository.fetch(sb.repository, revision_id=_b(p))
    if plan["pre"]:
        tb.generate_revision_history(_b(plan["pre"][0]))
    del sb, tb
    storesim.clear_caches()
    direction = plan["dir"]
    served = url_s if direction == "pull" else url_t
    ww = wiresim.WireWorld(sim, get_transport(served), server=plan.get("server", "pipe"), server_read="atmost", client_read=plan.get("client_read", "atmost"), seg=plan.get("seg"), name="r")
    mon = sim.c33 = Monitor(sim)
    fill = plan.get("fill")
    mh_hi = mh  # the model once the ghost has been filled
    state = {"client_done": False}
    if fill:
        # the revision that is a ghost in S exists in somebody else's repository G
        url_g = world.new_store("g")
        storesim.commit_specs(storesim.make_branch(url_g + "br", fmt), [fill["spec"]])
        storesim.clear_caches()
        mh_hi = replay_model(plan["src"] + [fill["spec"]])

        def do_fill():
            # another process: own objects, direct access to the served repository
            if state["client_done"]:
                return
            sim.event("filler", "start")
            storesim.open_repo(url_s + "br").fetch(storesim.open_repo(url_g + "br"), revision_id=_b(fill["ghost"]))
            mon.fill["done"] = True
            sim.event("filler", "done")
            sim.probe("ghost_filled_on_server")

        def filler_body():
            sim.sleep(1_000_000.0)  # parked until the monitor releases it at an RPC boundary (or the client is done)
            do_fill()

        def trigger():
            if fill["mode"] == "actor" and "filler" in sim.actors:
                a = sim.actors["filler"]
                if a.state == "sleeping":
                    a.state = "runnable"  # from here on the seeded scheduler interleaves it at every store operation
                    a.wake = sim.clock
            else:
                do_fill()  # the whole fetch happens between two requests of the client

        mon.fill = {"ghost": _b(fill["ghost"]), "extra": fill.get("extra", 0), "trigger": trigger, "triggered": False, "done": False}
    old_depth = remote._DEFAULT_SEARCH_DEPTH
    remote._DEFAULT_SEARCH_DEPTH = plan["depth"]
    old_extra = smart_repo.SmartServerRepositoryGetParentMap.no_extra_results
    smart_repo.SmartServerRepositoryGetParentMap.no_extra_results = bool(plan.get("no_extra"))
    try:
        rb = Branch.open(wiresim.loopback_url(ww, "br"))
        lb = Branch.open((url_t if direction == "pull" else url_s) + "br")
        rrepo = rb.repository
        recv_url = url_t  # the receiving repository is T in both directions
        take_lock = rb.lock_read if direction == "pull" else rb.lock_write
        present_s = set(mh.revs)

        def recv_revs():
            storesim.clear_caches()
            r = storesim.open_repo(recv_url + "br")
            with r.lock_read():
                return {x.decode() for x in r.all_revision_ids()}

        def session():
          take_lock()
          try:
            for i, op in enumerate(plan["ops"]):
                  k = op["op"]
                  where = f"op {i} {k}"
                  before = recv_revs() if k in ("pull", "push", "fetch", "fetch_ghosts") else None
                  failed = None
                  try:
                      g = rrepo.get_graph()
                      if k in ("heads", "tgt_heads"):
                          keys = [_b(x) for x in op["keys"]]
                          known = rrepo.get_parent_map(keys)
                          sim.event(k, sorted(g.heads([x for x in keys if x in known] or [NULL])))
                      elif k in ("parent_map", "tgt_parent_map"):
                          sim.event(k, sorted(rrepo.get_parent_map([_b(x) for x in op["keys"]]).items()))
                      elif k == "unique":
                          sim.event(k, sorted(g.find_unique_ancestors(_b(op["a"]), [_b(x) for x in op["b"]])))
                      elif k == "difference":
                          left, right = g.find_difference(_b(op["a"]), _b(op["b"][0]))
                          sim.event(k, sorted(left), sorted(right))
                      elif k == "ancestry":
                          sim.event(k, sorted(x for x, _ in g.iter_ancestry([_b(op["rev"])])))
                      elif k in ("missing", "missing_limit", "missing_ghosts"):
                          res = lb.repository.search_missing_revision_ids(rrepo, revision_ids=[_b(op["rev"])], find_ghosts=(k == "missing_ghosts"), limit=op.get("limit"))
                          keys = set(res.get_keys())
                          sim.event(k, sorted(keys))
                          have = recv_revs()
                          want = mh.ancestry(op["rev"]) - have
                          want_hi = mh_hi.ancestry(op["rev"]) - have  # what is missing once the ghost has been filled
                          got = {x.decode() for x in keys}
                          if k != "missing_limit" and not (got == want or (fill and want <= got <= want_hi)):
                              sim.fail("missing_set", ["missing_set", k], f"{where}: search_missing_revision_ids({op['rev']}) found {sorted(got)}, the source has {sorted(want)} that the target lacks")
                          if k == "missing_limit" and (not got <= want or len(got) != min(op["limit"], len(want))):
                              sim.fail("missing_set", ["missing_set", k], f"{where}: limited search found {sorted(got)} (limit {op['limit']}); missing in target: {sorted(want)}")
                      elif k == "pull":
                          lb.pull(rb, overwrite=True, stop_revision=_b(op["rev"]))
                      elif k == "push":
                          lb.push(rb, overwrite=True, stop_revision=_b(op["rev"]))
                      elif k in ("fetch", "fetch_ghosts"):
                          if direction == "pull":
                              lb.repository.fetch(rrepo, revision_id=_b(op["rev"]), find_ghosts=(k == "fetch_ghosts"))
                          else:
                              rrepo.fetch(lb.repository, revision_id=_b(op["rev"]), find_ghosts=(k == "fetch_ghosts"))
                      else:
                          raise AssertionError(k)
                  except (errors.BzrError, errors.InternalBzrError) as e:
                      if sim.violation is not None:
                          raise sim.violation from None
                      failed = e
                  except Exception as e:  # noqa: BLE001 - dromedary errors are not BzrErrors
                      if sim.violation is not None:
                          raise sim.violation from None
                      if type(e).__module__.startswith(("dromedary", "breezy", "bzrformats", "vcsgraph")):
                          failed = e
                      else:
                          raise
                  mon.judge(where)
                  if failed is not None:
                      sim.fail("operation_failed", ["operation_failed", k, type(failed).__name__], f"{where} {op} raised {type(failed).__name__}: {str(failed)[:500]} although every recipe was consistent")
                  if before is not None:
                      after = recv_revs()
                      want = before | (mh.ancestry(op["rev"]) & present_s)
                      want_hi = before | (mh_hi.ancestry(op["rev"]) & (present_s | {fill["ghost"]})) if fill else want
                      if after != want and not (fill and want <= after <= want_hi):
                          sim.fail(
                              "transferred",
                              ["transferred", k, "extra" if after - want else "missing"],
                              f"{where} {op}: receiving repository now has {sorted(after)}, expected {sorted(want)}: extra {sorted(after - want)} missing {sorted(want - after)}",
                          )
                      sim.probe("fetches")
                      if after != before:
                          sim.probe("fetches_transferring")
                  if plan.get("relock") and i + 1 < len(plan["ops"]):
                      rb.unlock()
                      take_lock()
          finally:
              try:
                  rb.unlock()
              except Exception:  # noqa: BLE001
                  if sim.violation is None:
                      raise

        if fill and fill["mode"] == "actor":
            def client_body():
                try:
                    session()
                finally:
                    state["client_done"] = True

            sim.spawn("client", client_body)
            sim.spawn("filler", filler_body)
            sim.run_actors()
            for name in ("client", "filler"):
                if sim.actors[name].exc is not None:
                    raise sim.actors[name].exc
        else:
            session()
            state["client_done"] = True
        mon.judge("end")
        storesim.clear_caches()
        r = storesim.open_repo(recv_url + "br")
        with r.lock_read():
            prob = storesim.readable(r, mh_hi, None)
        if prob:
            sim.fail("readable", ["readable", direction], prob)
    finally:
        remote._DEFAULT_SEARCH_DEPTH = old_depth
        smart_repo.SmartServerRepositoryGetParentMap.no_extra_results = old_extra
    sim.nontrivial = mon.nontrivial and mon.judged > 0
