"""C05 — Concurrent pack writers and packers never lose committed data.

2-3 simulated processes (private object graphs, one shared repository on one simulated
disk) commit, pull, pack and read concurrently; the seeded scheduler pre-empts at every
store operation; lock polling uses the virtual clock."""

import random

from simkit import world
from simkit.sim import SimCrash
from simkit.transport import raw

from . import storesim
from .storesim import MHist, gen_chain, replay_model

PROPERTY = "C05"
LEVEL = "exploration"
RULE = (
    "one case = one seeded run (format, pre-existing packs, 2-3 actor scripts over commit/pull/pack/read and long-lived "
    "write-locked sessions [pack(hint=stale names), scans, further commits/pulls through one repository object], schedule "
    "policy, optional crash of one actor); non-trivial = at least two actors saved pack-names and the scheduler "
    "switched between actors while one of them was inside a write group or pack operation; distinct = distinct "
    "event-log digests of such runs"
)
COMPONENTS = {
    "real": ["breezy.bzr.pack_repo RepositoryPackCollection (write groups, autopack, pack, reload/retry, names merge, obsoletion)", "groupcompress_repo / knitpack_repo", "bzrformats pack/index code (Rust)", "commit via MemoryTree", "Branch.pull / fetch", "LockDir with wait_lock polling"],
    "simulated": ["process scheduling at every store op (baton-passing threads)", "disk", "clock of breezy.lockdir", "crash of one actor"],
    "stub": ["UI", "source repository for pulls on a second store"],
}
ASSUMPTIONS = [
    "processes interact only through the disk; each actor has private repository/branch objects",
    "a revision counts as acknowledged when the call that committed its write group returned to the actor",
    "the names-merge monitor derives 'produced' from upload->packs moves seen at the seam and 'consumed' from the pack operations the actor is executing, never from the collection's own bookkeeping",
]
STEP_CAP = 60000


def warm():
    storesim.warm()
    install_observers()


def config(tier):
    if tier == "thorough":
        return {"budget_s": 780, "run_timeout": 400, "selftest": 12}
    return {"budget_s": 50, "run_timeout": 200, "selftest": 6}


def generate(rng, tier):
    fmt = rng.choice(storesim.FORMATS)
    mh = MHist()
    nsrc = rng.choice([3, 6, 11, 12])
    src = gen_chain(rng, mh, None, nsrc, "s")
    pre = rng.choice([0, 3, 8, 9, 9])  # single-revision packs already in the repository
    prespecs = gen_chain(rng, mh, None, pre, "p")
    nact = rng.choice([2, 2, 3, 3])
    roles = []
    for i in range(nact):
        roles.append(rng.choice(["commit", "commit", "pull", "pack", "read", "commit", "holder"]))
    if "commit" not in roles and "pull" not in roles and "holder" not in roles:
        roles[0] = "commit"
    if "holder" in roles and not ({"commit", "pull"} & set(roles)):
        # the long-lived object needs another writer to fall behind of
        roles[(roles.index("holder") + 1) % nact] = "commit"
    actors = {}
    chains = {}
    for i, role in enumerate(roles):
        name = "ABC"[i]
        script = []
        if role == "commit":
            n = rng.randint(1, 5)
            base = f"p-{pre}" if (pre and rng.random() < 0.5) else None
            chain = gen_chain(rng, mh, base, n, name.lower())
            chains[name] = {"base": base, "specs": chain}
            for j in range(n):
                script.append(["commit", j])
                if rng.random() < 0.15:
                    script.append(["pack", rng.random() < 0.5])
        elif role == "holder":
            # ONE long-lived repository object that stays write-locked over several operations:
            # pack(hint=[names learnt earlier]) - a save with nothing to record once those packs
            # have been combined away - scans (time for other writers), then further write groups
            # (commit / pull) through the same object
            if rng.random() < 0.5:
                script.append(["pack", False])  # makes the names learnt at start stale for sure
            steps = []
            ncommit = 0
            for _ in range(rng.randint(1, 2)):
                if rng.random() < 0.6:
                    steps.append(["scan", rng.randrange(1 << 20)])
                steps.append(["pack_hint_stale"])
                if rng.random() < 0.5:
                    steps.append(["scan", rng.randrange(1 << 20)])
                for _ in range(rng.randint(1, 2)):
                    if rng.random() < 0.7:
                        steps.append(["commit", ncommit])
                        ncommit += 1
                    else:
                        steps.append(["pull", rng.randint(1, nsrc)])
            base = f"p-{pre}" if (pre and rng.random() < 0.5) else None
            chains[name] = {"base": base, "specs": gen_chain(rng, mh, base, ncommit, name.lower())}
            script.append(["session", steps])
        elif role == "pull":
            cuts = sorted({rng.randint(1, nsrc) for _ in range(rng.randint(1, 3))})
            for c in cuts:
                script.append(["pull", c])
        elif role == "pack":
            for _ in range(rng.randint(1, 3)):
                script.append(["pack", rng.random() < 0.5])
                if rng.random() < 0.5:
                    script.append(["read", rng.randrange(1 << 20)])
        else:
            for _ in range(rng.randint(2, 4)):
                script.append(["read", rng.randrange(1 << 20)])
        actors[name] = script
    plan = {
        "fmt": fmt,
        "src": src,
        "pre": prespecs,
        "chains": chains,
        "actors": actors,
        "policy": rng.choice(["random", "pct", "pct", "rr"]),
    }
    if plan["policy"] == "pct":
        plan["preempt_at"] = sorted(rng.sample(range(5, 1500), rng.randint(2, 8)))
    if rng.random() < 0.15:
        plan["faults"] = [{"actor": rng.choice(sorted(actors)), "at": rng.randint(3, 60), "count": "mut", "kind": "crash", "applied": rng.random() < 0.5}]
    return plan


# -- observation wrappers ---------------------------------------------------------------
_orig = {}


def install_observers():
    from breezy.bzr import pack_repo
    from simkit.sim import CTX

    if _orig:
        return
    _orig["exec"] = orig_exec = pack_repo.RepositoryPackCollection._execute_pack_operations
    _orig["restart"] = orig_restart = pack_repo.RepositoryPackCollection._restart_autopack
    _orig["reload"] = orig_reload = pack_repo.RepositoryPackCollection.reload_pack_names

    def _execute_pack_operations(self, pack_operations, packer_class, reload_func=None):
        sim = getattr(CTX, "sim", None)
        g = getattr(sim, "c05", None) if sim is not None else None
        if g is None:
            return orig_exec(self, pack_operations, packer_class, reload_func=reload_func)
        name = sim.current().name
        consumed = {p.name for _, packs in pack_operations for p in packs}
        g.consuming.setdefault(name, []).append(consumed)
        g.in_pack.add(name)
        sim.probe("pack_operations_executed")
        try:
            return orig_exec(self, pack_operations, packer_class, reload_func=reload_func)
        except Exception as e:  # noqa: BLE001 - observation only
            if type(e).__name__ == "NoSuchFile":
                g.failed_in_pack[name] = str(e)
            raise
        finally:
            g.consuming[name].pop()
            g.in_pack.discard(name)

    def _restart_autopack(self):
        sim = getattr(CTX, "sim", None)
        if sim is not None and getattr(sim, "c05", None) is not None:
            sim.probe("autopack_retry")
        return orig_restart(self)

    def reload_pack_names(self):
        sim = getattr(CTX, "sim", None)
        r = orig_reload(self)
        if r and sim is not None and getattr(sim, "c05", None) is not None:
            sim.probe("reload_pack_names_changed")
        return r

    pack_repo.RepositoryPackCollection._execute_pack_operations = _execute_pack_operations
    pack_repo.RepositoryPackCollection._restart_autopack = _restart_autopack
    pack_repo.RepositoryPackCollection.reload_pack_names = reload_pack_names


class Ghost:
    def __init__(self, sim, repo_t, fmt):
        self.sim = sim
        self.t = raw(repo_t)  # .bzr/repository, undecorated
        self.fmt = fmt
        self.acked = set()
        self.produced = {}  # actor -> set of pack names moved upload->packs since its last names put
        self.consuming = {}
        self.in_pack = set()
        self.in_wg = set()
        self.savers = set()
        self.switch_inside = False
        self.before_names = None
        self.producers = {}
        self.failed_in_pack = {}

    def dup_names(self):
        return {n for n, who in self.producers.items() if len(who) > 1}

    def disk_names(self):
        from bzrformats.btree_index import BTreeGraphIndex
        from bzrformats.index import GraphIndex
        from dromedary.errors import NoSuchFile

        cls = BTreeGraphIndex if self.fmt == "2a" else GraphIndex
        try:
            size = self.t.stat("pack-names").st_size
        except NoSuchFile:
            return set()
        idx = cls(self.t, "pack-names", size)
        return {key[0].decode("ascii") for _i, key, _v in idx.iter_all_entries()}

    def monitor(self, sim, actor, phase, op, path, extra):
        if not path.startswith("/.bzr/repository/"):
            return
        name = actor.name
        if phase == "before":
            if op == "move" and "/upload/" in path and "/packs/" in extra:
                pname = extra.rsplit("/", 1)[1][: -len(".pack")]
                self.produced.setdefault(name, set()).add(pname)
                self.producers.setdefault(pname, set()).add(name)
                if len(self.producers[pname]) > 1:
                    sim.probe("identical_pack_name_from_two_actors")
            if op == "open_write_stream" and "/repository/indices/" in path:
                # index files are written in place under their final content-hash name: a second writer of
                # the same name (or a name that is on disk already) is the duplicate-pack-name family
                pname = path.rsplit("/", 1)[1].rsplit(".", 1)[0]
                who = self.producers.setdefault(pname, set())
                who.add(name)
                try:
                    if self.t.has("indices/" + path.rsplit("/", 1)[1]):
                        who.add("<on-disk>")
                except Exception:  # noqa: BLE001
                    pass
                if len(who) > 1:
                    sim.probe("identical_pack_name_from_two_actors")
            if op == "put" and path.endswith("/repository/pack-names"):
                self.before_names = (name, self.disk_names())
            if (op == "move" and "/repository/packs/" in path) or (op == "delete" and "/repository/packs/" in path):
                pname = path.rsplit("/", 1)[1].split(".")[0]
                if pname in self.disk_names():
                    sim.fail("premature_delete", ["premature_delete", "preempt", op], f"{name} removes pack {pname} from packs/ while the pack-names on disk still lists it")
        else:
            if op == "put" and path.endswith("/repository/pack-names") and self.before_names and self.before_names[0] == name:
                before = self.before_names[1]
                self.before_names = None
                written = self.disk_names()
                consumed = set().union(*self.consuming.get(name, [])) if self.consuming.get(name) else set()
                produced = self.produced.pop(name, set())
                expected = (before | produced) - consumed
                self.savers.add(name)
                if consumed & before or (before - written):
                    sim.probe("names_three_way_merge_nontrivial")
                if written != expected:
                    sim.fail(
                        "names_merge",
                        ["names_merge", "preempt", "put:pack-names"],
                        f"{name} wrote pack-names {sorted(written)}; disk before {sorted(before)}, it consumed {sorted(consumed)}, produced {sorted(produced)} -> expected {sorted(expected)} (lost {sorted(expected - written)}, extra {sorted(written - expected)})",
                    )


def execute(sim, plan):
    from breezy import errors

    warm()
    world.setup_sim(sim)
    world.install_clock(sim, ["breezy.lockdir"])
    fmt = plan["fmt"]
    mh = replay_model(plan["src"] + plan["pre"] + [s for c in plan["chains"].values() for s in c["specs"]])
    url_s = world.new_store("src")
    url = world.new_store("shared")
    sb = storesim.make_branch(url_s + "s", fmt)
    storesim.commit_specs(sb, plan["src"])
    storesim.make_shared_repo(url, fmt)
    pb = storesim.make_branch(url + "pre", fmt)
    storesim.commit_specs(pb, plan["pre"])
    for name in plan["actors"]:
        storesim.make_branch(url + "b" + name, fmt)
    from breezy.transport import get_transport

    g = Ghost(sim, get_transport(url).clone(".bzr/repository"), fmt)
    sim.c05 = g
    g.acked.update(s["id"] for s in plan["pre"])
    sim.monitors.append(g.monitor)
    del sb, pb

    def read_some(name, repo, seed):
        rng = random.Random(seed)
        with repo.lock_read():
            listed = sorted(repo.all_revision_ids())
            pick = rng.sample(listed, min(len(listed), 3))
            prob = storesim.readable(repo, mh, pick)
            if prob:
                sim.fail("reader", ["reader", "preempt", "listed-then-unreadable"], f"reader {name}: {prob}")
            repo.refresh_data()
            prob = storesim.readable(repo, mh, pick[:1])
            if prob:
                sim.fail("reader", ["reader", "preempt", "listed-then-unreadable"], f"reader {name} after refresh: {prob}")

    def do_commit(name, me, branch, chain, j):
        spec = chain["specs"][j]
        g.in_wg.add(name)
        storesim.commit_specs(branch, [spec])
        g.in_wg.discard(name)
        if not me.dead:
            g.acked.add(spec["id"])
            sim.event(name, "acked", spec["id"])

    def do_pull(name, me, branch, cut):
        upto = plan["src"][cut - 1]["id"]
        g.in_wg.add(name)
        branch.pull(storesim.open_branch(url_s + "s"), stop_revision=upto.encode())
        g.in_wg.discard(name)
        if not me.dead:
            g.acked.update(s["id"] for s in plan["src"][:cut])
            sim.event(name, "acked-upto", upto)

    def run_script(name, script):
        me = sim.actors[name]
        branch = storesim.open_branch(url + "b" + name)
        chain = plan["chains"].get(name)
        # pack names this process learnt when it started (the hint of a later pack request)
        learnt = sorted(g.disk_names())[:2] or ["0" * 32]
        for op in script:
            if me.dead:
                return
            kind = op[0]
            try:
                if kind == "commit":
                    spec = chain["specs"][op[1]]
                    g.in_wg.add(name)
                    storesim.commit_specs(branch, [spec])
                    g.in_wg.discard(name)
                    if not me.dead:
                        g.acked.add(spec["id"])
                        sim.event(name, "acked", spec["id"])
                elif kind == "pull":
                    upto = plan["src"][op[1] - 1]["id"]
                    g.in_wg.add(name)
                    branch.pull(storesim.open_branch(url_s + "s"), stop_revision=upto.encode())
                    g.in_wg.discard(name)
                    if not me.dead:
                        g.acked.update(s["id"] for s in plan["src"][: op[1]])
                        sim.event(name, "acked-upto", upto)
                elif kind == "pack":
                    repo = branch.repository
                    with repo.lock_write():
                        repo.pack(clean_obsolete_packs=op[1])
                elif kind == "read":
                    read_some(name, storesim.open_repo(url), op[1])
                elif kind == "session":
                    # the actor's ONE repository object stays write-locked (pack repositories take no
                    # physical repository lock, other writers go on) across all steps
                    repo = branch.repository
                    with repo.lock_write():
                        sim.probe("long_lived_session")
                        for step in op[1]:
                            if me.dead:
                                return
                            if step[0] == "pack_hint_stale":
                                sim.event(name, "pack-hint", ",".join(learnt))
                                repo.pack(hint=list(learnt))
                            elif step[0] == "scan":
                                # passes time inside the session (other writers get scheduled); what a
                                # write-locked object with an old view can read is not judged here
                                rng = random.Random(step[1])
                                listed = sorted(repo.all_revision_ids())
                                if storesim.readable(repo, mh, rng.sample(listed, min(len(listed), 2))):
                                    sim.probe("session_scan_saw_stale_view")
                            elif step[0] == "commit":
                                if step[1] < len(chain["specs"]):
                                    do_commit(name, me, branch, chain, step[1])
                            elif step[0] == "pull":
                                # a fetch into the repository through the same object (the branch tip stays:
                                # the session's commits and the fetched line are unrelated)
                                cut = min(step[1], len(plan["src"]))
                                upto = plan["src"][cut - 1]["id"]
                                g.in_wg.add(name)
                                repo.fetch(storesim.open_repo(url_s + "s"), revision_id=upto.encode())
                                g.in_wg.discard(name)
                                if not me.dead:
                                    g.acked.update(x["id"] for x in plan["src"][:cut])
                                    sim.event(name, "acked-upto", upto)
            except SimCrash:
                return
            except errors.LockContention:
                if me.dead:
                    return
                sim.probe("lock_contention_gave_up")
                sim.event(name, kind, "LockContention")
            except Exception as e:  # noqa: BLE001
                if me.dead:
                    return
                # A WRITER may lose a race: its write group is then not acknowledged and
                # the property promises nothing about it.  Only the documented
                # "packs changed under me" family is accepted; readers get no such excuse.
                text = f"{type(e).__name__}: {e}"
                retry_family = type(e).__name__ in ("NoSuchFile", "RetryWithNewPacks", "RetryAutopack", "RetryPackOperations") or "pack listing changed" in text or "Pack files have changed" in text
                if kind == "read" or not retry_family:
                    raise
                sim.probe("writer_lost_race_" + kind)
                sim.event(name, kind, "lost-race", type(e).__name__)
                return  # later commits of this actor build on the one that was not made
            finally:
                g.in_wg.discard(name)

    def on_switch(sim_, actor, phase, op, path, extra):
        if phase == "before" and (g.in_wg - {actor.name} or g.in_pack - {actor.name}):
            g.switch_inside = True

    sim.monitors.append(on_switch)
    for name, script in plan["actors"].items():
        sim.spawn(name, (lambda n=name, s=script: run_script(n, s)))
    sim.run_actors(hang_timeout=150.0)
    crashed = [n for n in plan["actors"] if sim.actors[n].dead]
    for n in plan["actors"]:
        a = sim.actors[n]
        if a.exc is not None and not a.dead and not isinstance(a.exc, SimCrash):
            import traceback

            tb = "".join(traceback.format_exception(a.exc))[-1800:]
            frames = [f.name for f in traceback.extract_tb(a.exc.__traceback__) if "/breezy/" in f.filename and "/transport/" not in f.filename]
            site = f"{type(a.exc).__name__}:{frames[-1] if frames else '?'}"
            import re

            oracle = "actor_failed"
            if set(re.findall(r"[0-9a-f]{32}", str(a.exc))) & g.dup_names():
                oracle, site = "durability", "dangling-pack-names-entry:duplicate-pack-name"
            elif type(a.exc).__name__ == "BadIndexData" and g.dup_names():
                site = "BadIndexData:duplicate-pack-name"
            elif isinstance(a.exc, FileNotFoundError) and "write stream was open" in str(a.exc) and g.dup_names():
                # the in-place index file of a pack whose name another process has produced (and meanwhile
                # obsoleted and deleted) vanished under the writer
                site = "write-stream-file-removed:duplicate-pack-name"
            elif n in g.failed_in_pack and re.search(r"\.[rits]ix|\.cix", g.failed_in_pack[n]) and g.failed_in_pack[n] in str(a.exc):
                site = "NoSuchFile:index-read-inside-pack-operation"
            sim.fail(oracle, [oracle, "preempt", site], f"actor {n} ({plan['actors'][n]}) failed with {type(a.exc).__name__}: {a.exc}\n{tb}")
    # final judgement by a fresh process
    sim.monitors.remove(g.monitor)
    sim.restart_main("judge")
    storesim.clear_caches()
    repo = storesim.open_repo(url)
    if crashed:
        try:
            repo.break_lock()
        except Exception:  # noqa: BLE001
            pass
    try:
        with repo.lock_read():
            listed = {r.decode() for r in repo.all_revision_ids()}
            prob = storesim.readable(repo, mh, None)
    except Exception as e:  # noqa: BLE001
        import traceback

        import re

        named = set(re.findall(r"[0-9a-f]{32}", str(e)))
        if named & g.dup_names():
            site = "dangling-pack-names-entry:duplicate-pack-name"
        elif type(e).__name__ == "BadIndexData" and g.dup_names():
            site = "corrupt-index:duplicate-pack-name"
        else:
            site = "repository-unreadable:" + type(e).__name__
        sim.fail("durability", ["durability", "preempt", site], f"fresh process cannot list/read the repository: {type(e).__name__}: {e}\n{traceback.format_exc()[-1500:]}")
    missing = sorted(g.acked - listed)
    if missing:
        sim.fail("durability", ["durability", "preempt", "acked-revision-not-listed"], f"acknowledged revisions no longer listed: {missing}")
    if prob:
        sim.fail("durability", ["durability", "preempt", "listed-revision-unreadable"], prob)
    prob = storesim.check_clean(repo)
    if prob:
        sim.fail("check", ["check", "preempt", "final"], prob)
    sim.state_seen((fmt, len(listed), len(g.disk_names())))
    sim.nontrivial = len(g.savers) >= 2 and g.switch_inside
