"""C13 — Applying a tree transform is all-or-nothing on the file system.

Per run: a small committed tree (bzr 2a or git) and one transform, produced either by a
direct TreeTransform script (create / delete / rename chain / swap / kind change / move
into new dir / replace / chmod) or by a real command on a seeded edit (revert, merge,
switch, shelve, unshelve).  A dry pass records the file-system calls of apply() at the os
seam and the states S0 (before) and S1 (after).  Then one re-execution per call index k
(quick: a seeded sample of <= 12): the world is restored from a pristine copy, the same
transform is rebuilt, call k raises OSError(errno) -- or, in a quarter of the points,
KeyboardInterrupt / SystemExit arrives before it --, the command / finalize() cleans up, and
the reopened tree is compared with S0 / S1.  Violations whose signature is an open known
finding are noted and the enumeration goes on, so that other violations stay visible."""

import gc
import json
import os
import random
import shutil
import traceback

from simkit import findings, forkenum, osseam
from simkit.sim import CTX, Sim, Violation, derive_seed

from . import xformsim

PROPERTY = "C13"
LEVEL = "fault_enumeration"
RULE = (
    "one case = one (tree, transform, file-system call index k of apply(), errno or interrupt) re-execution with that call failing / the interrupt arriving before it; "
    "non-trivial = the transform changes the tree (S0 != S1) and the injected error fired inside apply(); "
    "distinct = distinct event-log digests of such re-executions"
)
COMPONENTS = {
    "real": [
        "breezy.transform (_FileMover, revert, resolve_conflicts)",
        "breezy.bzr.transform.InventoryTreeTransform",
        "breezy.git.transform.GitTreeTransform",
        "breezy.merge.Merge3Merger via WorkingTree.merge_from_branch",
        "breezy.switch.switch",
        "breezy.shelf (ShelfCreator, ShelfManager, Unshelver)",
        "2a / git working trees on a /dev/shm directory (dirstate / index written by the real code)",
    ],
    "simulated": [
        "failure of one file-system call of the transform modules (os.rename, os.mkdir, delete_any, chmod_if_possible, ... as whole calls, no effect + OSError)",
        "interrupt: KeyboardInterrupt / SystemExit raised before one file-system call of apply() (Ctrl-C or a signal handler's exit between two calls; clean-up handlers still run)",
    ],
    "stub": ["UI (SilentUIFactory)"],
}
ASSUMPTIONS = [
    "a failing file-system call has no effect (os_err); Rust helpers (delete_any, chmod_if_possible) fail as a whole call",
    "exactly one call fails (or one interrupt arrives) per execution; the clean-up the command itself performs afterwards (rollback, finalize) succeeds",
    "an interrupt is delivered at a seam call (before it takes effect), never inside a system call or between two Python statements that make no file-system call",
    "no fault is injected inside the dirstate / index save (no seam there) or in the transport writes of control files",
    "residue in limbo/pending-deletion that blocks the next transform is counted (probes residue_blocks_next_<phase>), not judged: the property text covers the tree's files and versioning metadata; the one listed exception is finalize() failing on a limbo symlink that points at a directory",
]
STEP_CAP = 20000

ERRNO_NAMES = ["EACCES", "ENOSPC", "EIO", "EXDEV", "ENOTEMPTY"]
# what call k raises: an errno (3 in 4) or an interrupt: KeyboardInterrupt "INT" / SystemExit "EXIT"
FAULT_POOL = ERRNO_NAMES * 3 + ["INT", "INT", "INT", "EXIT", "EXIT"]
PRE_COMMIT = ("removals", "insertions")
POST_COMMIT = ("discard", "finalize", "meta")
FORK_PER_POINT = os.environ.get("VERIF_XFORM_FORK") == "1"
# A run is 0.2-0.5 s of work; a fork per run costs 1-9 s on this VM under load.  Every run builds
# its world below its own scratch directory and reopens every tree; seam + apply hook are installed
# once and consult the Sim that owns the calling thread.  VERIF_XFORM_ISOLATION=fork: one child per run.
ISOLATION = os.environ.get("VERIF_XFORM_ISOLATION", "thread")
MODES = ["script", "script", "script", "script", "revert", "revert", "merge", "merge", "switch", "shelve", "unshelve"]


def warm():
    xformsim.warm()


def config(tier):
    if tier == "thorough":
        return {"budget_s": 700, "run_timeout": 180, "selftest": 16, "max_runs": 12000}  # in-process runs leak ~0.5 MB each (see xformsim.end_of_run)
    return {"budget_s": 45, "run_timeout": 180, "selftest": 16}


# --------------------------------------------------------------------------------------
# layout model shared by generation and execution
# --------------------------------------------------------------------------------------
class Layout:
    """final path -> entry {kind, orig (tree path or None), new (content created by the
    script), versioned}.  Pure bookkeeping; the executor adds 'tid'."""

    def __init__(self, spec, unversioned=()):
        self.e = {}
        for path, kind, _data, _x in spec:
            self.e[path] = {"kind": kind, "orig": path, "new": False, "versioned": True}
        for path, kind, _data, _x in unversioned:
            self.e[path] = {"kind": kind, "orig": path, "new": False, "versioned": False}

    def is_dir(self, path):
        return path == "" or (path in self.e and self.e[path]["kind"] == "dir")

    def dirs(self):
        return [""] + sorted(p for p, v in self.e.items() if v["kind"] == "dir")

    def subtree(self, path):
        pre = path + "/"
        return sorted(p for p in self.e if p == path or p.startswith(pre))

    def children(self, path):
        return [p for p in self.e if p != path and parent_of(p) == path]

    def free(self, path):
        return path not in self.e

    def pristine(self, path):
        return all(not self.e[p]["new"] and not self.e[p].get("moved") for p in self.subtree(path))

    def move(self, src, dst):
        moved = {}
        for p in self.subtree(src):
            moved[dst + p[len(src) :]] = self.e.pop(p)
        self.e.update(moved)
        self.e[dst]["moved"] = True

    def remove(self, path):
        for p in self.subtree(path):
            del self.e[p]


def parent_of(path):
    return path.rsplit("/", 1)[0] if "/" in path else ""


def join(parent, name):
    return f"{parent}/{name}" if parent else name


def inside(path, anc):
    return path == anc or path.startswith(anc + "/")


FRESH = ["n1", "n2", "n3", "zz", "a", "b", "c", "d", "e"]


def gen_script(rng, lay, nops):
    ops = []
    tries = 0
    while len(ops) < nops and tries < 80:
        tries += 1
        kind = rng.choice(["new_file", "new_dir", "new_symlink", "delete", "rename", "chain", "swap", "kind", "into_new_dir", "replace", "set_exec", "delete", "rename", "swap", "kind"])
        paths = sorted(lay.e)
        op = None
        if kind in ("new_file", "new_dir", "new_symlink"):
            parent = rng.choice(lay.dirs())
            name = rng.choice(FRESH)
            if kind == "new_file":
                op = ["new_file", parent, name, f"new {name}\n" * rng.randint(1, 3), rng.random() < 0.3]
            elif kind == "new_dir":
                op = ["new_dir", parent, name]
            else:
                op = ["new_symlink", parent, name, rng.choice(["a", "gone", "d/x"])]
        elif not paths:
            continue
        elif kind == "delete":
            op = ["delete", rng.choice(paths)]
        elif kind == "rename":
            op = ["rename", rng.choice(paths), rng.choice(lay.dirs()), rng.choice(FRESH)]
        elif kind == "chain" and len(paths) >= 2:
            a, b = rng.sample(paths, 2)
            c = rng.choice(paths + [join(rng.choice(lay.dirs()), rng.choice(FRESH))])
            op = ["chain", [a, b, c]]
        elif kind == "swap" and len(paths) >= 2:
            a, b = rng.sample(paths, 2)
            op = ["swap", a, b]
        elif kind == "kind":
            p = rng.choice(paths)
            to = rng.choice([k for k in ("file", "dir", "symlink") if k != lay.e[p]["kind"]])
            op = ["kind", p, to, "tgt" if to == "symlink" else f"was {p}\n"]
        elif kind == "into_new_dir":
            op = ["into_new_dir", rng.choice(paths), rng.choice(lay.dirs()), rng.choice(FRESH)]
        elif kind == "replace":
            files = [p for p in paths if lay.e[p]["kind"] == "file"]
            if files:
                p = rng.choice(files)
                op = ["replace", p, f"replaced {p} with longer text\n" * rng.randint(2, 4)]
        elif kind == "set_exec":
            files = [p for p in paths if lay.e[p]["kind"] == "file"]
            if files:
                op = ["set_exec", rng.choice(files), rng.random() < 0.6]
        if op is not None and script_step(lay, op, None):
            ops.append(op)
    return ops


def script_step(lay, op, tt):
    """Apply one script op to the layout model and, when `tt` is given, to the transform.
    Returns False (no effect) when its preconditions do not hold."""
    kind = op[0]
    e = lay.e

    def tid(path):
        if path == "":
            return tt.root
        ent = e[path]
        if ent.get("tid") is None:
            ent["tid"] = tt.trans_id_tree_path(ent["orig"])
        return ent["tid"]

    def new_id(path):
        return ("new-" + path.replace("/", "_")).encode()

    def delete(path):
        for p in reversed(lay.subtree(path)):
            if tt is not None:
                t = tid(p)
                tt.delete_contents(t)
                if e[p]["versioned"]:
                    tt.unversion_file(t)
        lay.remove(path)

    if kind in ("new_file", "new_dir", "new_symlink"):
        parent, name = op[1], op[2]
        path = join(parent, name)
        if not lay.is_dir(parent) or not lay.free(path):
            return False
        ent = {"kind": {"new_file": "file", "new_dir": "dir", "new_symlink": "symlink"}[kind], "orig": None, "new": True, "versioned": True, "execset": True}
        if tt is not None:
            pt = tid(parent)
            if kind == "new_file":
                ent["tid"] = tt.new_file(name, pt, [op[3].encode()], new_id(path), bool(op[4]))
            elif kind == "new_dir":
                ent["tid"] = tt.new_directory(name, pt, new_id(path))
            else:
                ent["tid"] = tt.new_symlink(name, pt, op[3], new_id(path))
        e[path] = ent
        return True
    if kind == "delete":
        path = op[1]
        if path not in e or not lay.pristine(path):
            return False
        delete(path)
        return True
    if kind == "rename":
        path, parent, name = op[1], op[2], op[3]
        dst = join(parent, name)
        if path not in e or not lay.is_dir(parent) or not lay.free(dst) or inside(parent, path):
            return False
        if tt is not None:
            tt.adjust_path(name, tid(parent), tid(path))
        lay.move(path, dst)
        return True
    if kind == "chain":
        a, b, c = op[1]
        if a not in e or b not in e or len({a, b, c}) < 3:
            return False
        if inside(a, b) or inside(b, a) or inside(c, a) or inside(c, b) or inside(a, c) or inside(b, c):
            return False
        if not lay.is_dir(parent_of(c)) or not lay.is_dir(parent_of(b)):
            return False
        if c in e:
            if not lay.pristine(c):
                return False
            delete(c)
        pb, pc = parent_of(b), parent_of(c)
        if tt is not None:
            tt.adjust_path(os.path.basename(c), tid(pc), tid(b))
            tt.adjust_path(os.path.basename(b), tid(pb), tid(a))
        lay.move(b, c)
        lay.move(a, b)
        return True
    if kind == "swap":
        a, b = op[1], op[2]
        if a not in e or b not in e or inside(a, b) or inside(b, a):
            return False
        pa, pb = parent_of(a), parent_of(b)
        if tt is not None:
            ta, tb, tpa, tpb = tid(a), tid(b), tid(pa), tid(pb)
            tt.adjust_path(os.path.basename(b), tpb, ta)
            tt.adjust_path(os.path.basename(a), tpa, tb)
        tmp = a + "\0swap"
        lay.move(a, tmp)
        lay.move(b, a)
        lay.move(tmp, b)
        return True
    if kind == "kind":
        path, to = op[1], op[2]
        if path not in e or e[path]["new"] or e[path]["kind"] == to:
            return False
        if e[path]["kind"] == "dir":
            for ch in lay.children(path):
                if not lay.pristine(ch):
                    return False
            for ch in sorted(lay.children(path)):
                delete(ch)
        if tt is not None:
            t = tid(path)
            tt.delete_contents(t)
            if to == "file":
                tt.create_file([op[3].encode()], t)
            elif to == "dir":
                tt.create_directory(t)
            else:
                tt.create_symlink(op[3], t)
        e[path]["kind"] = to
        e[path]["new"] = True
        return True
    if kind == "into_new_dir":
        path, parent, name = op[1], op[2], op[3]
        nd = join(parent, name)
        if path not in e or not lay.is_dir(parent) or not lay.free(nd) or inside(parent, path):
            return False
        base = os.path.basename(path)
        ent = {"kind": "dir", "orig": None, "new": True, "versioned": True}
        if tt is not None:
            ent["tid"] = tt.new_directory(name, tid(parent), new_id(nd))
            tt.adjust_path(base, ent["tid"], tid(path))
        e[nd] = ent
        lay.move(path, join(nd, base))
        return True
    if kind == "replace":
        path = op[1]
        if path not in e or e[path]["kind"] != "file" or e[path]["new"]:
            return False
        if tt is not None:
            t = tid(path)
            tt.delete_contents(t)
            tt.create_file([op[2].encode()], t)
        e[path]["new"] = True
        return True
    if kind == "set_exec":
        path = op[1]
        if path not in e or e[path]["kind"] != "file" or e[path].get("execset") or not e[path]["versioned"]:
            return False
        if tt is not None:
            tt.set_executability(bool(op[2]), tid(path))
        e[path]["execset"] = True
        return True
    return False


# --------------------------------------------------------------------------------------
# edits made through the working tree (seeded local / sibling changes for the commands)
# --------------------------------------------------------------------------------------
def gen_edits(rng, lay, nops, tag):
    """Edits are generated against the model only (paths -> kinds)."""
    ops = []
    tries = 0
    while len(ops) < nops and tries < 60:
        tries += 1
        paths = sorted(p for p in lay.e if lay.e[p]["versioned"])
        kind = rng.choice(["modify", "modify", "delete", "rename", "kind", "add_file", "add_dir", "add_symlink", "chmod", "rename", "delete"])
        op = None
        if kind.startswith("add_"):
            parent = rng.choice([d for d in lay.dirs() if d == "" or lay.e[d]["versioned"]])
            name = rng.choice(FRESH) + tag
            op = [kind, parent, name, f"{tag} {name}\n" * rng.randint(1, 3) if kind == "add_file" else "a"]
        elif not paths:
            continue
        elif kind == "modify":
            files = [p for p in paths if lay.e[p]["kind"] == "file"]
            if files:
                p = rng.choice(files)
                op = ["modify", p, f"{tag} changed {p}\n" * rng.randint(1, 3), rng.random() < 0.5]
        elif kind == "delete":
            op = ["delete", rng.choice(paths)]
        elif kind == "rename":
            op = ["rename", rng.choice(paths), rng.choice([d for d in lay.dirs() if d == "" or lay.e[d]["versioned"]]), rng.choice(FRESH) + tag]
        elif kind == "kind":
            p = rng.choice(paths)
            to = rng.choice([k for k in ("file", "dir", "symlink") if k != lay.e[p]["kind"]])
            op = ["kind", p, to, "tgt" + tag if to == "symlink" else f"{tag} was {p}\n"]
        elif kind == "chmod":
            files = [p for p in paths if lay.e[p]["kind"] == "file"]
            if files:
                op = ["chmod", rng.choice(files)]
        if op is not None and edit_step(lay, op, None):
            ops.append(op)
    return ops


def edit_step(lay, op, tree):
    """One edit on the model and (when `tree` is given) on the tree + its disk."""
    kind = op[0]
    e = lay.e
    fmt_bzr = tree is not None and tree.supports_setting_file_ids()

    def ab(p):
        return tree.abspath(p)

    def rm_subtree(path):
        if tree is not None:
            tree.remove([path], keep_files=False, force=True)
            if os.path.lexists(ab(path)):
                if os.path.isdir(ab(path)) and not os.path.islink(ab(path)):
                    shutil.rmtree(ab(path))
                else:
                    os.unlink(ab(path))
        lay.remove(path)

    if kind.startswith("add_"):
        parent, name = op[1], op[2]
        path = join(parent, name)
        if not lay.is_dir(parent) or not lay.free(path) or (parent and not e[parent]["versioned"]):
            return False
        k = kind[4:]
        if tree is not None:
            if k == "file":
                with open(ab(path), "wb") as f:
                    f.write(op[3].encode())
            elif k == "dir":
                os.mkdir(ab(path))
            else:
                os.symlink(op[3], ab(path))
            if fmt_bzr:
                tree.add([path], ids=[("add-" + path.replace("/", "_")).encode()])
            else:
                tree.add([path])
        e[path] = {"kind": k, "orig": path, "new": True, "versioned": True}
        return True
    if kind == "modify":
        path = op[1]
        if path not in e or e[path]["kind"] != "file":
            return False
        if tree is not None:
            with open(ab(path), "rb") as f:
                old = f.read()
            new = (old + op[2].encode()) if op[3] else (op[2].encode() + b"#" * (len(old) + 1))
            with open(ab(path), "wb") as f:  # always a different length
                f.write(new)
        return True
    if kind == "delete":
        path = op[1]
        if path not in e:
            return False
        rm_subtree(path)
        return True
    if kind == "rename":
        path, parent, name = op[1], op[2], op[3]
        dst = join(parent, name)
        if path not in e or not lay.is_dir(parent) or not lay.free(dst) or inside(parent, path) or (parent and not e[parent]["versioned"]):
            return False
        if parent and e[parent].get("kc"):
            # the inventory still records the new parent as a non-directory: rename_one() then
            # panics in the Rust inventory (crates/bazaar/src/inventory.rs:1462, reported by hand)
            return False
        if tree is not None:
            tree.rename_one(path, dst)
        lay.move(path, dst)
        return True
    if kind == "kind":
        path, to = op[1], op[2]
        if path not in e or e[path]["kind"] == to:
            return False
        if e[path]["kind"] == "dir":
            for ch in sorted(lay.children(path)):
                rm_subtree(ch)
        if tree is not None:
            p = ab(path)
            if os.path.isdir(p) and not os.path.islink(p):
                shutil.rmtree(p)
            else:
                os.unlink(p)
            if to == "file":
                with open(p, "wb") as f:
                    f.write(op[3].encode())
            elif to == "dir":
                os.mkdir(p)
            else:
                os.symlink(op[3], p)
        e[path]["kind"] = to
        e[path]["kc"] = True
        return True
    if kind == "chmod":
        path = op[1]
        if path not in e or e[path]["kind"] != "file":
            return False
        if tree is not None:
            m = os.lstat(ab(path)).st_mode & 0o777
            os.chmod(ab(path), m ^ 0o111)
        return True
    return False


def apply_edits(tree, spec, edits, unversioned=()):
    lay = Layout(spec, unversioned)
    with tree.lock_write():
        for op in edits:
            edit_step(lay, op, tree)
    return lay


# --------------------------------------------------------------------------------------
# plan
# --------------------------------------------------------------------------------------
def generate(rng, tier):
    fmt = rng.choice(["bzr", "bzr", "git"])
    mode = rng.choice(MODES)
    if fmt == "git" and mode in ("switch", "shelve", "unshelve"):
        # shelving is not supported on git trees (ShelvingUnsupported / crashes before any
        # transform is applied); lightweight git checkouts are not a supported layout
        mode = rng.choice(["merge", "revert", "script"])
    spec = xformsim.gen_tree_spec(rng)
    unversioned = []
    if rng.random() < 0.3:
        unversioned = [["u1", "file", "unversioned\n", False]]
        if any(e[0] == "u1" for e in spec):
            unversioned = []
    plan = {
        "fmt": fmt,
        "mode": mode,
        "tree": spec,
        "unversioned": unversioned,
        "errnos": [rng.choice(FAULT_POOL) for _ in range(16)],
        "sample_seed": rng.randrange(1 << 30),
        "backups": rng.random() < 0.4,
    }
    lay = Layout(spec, unversioned)
    if mode == "script":
        plan["ops"] = gen_script(rng, lay, rng.randint(2, 6))
    elif mode in ("revert", "shelve", "unshelve"):
        plan["ops"] = gen_edits(rng, lay, rng.randint(2, 6), "L")
        if mode != "revert" and rng.random() < 0.3:
            plan["shelve_mask"] = rng.randrange(1, 1 << 12)
    else:  # merge / switch
        plan["ops"] = gen_edits(rng, lay, rng.randint(2, 6), "O")
        if rng.random() < 0.5:
            lay2 = Layout(spec, unversioned)
            plan["this_ops"] = gen_edits(rng, lay2, rng.randint(1, 3), "T")
    return plan


# --------------------------------------------------------------------------------------
# world + command
# --------------------------------------------------------------------------------------
def build_world(plan, W):
    """Everything the command needs, below W; the tree under test is W/t."""
    fmt, mode = plan["fmt"], plan["mode"]
    spec, unv = plan["tree"], plan.get("unversioned", [])
    os.makedirs(W)
    if mode == "switch":
        a = xformsim.build_tree(os.path.join(W, "a"), fmt, spec)
        other = a.controldir.sprout(os.path.join(W, "o")).open_workingtree()
        apply_edits(other, spec, plan["ops"])
        xformsim.commit(other, "other", b"rev-other")
        t = a.branch.create_checkout(os.path.join(W, "t"), lightweight=True)
        xformsim.write_entries(os.path.join(W, "t"), unv)
        if plan.get("this_ops"):
            apply_edits(t, spec, plan["this_ops"], unv)
        return
    tree = xformsim.build_tree(os.path.join(W, "t"), fmt, spec, unv)
    if mode == "merge":
        other = tree.controldir.sprout(os.path.join(W, "o")).open_workingtree()
        apply_edits(other, spec, plan["ops"])
        xformsim.commit(other, "other", b"rev-other")
        if plan.get("this_ops"):
            apply_edits(tree, spec, plan["this_ops"], unv)
            xformsim.commit(tree, "this", b"rev-this")
    elif mode in ("revert", "shelve", "unshelve"):
        apply_edits(tree, spec, plan["ops"], unv)
        if mode == "unshelve":
            do_shelve(tree, plan)


def do_shelve(tree, plan):
    from breezy import shelf

    creator = shelf.ShelfCreator(tree, tree.basis_tree())
    try:
        mask = plan.get("shelve_mask")
        for i, change in enumerate(creator.iter_shelvable()):
            if mask is None or (mask >> (i % 12)) & 1:
                if change[0] == "modify text":
                    creator.shelve_content_change(change[1])
                else:
                    creator.shelve_change(change)
        tree.get_shelf_manager().shelve_changes(creator, "shelved")
    finally:
        creator.finalize()


def run_command(plan, W):
    """Build the transform and apply it (exactly what the dry pass and every fault point
    re-execute).  Exceptions propagate."""
    from breezy import transform as _t

    mode = plan["mode"]
    tree = xformsim.open_tree(os.path.join(W, "t"))
    if mode == "script":
        lay = Layout(plan["tree"], plan.get("unversioned", []))
        tt = tree.transform()
        try:
            for op in plan["ops"]:
                script_step(lay, op, tt)
            if tt.find_raw_conflicts():
                _t.resolve_conflicts(tt)
            tt.apply()
        finally:
            tt.finalize()
    elif mode == "revert":
        tree.revert(backups=bool(plan.get("backups")))
    elif mode == "merge":
        from breezy.branch import Branch

        other = Branch.open(os.path.join(W, "o"))
        tree.merge_from_branch(other, force=True)
    elif mode == "switch":
        from breezy import switch
        from breezy.branch import Branch

        other = Branch.open(os.path.join(W, "o"))
        switch.switch(tree.controldir, other, quiet=True)
    elif mode == "shelve":
        do_shelve(tree, plan)
    elif mode == "unshelve":
        manager = tree.get_shelf_manager()
        with tree.lock_tree_write():
            unshelver = manager.get_unshelver(manager.last_shelf())
            try:
                merger = unshelver.make_merger()
                merger.do_merge()
            finally:
                unshelver.finalize()
    else:
        raise ValueError(mode)


def run_point(fn):
    """One fault point.  Default: in this run child (which is itself a forked copy of the
    warmed parent, one per run), sequentially, on a world restored from the pristine copy;
    measured here a nested fork per point costs 0.1-1 s of page-table work for 15 ms of
    useful work.  VERIF_XFORM_FORK=1 runs every point in its own forked copy instead."""
    if FORK_PER_POINT:
        return forkenum.run_forked(fn, timeout=60.0)
    saved = (CTX.sim, CTX.actor)
    try:
        res = fn()
    except BaseException:  # noqa: B036 - same contract as run_forked
        res = {"_error": traceback.format_exc()[-4000:]}
    finally:
        CTX.sim, CTX.actor = saved
        gc.collect()  # finalizers of leaked transforms must not fire during the next point
    return json.loads(json.dumps(res, default=repr))


def restore(W0, W):
    shutil.rmtree(W, ignore_errors=True)
    shutil.copytree(W0, W, symlinks=True)


def scrub(text, sim):
    return str(text).replace(getattr(sim, "scratch", "\0"), "<scratch>")


# --------------------------------------------------------------------------------------
# one fault point (runs in a forked copy)
# --------------------------------------------------------------------------------------
def only_modes_differ(a, b):
    return set(a) == set(b) and all(a[p][:2] == b[p][:2] for p in a) and a != b


def site_of(plan, phase, op):
    pre = "git." if plan["fmt"] == "git" else ""
    return f"{pre}{phase}:{op}"


def eval_point(parent_sim, plan, W, dry, k):
    sub = Sim(derive_seed(parent_sim.seed, "k", k), plan)
    sub.scratch = parent_sim.scratch
    extra = {"k": k}
    try:
        _eval_point(sub, plan, W, dry, k, extra)
    except Violation:
        pass
    return forkenum.sub_result(sub, extra)


def _eval_point(sub, plan, W, dry, k, extra):
    from breezy import errors as berrors

    root = os.path.join(W, "t")
    osseam.activate(sub, {"": root, "w": W})
    want = dry["ops"][k - 1]
    errno_name = plan["errnos"][k % len(plan["errnos"])]
    if want[0] == "chmod_if_possible" and errno_name == "EACCES":
        errno_name = "EIO"  # the real function swallows permission errors
    watch = xformsim.ApplyWatch(sub, fault_at=k, errno_name=errno_name)
    raised = None
    try:
        run_command(plan, W)
    except Exception as e:  # noqa: BLE001 - must stem from the injected failure (checked below)
        raised = e
    except (KeyboardInterrupt, SystemExit) as e:
        # the injected interrupt ends the simulated command here (a real one would end the
        # process after its clean-up handlers ran); the state is judged by fresh objects below
        if not (xformsim.chain_has(e, watch.injected) or xformsim.chain_has(watch.exc, watch.injected)):
            raise
        raised = e
    finally:
        watch.close()
        osseam.deactivate(sub)
    got = [o[:3] for o in watch.ops[:k]]
    if got != [o[:3] for o in dry["ops"][:k]]:
        raise RuntimeError(f"fault point {k}: operation prefix differs from the dry pass: {got} vs {dry['ops'][:k]}")
    if not sub.faults_fired.get("err_before"):
        raise RuntimeError(f"fault point {k}: the fault did not fire")
    phase = watch.ops[k - 1][3]
    op = watch.ops[k - 1][0]
    site = site_of(plan, phase, op)
    extra["site"] = site
    fkind = osseam.fault_kind(errno_name)
    sub.event("fault", k, errno_name, site)
    sub.probe("fault_" + fkind)
    if raised is not None and not (xformsim.chain_has(raised, watch.injected) or xformsim.chain_has(watch.exc, watch.injected)):
        raise raised  # an exception unrelated to the injected failure: harness problem
    sub.event("outcome", type(raised).__name__ if raised is not None else "returned")
    if raised is None:
        sub.probe("error_swallowed")
    state = xformsim.tree_state(root)
    s0, s1 = dry["s0"], dry["s1"]
    # git records merge conflicts as index entries, written by the command *after* apply()
    # returned; a command aborted inside apply() never gets there.  Those paths are not
    # part of the layout comparison.
    skip = {e[0] for m in (s1["meta"], state["meta"]) for e in m if e[1] == "conflicted"}
    if skip:
        sub.probe("conflicted_index_paths_ignored")
        s0, s1, state = ({"disk": x["disk"], "meta": [e for e in x["meta"] if e[0] not in skip]} for x in (s0, s1, state))
    changed = s0 != s1
    where = "s0" if state == s0 else ("s1" if state == s1 else "mixed")
    sub.state_seen((site, errno_name if op == "os.rename" else "", where, type(raised).__name__))
    sub.probe("phase_" + phase)
    sub.probe("end_" + where)
    sub.nontrivial = changed
    sig = None
    if where == "mixed":
        disk0, disk1 = state["disk"] == s0["disk"], state["disk"] == s1["disk"]
        meta0, meta1 = state["meta"] == s0["meta"], state["meta"] == s1["meta"]
        if (disk0 or disk1) and (meta0 or meta1):
            oracle = "meta_matches_disk"
            what = f"files are in the {'previous' if disk0 else 'transformed'} layout but the reopened tree's metadata describes the {'previous' if meta0 else 'transformed'} one"
            if not (phase == "discard" and disk1 and meta0):
                site += ":files-old-meta-new" if disk0 else ":files-new-meta-old"
        elif meta0 and phase in PRE_COMMIT and only_modes_differ(state["disk"], s0["disk"]):
            # one specific, separately reported site: chmod done by _apply_insertions is
            # not journalled, so rollback() leaves the new permission bits behind
            oracle = "all_or_nothing"
            what = "everything was rolled back except the permission bits set by the transform"
            site = ("git." if plan["fmt"] == "git" else "") + "rollback:mode-not-restored"
        else:
            oracle = "all_or_nothing"
            what = "state is neither the previous nor the transformed one"
            if disk0 or disk1:
                site += ":meta-mixed"
        d = []
        if not disk0 and not disk1:
            d.append("disk vs S0: " + xformsim.diff_maps(state["disk"], s0["disk"]))
            d.append("disk vs S1: " + xformsim.diff_maps(state["disk"], s1["disk"]))
        if not meta0 and not meta1:
            d.append("meta vs S0: " + xformsim.diff_maps(state["meta"], s0["meta"]))
            d.append("meta vs S1: " + xformsim.diff_maps(state["meta"], s1["meta"]))
        if (disk0 or disk1) and (meta0 or meta1):
            d.append("S0->S1 disk: " + xformsim.diff_maps(s0["disk"], s1["disk"]))
        sig = [oracle, fkind, site]
        detail = f"{errno_name} at call {k} ({want[0]} {want[1]} {want[2]}) in phase {phase}: {what}; " + " | ".join(d)
    elif changed and phase in PRE_COMMIT and where != "s0":
        sig = ["all_or_nothing", fkind, site + ":not-restored"]
        detail = f"{errno_name} at call {k} ({want[0]} {want[1]}) before the transform was committed, yet the tree ended in the transformed state (raised: {type(raised).__name__})"
    elif changed and phase in POST_COMMIT and where != "s1":
        sig = ["meta_matches_disk", fkind, site + ":reverted-after-commit"]
        detail = f"{errno_name} at call {k} ({want[0]} {want[1]}) while discarding replaced content, yet the tree ended in the previous state"
    if sig is not None:
        sub.fail(sig[0], sig, scrub(detail, sub))
    # limbo residue.  The property text speaks of the tree's files and its versioning
    # metadata; a limbo / pending-deletion directory that blocks the NEXT transform is
    # counted (probes), not judged -- with one precise exception that is a listed finding:
    # finalize() cannot remove a limbo symlink that points at an existing directory
    # (osutils.delete_any follows the link, crates/osutils/src/file.rs:210), aborts its
    # clean-up with NotADirectoryError and leaves the limbo behind.
    left = xformsim.residue(root)
    if left:
        sub.probe("residue_" + phase)
    tree = xformsim.open_tree(root)
    try:
        tt2 = tree.transform()
    except (berrors.ExistingLimbo, berrors.ExistingPendingDeletion) as e:
        sub.probe("residue_blocks_next_" + phase)
        sub.event("residue", "blocks-next", type(e).__name__)
        links = [p for p in left if os.path.islink(os.path.join(root, p)) and os.path.isdir(os.path.join(root, p))]
        if links:
            sub.fail(
                "limbo_residue",
                ["limbo_residue", "os_err", "finalize:delete_any:symlink-to-directory"],
                scrub(f"{errno_name} at call {k} ({want[0]} {want[1]}) aborted the transform; finalize() then failed on the limbo symlink {links[0]} -> directory (raised: {type(raised).__name__}) and the next transform raises {type(e).__name__}; left: {left[:6]}", sub),
            )
    else:
        tt2.finalize()


# --------------------------------------------------------------------------------------
# the run
# --------------------------------------------------------------------------------------
ANTICIPATED = {"discard:delete_any", "git.discard:delete_any", "rollback:mode-not-restored", "git.rollback:mode-not-restored"}


def execute(sim, plan):
    try:
        _execute(sim, plan)
    finally:
        sim.apply_hook = None
        xformsim.end_of_run()


def _execute(sim, plan):
    from breezy import errors as berrors
    from breezy import transform as _t

    warm()
    base = os.environ["VERIF_SCRATCH"]
    W = os.path.join(base, "w")
    W0 = os.path.join(base, "w0")
    root = os.path.join(W, "t")
    try:
        build_world(plan, W)
    except BaseException as e:  # noqa: B036 - includes pyo3 PanicException (a BaseException)
        if isinstance(e, (KeyboardInterrupt, SystemExit, Violation)) or type(e).__name__ in ("SimCrash", "HarnessTruncated"):
            raise
        # an edit sequence the tree API refuses or cannot handle (not the subject of this check)
        kind = "refused" if isinstance(e, (berrors.BzrError, OSError)) else "crashed"
        sim.probe(f"world_{kind}_{plan['mode']}_{plan['fmt']}_{type(e).__name__}")
        sim.event("world", kind, type(e).__name__)
        return
    shutil.copytree(W, W0, symlinks=True)
    # dry pass
    osseam.activate(sim, {"": root, "w": W})
    s0 = xformsim.tree_state(root)
    watch = xformsim.ApplyWatch(sim)
    try:
        run_command(plan, W)
    except Exception as e:  # noqa: BLE001
        if watch.calls and (watch.ops or not isinstance(e, _t.MalformedTransform)):
            # the command's own apply() fails without any injected fault: a defect of the
            # command (reported by hand), not a fault-tolerance question; nothing to enumerate
            sim.probe(f"faultfree_apply_failed_{plan['mode']}_{plan['fmt']}_{type(e).__name__}")
            sim.event("command", "apply-failed-without-fault", type(e).__name__)
            if xformsim.tree_state(root) != s0:
                sim.probe("faultfree_apply_failed_tree_changed")
            return
        # the command could not build its transform (refused, or crashed before apply():
        # not this property's subject; counted, and reported by hand when it is a crash)
        kind = "refused" if isinstance(e, berrors.BzrError) else "crashed"
        sim.probe(f"command_{kind}_{plan['mode']}_{plan['fmt']}_{type(e).__name__}")
        sim.event("command", kind, type(e).__name__)
        return
    finally:
        watch.close()
        osseam.deactivate(sim)
    if watch.calls == 0:
        sim.probe("no_transform_applied")
        return
    s1 = xformsim.tree_state(root)
    left = xformsim.residue(root)
    if left:
        raise RuntimeError(f"fault-free apply left residue {left}")
    ops = watch.ops
    n = len(ops)
    dry = {"s0": s0, "s1": s1, "ops": ops}
    sim.event("dry", n, "changed" if s0 != s1 else "noop")
    sim.probe("mode_" + plan["mode"] + "_" + plan["fmt"])
    for o in ops:
        sim.probe("dryop_" + o[3] + ":" + o[0])
    if plan.get("only"):
        ks = [k for k in plan["only"] if 1 <= k <= n]
    elif getattr(sim, "tier", "quick") == "thorough" or n <= 12:
        ks = list(range(1, n + 1))
    else:
        ks = sorted(random.Random(plan["sample_seed"]).sample(range(1, n + 1), 12))
    known = findings.load(PROPERTY)
    sim.notes["evaluations"] = 0
    bad = []
    for k in ks:
        restore(W0, W)
        res = run_point(lambda k=k: eval_point(sim, plan, W, dry, k))
        if res.get("verdict") == "violation":
            if findings.match(known, res.get("signature")) is not None:
                sim.notes.setdefault("known", [])
                if res["signature"] not in sim.notes["known"]:
                    sim.notes["known"].append(res["signature"])
                res = dict(res, verdict="ok")
                sim.probe("known_finding_hit")
            else:
                bad.append((k, res))
                sim.event("sub", f"k={k}", "violation", res["digest"])
                sim.notes["evaluations"] += 1
                if res.get("nontrivial"):
                    sim.notes.setdefault("sub_digests", []).append(res["digest"])
                    sim.nontrivial = True
                continue
        forkenum.merge_sub(sim, res, f"k={k}")
    if bad:
        bad.sort(key=lambda kr: (kr[1]["signature"][2] in ANTICIPATED, kr[0]))
        k, res = bad[0]
        plan["only"] = [k]
        sim.notes["violation_digest"] = res["digest"]  # of the failing point alone: equal in batch and replay
        sim.notes["sub_trace"] = res.get("trace_tail")
        for e in res.get("trace_tail") or []:
            sim.event("  sub", *e)
        sim.fail(res["oracle"], res["signature"], f"[k={k} of {n}] {res['detail']}")


def shrink_candidates(plan):
    """Generic candidates (drop operations) + drop entries of the base tree (children with
    their parent; operations that lose their subject are skipped by their preconditions)."""
    import copy

    from simkit.shrink import generic_candidates

    yield from generic_candidates(plan)
    for key in ("this_ops",):
        ops = plan.get(key)
        if isinstance(ops, list):
            for i in range(len(ops)):
                p2 = copy.deepcopy(plan)
                p2[key] = ops[:i] + ops[i + 1 :]
                yield p2
    tree = plan.get("tree", [])
    for i in range(len(tree) - 1, -1, -1):
        path = tree[i][0]
        rest = [e for e in tree if e[0] != path and not e[0].startswith(path + "/")]
        if len(rest) >= 1:
            p2 = copy.deepcopy(plan)
            p2["tree"] = rest
            yield p2
    if plan.get("unversioned"):
        p2 = copy.deepcopy(plan)
        p2["unversioned"] = []
        yield p2
