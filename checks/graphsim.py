"""graphsim: DAG histories and an independent graph model for the branch-level checks
(C21 pull/push, C22 revision numbers and specifiers, C25 log).

Pure part (no breezy imports): `gen_dag` grows a history with several lines of
development, forks, merges of lines that themselves contain merges, merged parentless
roots and (optionally) ghost right-hand parents on top of `storesim.MHist`; `GModel`
answers graph questions by plain walks over the model: ancestry, left-hand history,
heads, LCAs, relation of two tips, "mainline revision that merged r", which revisions
touch a file.  Nothing here is derived from breezy's graph code.

Real part: `build_dag` commits the model through BranchBuilder into one branch of a
(shared) repository and `point_branch` makes further branches whose tips are model
revisions."""

from . import storesim
from .storesim import gen_spec

NULL = "null:"


# ------------------------------------------------------------------------------------
# generator


def gen_dag(rng, mh, n, tag="g", *, lines=None, max_lines=4, p_merge=0.3, p_fork=0.15, p_root=0.05, p_ghost=0.0, ts0=1_500_000_000, nchanges=None, realistic=False):
    """Append n revisions `tag1..tagn` to `mh`.  `lines` (list of current line tips) is
    updated in place and returned with the specs.  A step either commits on a line,
    forks a new line off an arbitrary existing revision, starts a new parentless line,
    or commits a merge of one or two revisions that are not yet in the line's ancestry
    (other line tips preferred, so that merged lines contain merges themselves).

    realistic=True makes a merge revision also change what the merged side changed
    (modify / add with the same file id / delete), so that its tree delta against the
    left-hand parent contains the merged changes as a real merge would."""
    if lines is None:
        lines = []
    specs = []
    start = len([r for r in mh.revs if r.startswith(tag)])
    for i in range(start + 1, start + n + 1):
        rid = f"{tag}{i}"
        ts = ts0 + len(mh.revs) * 10
        r = rng.random()
        existing = sorted(mh.revs, key=_natkey)
        if not lines or (len(lines) < max_lines and r < p_root):
            parents = []
            line = None
        elif len(lines) < max_lines and r < p_root + p_fork:
            parents = [rng.choice(existing)]
            line = None
        else:
            line = rng.randrange(len(lines))
            parents = [lines[line]]
            if rng.random() < p_merge:
                anc = mh.ancestry(parents[0])
                cand = [t for t in lines if t not in anc]
                if rng.random() < 0.25 or not cand:
                    cand = [x for x in existing if x not in anc]
                if cand:
                    m = rng.choice(cand)
                    parents.append(m)
                    if rng.random() < 0.12:
                        anc2 = anc | mh.ancestry(m)
                        cand2 = [x for x in existing if x not in anc2]
                        if cand2:
                            parents.append(rng.choice(cand2))
            if p_ghost and rng.random() < p_ghost:
                parents.append(f"ghost-{rid}")
        if realistic and len(parents) > 1:
            spec = _realistic_merge(rng, mh, rid, parents, ts)
        else:
            spec = gen_spec(rng, mh, rid, parents, ts, nchanges)
        specs.append(spec)
        if line is None:
            lines.append(rid)
        else:
            lines[line] = rid
    return specs, lines


def gen_nested_prefix(rng, mh, tag="g", *, depth=2, ts0=1_500_000_000, nchanges=None, realistic=False):
    """A history prefix with lines nested `depth` deep below the mainline: a mainline, a
    line A branched from it, a line B branched from a revision of A (a NON-mainline
    revision), optionally a line C branched from B; C is merged into B, B into A, A into
    the mainline (merges of merges).  Revisions are named `tag1..`; returns (specs, lines)
    with lines[0] = the mainline tip, so that gen_dag(..., lines=lines) can continue."""
    specs = []
    count = [len([r for r in mh.revs if r.startswith(tag)])]

    def commit(parents):
        count[0] += 1
        rid = f"{tag}{count[0]}"
        ts = ts0 + len(mh.revs) * 10
        if realistic and len(parents) > 1:
            spec = _realistic_merge(rng, mh, rid, parents, ts)
        else:
            spec = gen_spec(rng, mh, rid, parents, ts, nchanges)
        specs.append(spec)
        return rid

    def chain(base, n):
        out = []
        for _ in range(n):
            base = commit([base])
            out.append(base)
        return out

    main = [commit([])] + []
    main += chain(main[-1], rng.randint(0, 2))
    tips = []  # per nesting level: the revisions of that line
    base = rng.choice(main)
    for _level in range(depth):
        line = chain(base, rng.randint(1, 3))
        tips.append(line)
        base = rng.choice(line)
    main += chain(main[-1], rng.randint(0, 1))
    # merge inside out
    inner = tips[-1][-1]
    for level in range(depth - 2, -1, -1):
        line = tips[level]
        line += chain(line[-1], rng.randint(0, 1))
        line.append(commit([line[-1], inner]))
        line += chain(line[-1], rng.randint(0, 1))
        inner = line[-1]
    main.append(commit([main[-1], inner]))
    return specs, [main[-1]]


def _natkey(rid):
    head = rid.rstrip("0123456789")
    tail = rid[len(head) :]
    return (head, int(tail) if tail else -1)


def _realistic_merge(rng, mh, rid, parents, ts):
    """A merge whose tree delta against the left-hand parent carries the other side's
    changes: files (by file id) that revisions new to this line changed are modified
    here, files they added (and that still exist on the merged tip) are added with the
    same file id when the path is free, files they deleted are deleted."""
    base = mh.tree(parents[0])
    tree = dict(base)
    byid = {v[0]: p for p, v in tree.items()}
    actions = []
    have = mh.ancestry(parents[0])
    for other in parents[1:]:
        if other not in mh.revs:
            continue
        otree = mh.tree(other)
        oid = {v[0]: p for p, v in otree.items()}
        new = sorted(mh.ancestry(other) - have, key=_natkey)
        touched = set()
        for x in new:
            touched |= touched_ids(mh, x)
        for fid in sorted(touched):
            if fid == storesim.ROOT_ID:
                continue
            if fid in byid and fid in oid:
                p = byid[fid]
                if tree[p][1] == "file" and otree[oid[fid]][1] == "file":
                    # either the other side's text verbatim (the commit may then carry the
                    # other side's file version over without a new per-file node) or new text
                    c = otree[oid[fid]][2] if rng.random() < 0.5 else f"{rid}:merged {fid}\n"
                    if c == tree[p][2]:
                        continue
                    actions.append(["modify", p, c])
                    tree[p] = [fid, "file", c]
            elif fid in oid and fid not in byid:
                p = oid[fid]
                parent = p.rsplit("/", 1)[0] if "/" in p else ""
                if p in tree or parent not in tree or tree[parent][1] != "directory" or otree[p][1] != "file":
                    continue
                if tree[parent][0] != otree[parent][0]:
                    continue
                actions.append(["add", p, fid, "file", otree[p][2]])
                tree[p] = [fid, "file", otree[p][2]]
                byid[fid] = p
            elif fid in byid and fid not in oid:
                p = byid[fid]
                if tree[p][1] == "file":
                    actions.append(["unversion", p])
                    tree.pop(p)
                    byid.pop(fid)
        have = have | mh.ancestry(other)
    if not actions:
        mh.nfid += 1
        actions.append(["add", f"m{mh.nfid}", f"{rid}-f{mh.nfid}", "file", f"{rid}:merge\n"])
    spec = {"id": rid, "parents": list(parents), "actions": actions, "ts": ts, "msg": f"merge {rid}"}
    mh.add(spec)
    return spec


def touched_ids(mh, rid):
    """File ids whose entry (existence, path, kind, content) differs between `rid` and
    its left-hand parent in the model."""
    cur = {v[0]: (p, v[1], v[2]) for p, v in mh.tree(rid).items()}
    ps = [p for p in mh.revs[rid]["parents"][:1] if p in mh.revs]
    old = {v[0]: (p, v[1], v[2]) for p, v in (mh.tree(ps[0]).items() if ps else [])}
    return {fid for fid in set(cur) | set(old) if cur.get(fid) != old.get(fid)}


def perfile_nodes(mh, tip, fid):
    """Revisions of tip's ancestry in which the COMMIT RULE records a new per-file version
    of `fid` (used only to decide where per-file history and tree deltas are comparable,
    never as an expected result).  Rule: the candidate versions are those the parents
    carry; versions that are per-file ancestors of other candidates drop out; with one
    head left whose entry (path, kind, text) equals the new entry the head's version is
    carried over, otherwise (changed against that head, or several heads) the revision
    records a new version whose per-file parents are the heads."""
    order = []
    seen = set()

    def visit(r):
        stack = [(r, False)]
        while stack:
            x, done = stack.pop()
            if done:
                order.append(x)
                continue
            if x in seen or x not in mh.revs:
                continue
            seen.add(x)
            stack.append((x, True))
            for par in mh.revs[x]["parents"]:
                stack.append((par, False))

    visit(tip)

    def entry(r):
        for path, v in mh.tree(r).items():
            if v[0] == fid:
                return (path, v[1], v[2])
        return None

    ver = {}  # revision -> version (revision id) of fid in its tree
    pf_parents = {}  # version -> set of versions
    pf_anc = {}

    def ancestors(v):
        got = pf_anc.get(v)
        if got is None:
            got = set()
            todo = list(pf_parents.get(v, ()))
            while todo:
                a = todo.pop()
                if a not in got:
                    got.add(a)
                    todo.extend(pf_parents.get(a, ()))
            pf_anc[v] = got
        return got

    nodes = set()
    for x in order:
        e = entry(x)
        if e is None:
            continue
        cands = []
        for par in mh.revs[x]["parents"]:
            if par in ver and ver[par] not in cands:
                cands.append(ver[par])
        heads = [c for c in cands if not any(o != c and c in ancestors(o) for o in cands)]
        if len(heads) == 1 and entry(heads[0]) == e:
            ver[x] = heads[0]
        else:
            ver[x] = x
            pf_parents[x] = set(heads)
            nodes.add(x)
    return nodes


# ------------------------------------------------------------------------------------
# graph model


class GModel:
    """Graph questions answered by direct walks over MHist (ghost parents = parents that
    are not present; they have no ancestry of their own)."""

    def __init__(self, mh):
        self.mh = mh
        self._anc = {}

    def present(self, r):
        return r in self.mh.revs

    def parents(self, r):
        return list(self.mh.revs[r]["parents"])

    def lh_parent(self, r):
        ps = self.mh.revs[r]["parents"]
        return ps[0] if ps else None

    def ancestry(self, r):
        if r is None or r == NULL or r not in self.mh.revs:
            return frozenset()
        got = self._anc.get(r)
        if got is None:
            got = frozenset(self.mh.ancestry(r))
            self._anc[r] = got
        return got

    def lefthand(self, r):
        """Left-hand history, oldest first (stops at a parentless revision or a ghost)."""
        out = []
        while r is not None and r != NULL and r in self.mh.revs:
            out.append(r)
            r = self.lh_parent(r)
        out.reverse()
        return out

    def revno(self, r):
        return len(self.lefthand(r))

    def is_ancestor(self, a, b):
        """a is in the ancestry of b (null: is an ancestor of everything)."""
        if a is None or a == NULL:
            return True
        return a in self.ancestry(b)

    def heads(self, revs):
        revs = [r for r in dict.fromkeys(revs)]
        out = []
        for r in revs:
            if not any(o != r and r in self.ancestry(o) for o in revs):
                out.append(r)
        return set(out)

    def relation(self, a, b):
        """'equal' | 'a_ancestor' (a strictly in ancestry of b) | 'b_ancestor' | 'diverged'"""
        if a == b:
            return "equal"
        if self.is_ancestor(a, b):
            return "a_ancestor"
        if self.is_ancestor(b, a):
            return "b_ancestor"
        return "diverged"

    def lcas(self, a, b):
        common = self.ancestry(a) & self.ancestry(b)
        return {c for c in common if not any(o != c and c in self.ancestry(o) for o in common)}

    def lcas_of(self, revs):
        revs = list(revs)
        common = None
        for r in revs:
            common = set(self.ancestry(r)) if common is None else common & self.ancestry(r)
        common = common or set()
        return {c for c in common if not any(o != c and c in self.ancestry(o) for o in common)}

    def iterated_unique_lca(self, a, b):
        """The documented reduction 'LCAs, then the LCAs of those, ... until one is left':
        a revision, or None when the reduction ends at the graph origin (the remaining
        LCAs share no ancestor)."""
        cur = self.lcas(a, b)
        while len(cur) > 1:
            cur = self.lcas_of(cur)
        return next(iter(cur)) if cur else None

    def merger(self, r, tip):
        """The revision of tip's left-hand history that brought r into it: the oldest
        left-hand revision whose ancestry contains r (r itself when it is on the
        left-hand history).  None if r is not in tip's ancestry."""
        if r not in self.ancestry(tip):
            return None
        for m in self.lefthand(tip):
            if r in self.ancestry(m):
                return m
        return None

    def touched(self, r):
        return touched_ids(self.mh, r)


# ------------------------------------------------------------------------------------
# real world


class GMHist(storesim.MHist):
    """MHist that also takes revisions whose LEFT-HAND parent is a ghost: their tree starts
    from the empty tree (that is how the real revision is built, too)."""

    def tree(self, rid):
        return self.revs[rid]["tree"] if rid in self.revs else {}


def replay_model(specs):
    mh = GMHist()
    for s in specs:
        mh.add(s)
    return mh


def ghost_mainline(mh, rid):
    """The left-hand chain of rid ends in a ghost (revision numbers along it count from the
    ghost's child, and graph walks down the mainline raise when they reach the ghost)."""
    while rid in mh.revs:
        ps = mh.revs[rid]["parents"]
        if not ps:
            return False
        rid = ps[0]
    return rid is not None and rid != NULL


def build_dag(branch, specs):
    """Commit all model revisions through one branch (its tip follows the last spec's
    left-hand line; callers set tips afterwards with point_branch).  Revisions whose
    left-hand parent is a ghost are committed on the emptied branch with
    allow_leftmost_as_ghost."""
    ids = {s["id"] for s in specs}
    if not any(s["parents"] and s["parents"][0] not in ids for s in specs):
        return storesim.commit_specs(branch, specs)
    from breezy import branchbuilder

    bb = branchbuilder.BranchBuilder(branch=branch)
    run = []

    def flush():
        if run:
            storesim.commit_specs(branch, list(run), builder=bb)
            del run[:]

    for spec in specs:
        if spec["parents"] and spec["parents"][0] not in ids:
            flush()
            with branch.lock_write():
                branch.set_last_revision_info(0, b"null:")
            bb.build_snapshot(
                [p.encode() for p in spec["parents"]],
                storesim.to_actions(spec),
                message=spec["msg"],
                timestamp=spec["ts"],
                timezone=0,
                committer=storesim.COMMITTER,
                revision_id=spec["id"].encode(),
                allow_leftmost_as_ghost=True,
            )
        else:
            run.append(spec)
    flush()
    return bb


def point_branch(branch, gm, tip):
    """Set a branch's tip to a model revision already present in its repository."""
    with branch.lock_write():
        if tip is None or tip == NULL:
            branch.set_last_revision_info(0, b"null:")
        else:
            branch.set_last_revision_info(gm.revno(tip), tip.encode())


# ------------------------------------------------------------------------------------
# shrinking of plans that carry a DAG in plan["specs"] and tips in plan[<tip keys>]


def dag_shrinks(plan, tips=(), tipmaps=()):
    """Smaller variants of plan["specs"]: move a tip to its left-hand parent, drop a
    revision nobody needs (no child, no tip), drop a right-hand parent, drop an action.
    `tips` are plan keys holding one revision id, `tipmaps` plan keys holding
    {name: revision id}.  Executors must tolerate references to revisions that no longer
    exist (ops that name them are skipped)."""
    import copy

    specs = plan["specs"]
    byid = {s["id"]: s for s in specs}

    def tip_values(p):
        vals = [p.get(k) for k in tips]
        for k in tipmaps:
            vals.extend((p.get(k) or {}).values())
        return {v for v in vals if v}

    # tips one step back
    for k in tips:
        t = plan.get(k)
        if t in byid and byid[t]["parents"] and byid[t]["parents"][0] in byid:
            p = copy.deepcopy(plan)
            p[k] = byid[t]["parents"][0]
            yield p
    for k in tipmaps:
        for name, t in sorted((plan.get(k) or {}).items()):
            if t in byid and byid[t]["parents"] and byid[t]["parents"][0] in byid:
                p = copy.deepcopy(plan)
                p[k][name] = byid[t]["parents"][0]
                yield p
    used = tip_values(plan)
    children = {}
    for s in specs:
        for par in s["parents"]:
            children.setdefault(par, []).append(s["id"])
    # drop all unneeded leaves at once, then one by one (newest first)
    leaves = [s["id"] for s in specs if s["id"] not in children and s["id"] not in used]
    if len(leaves) > 1:
        p = copy.deepcopy(plan)
        p["specs"] = [s for s in p["specs"] if s["id"] not in leaves]
        yield p
    for rid in reversed(leaves):
        p = copy.deepcopy(plan)
        p["specs"] = [s for s in p["specs"] if s["id"] != rid]
        yield p
    # drop right-hand parents
    for i, s in enumerate(specs):
        for j in range(len(s["parents"]) - 1, 0, -1):
            p = copy.deepcopy(plan)
            p["specs"][i]["parents"] = s["parents"][:j] + s["parents"][j + 1 :]
            yield p


# ------------------------------------------------------------------------------------
# laws of dotted revision numbers (shared by C22 and C25)


def revno_law_problems(gm, tip, M, old=None):
    """Check a revision-id -> dotted-revno map against the laws the property states;
    returns [(law, detail), ...] (empty = all laws hold).  `old`: the map before a
    left-hand extension (its numbers must be unchanged)."""
    probs = []
    anc = gm.ancestry(tip)
    lh = gm.lefthand(tip)
    if set(M) != set(anc):
        probs.append(("total", f"map keys differ from the tip's ancestry: extra={sorted(set(M) - set(anc))} missing={sorted(set(anc) - set(M))}"))
    inv = {}
    for r, v in M.items():
        if v in inv:
            probs.append(("injective", f"{r} and {inv[v]} are both numbered {v}"))
        inv[v] = r
    pos = {r: i + 1 for i, r in enumerate(lh)}
    for r, v in M.items():
        if len(v) not in (1, 3):
            probs.append(("shape", f"{r} numbered {v}"))
            continue
        if (len(v) == 1) != (r in pos):
            probs.append(("mainline", f"{r} numbered {v} but left-hand history is {lh}"))
            continue
        if len(v) == 1 and v[0] != pos[r]:
            probs.append(("mainline", f"{r} is left-hand revision {pos[r]} but numbered {v}"))
        if len(v) == 3:
            x, y, z = v
            p = gm.lh_parent(r) if r in gm.mh.revs else None
            if p is not None and p not in gm.mh.revs:
                continue  # ghost left-hand parent: not generated
            if z > 1:
                if p is None or M.get(p) != (x, y, z - 1):
                    probs.append(("line", f"{r} numbered {v} but its left-hand parent {p} is numbered {M.get(p)}"))
            else:
                want = M[p][0] if (p is not None and p in M) else 0
                if x != want:
                    probs.append(("base", f"{r} numbered {v} but its left-hand parent {p} is numbered {M.get(p) if p else None}"))
    if old is not None:
        for r, v in old.items():
            if M.get(r) != v:
                probs.append(("stable", f"{r} was numbered {v} before the left-hand extension and is {M.get(r)} after it"))
    return probs
