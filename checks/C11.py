"""C11 — Adding files versions exactly the intended paths.

One run = one working tree (2a/dirstate or git/index): a short treesim history (so that part
of the layout is versioned already, some of it committed, renamed or removed with --keep),
then seeded *litter* created directly on disk - files and directories with names that match
ignore rules, an ignore file (`.bzrignore` / `.gitignore`) drawn from a small pattern grammar
(`name`, `*.ext`, `dir/name`, `dir`, `!exception`), real nested trees (`sub/.bzr`, `sub/.git`
made by breezy), empty directories that are merely named `.bzr` / `.git`, recorded conflicts
with their helper files (`x.THIS/.BASE/.OTHER`), `x.moved`, `x.~1~` backups, symlinks to
directories - and 1-3 `tree.smart_add(paths, recurse=True|False)` calls with seeded path sets
(the root, directories, ignored files, files inside ignored directories, versioned paths,
nested tree roots, paths inside nested trees, helper files, a missing path).

After every call the set of versioned paths must be the model's: named paths versioned even if
ignored, with their unversioned parents; when recursing every unversioned descendant that is
not ignored, not inside an ignored directory, not a nested tree (or inside one) and not a helper
file of a recorded conflict; nothing else.  Entries versioned before keep id and kind; the disk
is never touched; the result survives reopening the tree."""

import hashlib
import json
import os
import posixpath
import stat

from simkit import world

from . import treesim as T

PROPERTY = "C11"
LEVEL = "exploration"
RULE = (
    "one case = one seeded run: tree flavour (bzr dirstate | git index), a model-generated history of 2-8 operations, 3-10 litter "
    "items (ignored / plain names, ignore file of 0-4 patterns from the 5-form grammar, nested trees, recorded conflicts with helper "
    "files, symlinks to directories) and 1-3 smart_add calls (1-3 named paths, recurse on/off); non-trivial = at least one call "
    "versioned something AND at least one unversioned path was left out by the model for a reason (ignored, inside an ignored "
    "directory, nested tree, conflict helper) or a named ignored path was versioned; distinct = distinct event-log digests of such runs"
)
COMPONENTS = {
    "real": [
        "breezy.bzr.inventorytree (_SmartAddHelper, InventoryTree.smart_add), breezy.mutabletree, breezy.add (AddAction)",
        "breezy.git.workingtree.GitWorkingTree.smart_add, dulwich index + IgnoreFilterManager",
        "breezy.ignores, breezy.globbing (ExceptionGlobster), WorkingTree.is_ignored of both flavours, default user ignore file",
        "breezy.controldir.ControlDirFormat.find_format on real nested 2a / git trees, conflict lists of both tree flavours",
        "a real directory on /dev/shm; bzr control files through the storage seam (sim+file://)",
    ],
    "simulated": ["the user: history, litter, ignore file and path selection (seeded)", "process restart (drop the object, WorkingTree.open)"],
    "stub": ["UI (SilentUIFactory)", "BRZ_HOME (scratch; the default user ignore list is created there by breezy)"],
}
ASSUMPTIONS = [
    "no schedule and no fault: smart_add is a single-process, in-memory computation followed by one inventory/index write; the run is a model-based exploration of layouts x ignore rules x path selections",
    "the model's ignore matcher knows only the grammar it generates: `name` (basename anywhere), `*.ext`, `dir/name` (whole path from the root), `dir`, `!exception`, plus the default user rule `*~`; bzr: an exception wins over every plain rule, git (.gitignore through dulwich): the last matching rule wins; generated names match no other default user rule",
    "conflict helper = a file named by associated_filenames() of a conflict the tree records (text: .THIS/.BASE/.OTHER, bzr contents conflict: .BASE/.OTHER; git reads every conflicted index entry back as a text conflict), which is breezy's own definition; a file that merely has such a name without a recorded conflict is an ordinary file; `x.moved` of a recorded duplicate-entry conflict: no position (breezy lists no helper for it); `x.~1~` backups are ordinary files that the default rule `*~` ignores",
    "nested tree = a directory holding a control directory that breezy itself created (2a or git): nothing at or below it is versioned by recursion, naming it versions the directory alone, naming a path inside it versions that path and its parents (property: named paths are versioned); directories merely NAMED .bzr/.git that are no control directories (empty): no position on anything at or below their parent directory (breezy's git prober takes a directory with an empty .git for a repository, the bzr prober wants .bzr/branch-format; WorkingTree.is_control_filename is documented to cover only the tree's own control directory)",
    "no position on the descendants of a NAMED directory that is itself ignored or inside an ignored directory (bzr walks it: 'user selection overrides ignores'; git's ignore rules cover everything below an ignored directory; 'not inside an ignored directory' can be read both ways); git: the kind of directories is not compared (they are implied by their files; a directory holding a nested git repository reads as tree-reference)",
    "no position on unversioned descendants of a VERSIONED directory whose name matches an ignore rule (ignore rules do not apply to versioned entries; whether such a directory is 'an ignored directory' is not said)",
    "explicitly naming a file inside the tree's own control directory is not generated (bzr refuses with ForbiddenControlFileError, git smart_add puts .git/config into the index; the property text only says named paths are versioned) - reported as a side observation",
    "named paths never go through a symlinked directory (smart_add resolves symlinks in the directory part first); a missing named path is only generated as the single path of a call (git saves earlier named paths before it fails) and must be refused",
    "histories use the treesim operations that keep every versioned entry on disk with its recorded kind (write, mkdir, symlink, add, smart_add, commit, rename, move, remove); treesim.GUARDS states are not generated; a run whose tree disagrees with the treesim model before the first call is abandoned (probe prestate_mismatch)",
    "the model of smart_add generalises treesim.MTree._op_smart_add (one path, recurse, default rules) to path sets, recurse on/off, ignore files, nested trees and conflict helpers; it lives in this file so that C09/C10 keep their model unchanged",
    "histories contain no commit that selects more than one path (treesim.MTree1): the bytes of the pack such a commit writes - hence the pack's md5 name and the order of every later index lookup - depend on the iteration order of a Rust HashSet in the dirstate iter_changes code, whose hash keys are drawn from the getrandom stream after process-history-dependent lazy initialisations, so one (seed, plan) gave different event logs in different worker processes; pack/index names are additionally masked in the event log (treesim.mask_content_names)",
    "runs execute in-process (ISOLATION=thread): each run builds tree, model and Sim from scratch",
]
STEP_CAP = 200000
ISOLATION = "thread"

FILE, DIR, LINK = T.FILE, T.DIR, T.LINK
CONTROL_NAMES = (".bzr", ".git")
USER_DEFAULT_IGNORED_SUFFIX = "~"

# --------------------------------------------------------------------------------------
# model
# --------------------------------------------------------------------------------------


def _match(pat, path):
    """One rule of the grammar against a tree-relative path."""
    base = posixpath.basename(path)
    if "/" in pat:
        return path == pat
    if pat.startswith("*."):
        return base.endswith(pat[1:]) and len(base) > len(pat) - 1
    return base == pat


def is_ignored(flavour, patterns, path):
    if posixpath.basename(path).endswith(USER_DEFAULT_IGNORED_SUFFIX):
        return True
    if flavour == "bzr":
        if any(p.startswith("!") and _match(p[1:], path) for p in patterns):
            return False
        return any(not p.startswith("!") and _match(p, path) for p in patterns)
    verdict = False
    for p in patterns:
        if p.startswith("!"):
            if _match(p[1:], path):
                verdict = False
        elif _match(p, path):
            verdict = True
    return verdict


class Env:
    """What the model knows besides the MTree: ignore rules, nested trees, conflicts."""

    def __init__(self, flavour):
        self.flavour = flavour
        self.patterns = []
        self.nested = set()  # directories that are roots of real nested trees
        self.fake_control = set()  # paths merely named .bzr / .git
        self.helpers = set()  # associated filenames of recorded conflicts
        self.loose = set()  # paths the oracle takes no position on

    def ignored(self, path):
        return is_ignored(self.flavour, self.patterns, path)


def kids_of(m):
    kids = {}
    for q in m.disk:
        kids.setdefault(T.parent(q), []).append(q)
    return kids


def is_opaque(path):
    """A control directory (real or fake) anywhere in the tree: never listed by the model."""
    return posixpath.basename(path) in CONTROL_NAMES


def model_smart_add(m, env, paths, recurse):
    """-> ("ok", [newly versioned paths], reasons) | ("error", None, None).  Does not mutate m.
    reasons: why unversioned paths were left out (for the non-triviality rule)."""
    inv = set(m.inv) if m.flavour == "bzr" else None
    index = set(m.inv) if m.flavour == "git" else None
    kids = kids_of(m)
    new = []
    reasons = set()

    def dkind(p):
        return m.dkind(p)

    for p in paths:
        if p != "" and p not in m.disk:
            return "error", None, None
    if m.flavour == "bzr":

        def version(q):
            if q not in inv:
                inv.add(q)
                new.append(q)

        user_dirs = []
        for p in paths:
            if p not in inv:
                for q in [a for a in reversed(T.ancestors(p)) if a] + [p]:
                    version(q)
                if env.ignored(p) or any(env.ignored(a) for a in T.ancestors(p) if a):
                    reasons.add("named_ignored")
            if dkind(p) == DIR:
                user_dirs.append(p)
        if not recurse:
            return "ok", new, reasons
        work = []
        prev = None
        for d in sorted(set(user_dirs)):
            if prev is None or not (T.inside(prev, d) or T.inside(d, prev)):
                work.append(d)
            prev = d
        i = 0
        while i < len(work):
            d = work[i]
            i += 1
            if d in env.helpers:
                reasons.add("helper")
                continue
            sub_tree = d != "" and dkind(d) == DIR and d in env.nested
            if d not in inv:
                if sub_tree:
                    reasons.add("nested")
                    continue
                version(d)
            if dkind(d) == DIR and not sub_tree:
                for c in sorted(kids.get(d, [])):
                    if c in inv:
                        work.append(c)
                    elif env.ignored(c):
                        reasons.add("ignored_dir" if dkind(c) == DIR and kids.get(c) else "ignored")
                    else:
                        work.append(c)
            elif sub_tree:
                reasons.add("nested")
        return "ok", new, reasons
    # git
    user_dirs = []
    for p in paths:
        k = dkind(p)
        if k in (FILE, LINK):
            if p not in index:
                index.add(p)
                new.append(p)
                if env.ignored(p) or any(env.ignored(a) for a in T.ancestors(p) if a):
                    reasons.add("named_ignored")
        elif k == DIR and recurse:
            user_dirs.append(p)
    i = 0
    while i < len(user_dirs):
        d = user_dirs[i]
        i += 1
        if d != "" and d in env.nested:
            reasons.add("nested")
            continue
        for c in sorted(kids.get(d, [])):
            if env.ignored(c):
                reasons.add("ignored_dir" if dkind(c) == DIR and kids.get(c) else "ignored")
                continue
            if dkind(c) == DIR:
                user_dirs.append(c)
            elif c in index:
                continue
            elif c in env.helpers:
                reasons.add("helper")
            else:
                index.add(c)
                new.append(c)
    return "ok", new, reasons


def loose_paths(m, env):
    """Paths the oracle takes no position on (see ASSUMPTIONS)."""
    out = set(env.loose)
    for q in m.disk:
        if is_opaque(q):
            out.add(q)
    # unversioned descendants of a versioned directory whose name matches an ignore rule
    if m.flavour == "bzr":
        vdirs = [q for q, e in m.inv.items() if q and m.dkind(q) == DIR and env.ignored(q)]
    else:
        vdirs = [d for d in {a for q in m.inv for a in T.ancestors(q) if a} if env.ignored(d)]
    for d in vdirs:
        out.update(q for q in m.disk if T.strictly_inside(d, q))
    return out


def is_loose(loose, p):
    return any(T.inside(l, p) for l in loose)


def regular(m):
    """Every versioned entry is on disk with its recorded kind."""
    if m.flavour == "bzr":
        return all(m.dkind(q) == e[1] for q, e in m.inv.items())
    return all(m.dkind(q) == e[1] for q, e in m.inv.items())


# --------------------------------------------------------------------------------------
# generation
# --------------------------------------------------------------------------------------

DIRS = ["d", "build", "sub", "d/build", "d/e", "d-x", "d2", "sub2", "d/e.x", "build.old"]  # incl. look-alikes: one path a string prefix of the other
DIR_BASENAMES = {"d", "build", "sub", "e", "d-x", "d2", "sub2", "e.x", "build.old"}
FILES = ["a", "b.log", "c.tmp", "keep.log", "notes"]
PATTERN_POOL = ["a", "build", "notes", "b.log", "*.log", "*.tmp", "d/a", "d/build", "build/a", "d/b.log", "d", "sub", "!keep.log", "!d/b.log", "!*.tmp", "!d/keep.log", "!build"]
HISTORY_WEIGHTS = {"write": 5, "mkdir": 3, "mkdir_disk": 2, "symlink": 1, "add": 3, "smart_add": 1, "commit": 2, "rename": 2, "move": 1, "remove": 2}


def make_names(rng):
    dirs = rng.sample(DIRS, rng.randint(1, 3))
    if any(x.startswith("d/") for x in dirs):
        if "d" not in dirs:
            dirs.append("d")
    names = set(dirs)
    for _ in range(rng.randint(3, 7)):
        d = rng.choice([""] + dirs)
        f = rng.choice(FILES)
        names.add(posixpath.join(d, f) if d else f)
    return sorted(names)


def gen_history(rng, model, names):
    g = T.Gen(rng, model, names)
    ops = []
    w = {k: rng.choice([0, 1, 1, 2]) * v for k, v in HISTORY_WEIGHTS.items()}
    w["write"] = max(w["write"], 3)
    pool = [k for k, v in sorted(w.items()) for _ in range(int(v))]
    want = rng.randint(2, 8)
    tries = 0
    while len(ops) < want and tries < want * 15:
        tries += 1
        kind = rng.choice(pool)
        if kind == "remove":
            p = g.pick([p for p in model.versioned_paths() if p])
            op = p and {"o": "remove", "p": p, "keep": True, "force": False}
        elif kind == "write":
            # only new files: a rewrite of a versioned file is irrelevant here
            p = g.pick([p for p in names if model.can_create(p) and posixpath.basename(p) not in DIR_BASENAMES])
            op = p and {"o": "write", "p": p, "n": g.fresh()}
        elif kind in ("mkdir", "mkdir_disk"):
            p = g.pick([p for p in names if model.can_create(p) and posixpath.basename(p) in DIR_BASENAMES])
            op = p and ({"o": "mkdir", "p": p, "id": "d%d" % g.fresh()} if kind == "mkdir" else {"o": "mkdir_disk", "p": p})
        else:
            op = g.propose(kind)
        if not op or model.classify(op) != "ok":
            continue
        m2 = model.copy()
        m2.apply(op)
        if not regular(m2):
            continue
        model.apply(op)
        ops.append(op)
    return ops, g


def litter_feasible(m, env, it):
    """Can the litter item be created in model state m?"""
    k = it["l"]
    p = it.get("p")
    if k in ("file", "dir", "dirlink", "fake_control"):
        if not m.can_create(p) or is_loose_parent(m, env, p):
            return False
        if k == "dirlink":
            return m.dkind(it["to"]) == DIR and not T.inside(it["to"], p)
        return True
    if k == "nested":
        return m.can_create(p) and not is_loose_parent(m, env, p)
    if k == "conflict":
        if m.dkind(p) != FILE or p not in m.inv:
            return False
        return all(m.can_create(p + s) for s in it["helpers"])
    return k == "ignore"


def is_loose_parent(m, env, p):
    """p would be created inside a nested tree or a control directory."""
    return any(a in env.nested or is_opaque(a) for a in T.ancestors(p) if a)


def litter_apply_model(m, env, it):
    k = it["l"]
    p = it.get("p")
    if k == "file":
        m.disk[p] = (FILE, T.content(it["n"]), False)
    elif k == "dir":
        m.disk[p] = (DIR, None, False)
    elif k == "dirlink":
        m.disk[p] = (LINK, link_text(p, it["to"]), False)
    elif k == "fake_control":
        m.disk[p] = (DIR, None, False)
        env.fake_control.add(p)
        # an empty directory named .git makes its parent a git control directory for breezy's
        # prober, an empty .bzr does not: no position on the whole parent directory
        env.loose.add(T.parent(p))
    elif k == "nested":
        m.disk[p] = (DIR, None, False)
        m.disk[posixpath.join(p, T.CONTROL[it["fmt"]])] = (DIR, None, False)
        for name, n in it.get("files", []):
            m.disk[posixpath.join(p, name)] = (FILE, T.content(n), False)
        env.nested.add(p)
    elif k == "conflict":
        for s in it["helpers"]:
            m.disk[p + s] = (FILE, T.content(it["n"]) + s.encode(), False)
        if it["t"] == "text" or m.flavour == "git":
            # git: every conflicted index entry reads back as a text conflict
            env.helpers.update(p + s for s in (".THIS", ".BASE", ".OTHER"))
        elif it["t"] == "contents":
            env.helpers.update(p + s for s in (".BASE", ".OTHER"))
        else:
            env.loose.add(p + ".moved")
    elif k == "ignore":
        env.patterns = list(it["patterns"])
        name = ".bzrignore" if m.flavour == "bzr" else ".gitignore"
        m.disk[name] = (FILE, ignore_bytes(it["patterns"], it["n"]), False)


def ignore_bytes(patterns, n):
    return ("".join(p + "\n" for p in patterns) + "# %s\n" % ("#" * n)).encode()


def link_text(p, to):
    return posixpath.relpath(to, T.parent(p) or ".")


def gen_litter(rng, m, env, g):
    items = []

    def push(it):
        if litter_feasible(m, env, it):
            litter_apply_model(m, env, it)
            items.append(it)
            return True
        return False

    dirs_now = [""] + sorted(q for q in m.disk if m.dkind(q) == DIR and not is_loose_parent(m, env, q + "/x"))
    # an ignore file in most runs (it must not exist yet: the history never writes it)
    name = ".bzrignore" if m.flavour == "bzr" else ".gitignore"
    if rng.random() < 0.85 and name not in m.disk:
        pats = rng.sample(PATTERN_POOL, rng.randint(1, 4))
        # bias: rules that match something present or about to be created
        push({"l": "ignore", "patterns": pats, "n": g.fresh()})
    for _ in range(rng.randint(3, 10)):
        r = rng.random()
        dirs_now = [""] + sorted(q for q in m.disk if m.dkind(q) == DIR and not is_opaque(q) and not is_loose_parent(m, env, q + "/x") and q not in env.nested)
        d = rng.choice(dirs_now)
        if r < 0.4:
            f = rng.choice(FILES + ["x.~1~", "a.moved", "a.THIS"])
            push({"l": "file", "p": posixpath.join(d, f) if d else f, "n": g.fresh()})
        elif r < 0.6:
            f = rng.choice(["build", "d", "sub", "e", "tmp", "d-x", "d2", "sub2", "e.x", "build.old"])
            push({"l": "dir", "p": posixpath.join(d, f) if d else f})
        elif r < 0.7:
            targets = [q for q in dirs_now if q]
            if targets:
                push({"l": "dirlink", "p": posixpath.join(d, "ln") if d else "ln", "to": rng.choice(targets)})
        elif r < 0.82:
            f = rng.choice(["sub", "nest", "build"])
            files = [[rng.choice(["a", "b.log", "inner"]), g.fresh()] for _ in range(rng.randint(0, 2))]
            files = [x for i, x in enumerate(files) if x[0] not in [y[0] for y in files[:i]]]
            push({"l": "nested", "p": posixpath.join(d, f) if d else f, "fmt": rng.choice(["bzr", "git"]), "files": files})
        elif r < 0.88:
            if d:
                push({"l": "fake_control", "p": posixpath.join(d, rng.choice(CONTROL_NAMES))})
        else:
            vfiles = sorted(q for q in m.inv if m.dkind(q) == FILE and not any((q + s) in m.disk for s in (".THIS", ".BASE", ".OTHER", ".moved")))
            if vfiles:
                t = rng.choice(["text", "text", "contents"] + (["dup"] if m.flavour == "bzr" else []))
                helpers = {"text": [".THIS", ".BASE", ".OTHER"], "contents": [".BASE", ".OTHER"], "dup": [".moved"]}[t]
                if t != "dup" and rng.random() < 0.3:
                    helpers = helpers[:-1]
                if t == "contents" and rng.random() < 0.4:
                    helpers = helpers + [".THIS"]  # an ordinary file: contents conflicts have no .THIS helper
                push({"l": "conflict", "p": rng.choice(vfiles), "t": t, "helpers": helpers, "n": g.fresh()})
    return items


def gen_calls(rng, m, env, g):
    calls = []
    m = m.copy()
    for _ in range(rng.randint(1, 3)):
        unv = sorted(q for q in m.disk if not m.is_versioned(q) and not is_opaque(q) and not any(is_opaque(a) for a in T.ancestors(q) if a))
        # never through a symlinked directory
        unv = [q for q in unv if not any(m.dkind(a) == LINK for a in T.ancestors(q) if a)]
        ign = [q for q in unv if env.ignored(q)]
        in_ign = [q for q in unv if any(env.ignored(a) for a in T.ancestors(q) if a)]
        in_nested = [q for q in unv if any(a in env.nested for a in T.ancestors(q) if a)]
        helpers = [q for q in unv if q in env.helpers]
        dirs = sorted(q for q in m.disk if m.dkind(q) == DIR and not is_opaque(q) and not any(is_opaque(a) or m.dkind(a) == LINK for a in T.ancestors(q) if a))
        ver = sorted(q for q in m.versioned_paths() if q and q in m.disk)
        r = rng.random()
        if r < 0.06:
            missing = rng.choice(["zz", "d/zz", "build/zz/y"])
            if missing not in m.disk:
                calls.append({"paths": [missing], "recurse": rng.random() < 0.7, "n": g.fresh(), "bad": 1})
                continue
        paths = []
        # several named directories, one path a proper string prefix of the other without
        # being its parent (d + d-x, sub + sub2, d/e + d/e.x): both must be walked
        pairs = [(a, b) for a in dirs for b in dirs if a and b != a and b.startswith(a) and not T.inside(a, b)]
        if pairs and r > 0.6:
            a, b = rng.choice(pairs)
            paths = [a, b] if rng.random() < 0.5 else [b, a]
            if rng.random() < 0.3:
                paths.append(rng.choice(dirs))
            call = {"paths": list(dict.fromkeys(paths)), "recurse": True, "n": g.fresh()}
            st, new, _r = model_smart_add(m, env, call["paths"], True)
            if st == "ok":
                for q in new:
                    m.inv[q] = (sa_id(call["n"], q) if m.flavour == "bzr" else None, m.dkind(q))
            calls.append(call)
            continue
        if r < 0.45:
            paths.append("")
        for _ in range(rng.randint(0 if paths else 1, 3)):
            pools = [unv, unv, ign, in_ign, in_nested, helpers, dirs, dirs, ver, sorted(env.nested)]
            pool = rng.choice([p for p in pools if p] or [[""]])
            q = rng.choice(pool)
            if q not in paths:
                paths.append(q)
        call = {"paths": paths, "recurse": rng.random() < 0.75, "n": g.fresh()}
        st, new, _r = model_smart_add(m, env, paths, call["recurse"])
        if st == "ok":
            for q in new:
                m.inv[q] = (sa_id(call["n"], q) if m.flavour == "bzr" else None, m.dkind(q))
        calls.append(call)
    return calls


def sa_id(n, path):
    return ("sa%d-%s" % (n, path.replace("/", "_"))).encode()


def generate(rng, tier):
    flavour = rng.choice(["bzr", "bzr", "git"])
    names = make_names(rng)
    model = T.MTree1(flavour)
    ops, g = gen_history(rng, model, names)
    env = Env(flavour)
    litter = gen_litter(rng, model, env, g)
    calls = gen_calls(rng, model, env, g)
    return {"flavour": flavour, "names": names, "ops": ops, "litter": litter, "calls": calls}


def shrink_candidates(plan):
    import copy

    from simkit import shrink

    yield from shrink.generic_candidates(plan)
    for key in ("litter", "calls"):
        lst = plan.get(key) or []
        for i in range(len(lst)):
            if key == "calls" and len(lst) == 1:
                continue
            p = copy.deepcopy(plan)
            del p[key][i]
            yield p
    for i, c in enumerate(plan.get("calls", [])):
        if len(c["paths"]) > 1:
            for j in range(len(c["paths"])):
                p = copy.deepcopy(plan)
                del p["calls"][i]["paths"][j]
                yield p
    for i, it in enumerate(plan.get("litter", [])):
        if it["l"] == "ignore" and len(it["patterns"]) > 1:
            for j in range(len(it["patterns"])):
                p = copy.deepcopy(plan)
                del p["litter"][i]["patterns"][j]
                yield p
        if it["l"] == "nested" and it.get("files"):
            p = copy.deepcopy(plan)
            p["litter"][i]["files"] = []
            yield p


# --------------------------------------------------------------------------------------
# execution
# --------------------------------------------------------------------------------------
_warmed = []

WARM_PLAN = {
    "names": ["a", "d", "d/b.log"],
    "ops": [
        {"o": "write", "p": "a", "n": 1},
        {"o": "mkdir", "p": "d", "id": "d2"},
        {"o": "write", "p": "d/b.log", "n": 3},
        {"o": "smart_add", "p": "", "n": 4},
        {"o": "commit", "paths": None, "rev": "rev-5", "t": 1700000005},
    ],
    "litter": [
        {"l": "ignore", "patterns": ["*.log", "!keep.log", "build"], "n": 6},
        {"l": "file", "p": "d/keep.log", "n": 7},
        {"l": "file", "p": "c.log", "n": 8},
        {"l": "dir", "p": "build"},
        {"l": "file", "p": "build/x", "n": 9},
        {"l": "dirlink", "p": "ln", "to": "d"},
        {"l": "nested", "p": "sub", "fmt": "bzr", "files": [["inner", 10]]},
        {"l": "nested", "p": "d/nest", "fmt": "git", "files": []},
        {"l": "fake_control", "p": "d/.git"},
        {"l": "conflict", "p": "a", "t": "text", "helpers": [".THIS", ".BASE", ".OTHER"], "n": 11},
        {"l": "conflict", "p": "d/b.log", "t": "contents", "helpers": [".BASE", ".OTHER"], "n": 12},
    ],
    "calls": [
        {"paths": ["c.log"], "recurse": False, "n": 13},
        {"paths": ["zz"], "recurse": True, "n": 14, "bad": 1},
        {"paths": ["", "build/x"], "recurse": True, "n": 15},
    ],
}


def warm():
    world.quiet_breezy()
    T.quiet()
    if _warmed:
        return
    _warmed.append(1)
    import shutil
    import tempfile

    import breezy.bzr.conflicts  # noqa: F401
    import breezy.bzr.workingtree_4  # noqa: F401
    import breezy.commit  # noqa: F401
    import breezy.git.workingtree  # noqa: F401
    from simkit.sim import Sim

    saved = {k: os.environ.get(k) for k in ("VERIF_SCRATCH", "BRZ_HOME", "HOME")}
    tmp = tempfile.mkdtemp(prefix="verif-warm-", dir="/dev/shm")
    try:
        for fl in ("bzr", "git"):
            sc = os.path.join(tmp, fl)
            os.makedirs(os.path.join(sc, "home"))
            os.environ.update(VERIF_SCRATCH=sc, BRZ_HOME=os.path.join(sc, "home"), HOME=os.path.join(sc, "home"))
            plan = dict(WARM_PLAN, flavour=fl)
            sim = Sim(1, plan, step_cap=10**6)
            try:
                execute(sim, plan)
            except Exception:  # noqa: BLE001 - a dry run; real runs report
                if os.environ.get("VERIF_WARM_DEBUG"):
                    raise
    finally:
        for k, v in saved.items():
            if v is None:
                os.environ.pop(k, None)
            else:
                os.environ[k] = v
        shutil.rmtree(tmp, ignore_errors=True)
    import gc

    gc.collect()
    gc.freeze()


def config(tier):
    if tier == "thorough":
        return {"budget_s": 700, "run_timeout": 180, "selftest": 48, "workers": 8}
    return {"budget_s": 50, "run_timeout": 180, "selftest": 24, "workers": 8}


def _h(obj):
    return hashlib.sha1(repr(obj).encode("utf-8", "replace")).hexdigest()[:12]


def _diff(exp, got):
    exp, got = set(exp), set(got)
    return "missing=%r unexpected=%r" % (sorted(exp - got, key=repr)[:8], sorted(got - exp, key=repr)[:8])


def disk_snapshot(root, flavour):
    """Like treesim.disk_snapshot, but a directory named .bzr / .git anywhere below the root is
    one opaque node (the tree's own control directory is left out)."""
    out = {}

    def walk(rel):
        for name in sorted(os.listdir(os.path.join(root, rel))):
            if rel == "" and name == T.CONTROL[flavour]:
                continue
            p = posixpath.join(rel, name) if rel else name
            full = os.path.join(root, p)
            st = os.lstat(full)
            if stat.S_ISLNK(st.st_mode):
                out[p] = (LINK, os.readlink(full), False)
            elif stat.S_ISDIR(st.st_mode):
                out[p] = (DIR, None, False)
                if name not in CONTROL_NAMES:
                    walk(p)
            else:
                with open(full, "rb") as f:
                    out[p] = (FILE, f.read(), bool(st.st_mode & stat.S_IEXEC))

    walk("")
    return out


def litter_apply_real(tree, m, it):
    """Create the litter item on disk / in the tree; returns the tree (reopened when its
    cached ignore rules or conflicts changed)."""
    root = tree._sim_root
    k = it["l"]
    p = it.get("p")
    full = os.path.join(root, p) if p is not None else None
    if k == "file":
        with open(full, "wb") as f:
            f.write(T.content(it["n"]))
    elif k in ("dir", "fake_control"):
        os.mkdir(full)
    elif k == "dirlink":
        os.symlink(link_text(p, it["to"]), full)
    elif k == "nested":
        from breezy import controldir

        os.mkdir(full)
        fmt = controldir.format_registry.make_controldir("2a" if it["fmt"] == "bzr" else "git")
        controldir.ControlDir.create_standalone_workingtree(full, format=fmt)
        for name, n in it.get("files", []):
            with open(os.path.join(full, name), "wb") as f:
                f.write(T.content(n))
    elif k == "ignore":
        name = ".bzrignore" if m.flavour == "bzr" else ".gitignore"
        with open(os.path.join(root, name), "wb") as f:
            f.write(ignore_bytes(it["patterns"], it["n"]))
        tree = T.reopen(tree)
    elif k == "conflict":
        for s in it["helpers"]:
            with open(full + s, "wb") as f:
                f.write(T.content(it["n"]) + s.encode())
        if m.flavour == "bzr":
            from breezy.bzr import conflicts as bc
            from breezy.conflicts import ConflictList

            fid = m.inv[p][0]
            if it["t"] == "text":
                c = bc.TextConflict(p, fid)
            elif it["t"] == "contents":
                c = bc.ContentsConflict(p, file_id=fid)
            else:
                c = bc.DuplicateEntry("Moved existing file to", p + ".moved", p, None, fid)
            tree.add_conflicts(ConflictList([c]))
        else:
            from breezy.git import workingtree as gw

            c = gw.TextConflict(p) if it["t"] == "text" else gw.ContentsConflict(p)
            tree.add_conflicts([c])
        tree = T.reopen(tree)
    return tree


class AddIds:
    """AddAction giving deterministic file ids (bzr)."""

    def __init__(self, n):
        self.n = n

    def __call__(self, tree, parent_ie, path, kind):
        return sa_id(self.n, path)

    def skip_file(self, tree, path, kind, stat_value=None):
        return False


def versioned_of(tree):
    snap = T.tree_snapshot(tree)
    return snap


def refused_ok(exc):
    from breezy import errors

    if isinstance(exc, (errors.BzrError, OSError)):
        return not isinstance(exc, errors.InternalBzrError)
    mod = type(exc).__module__.split(".")[0]
    return mod in ("dromedary", "bzrformats", "dulwich") or type(exc).__name__ in ("NoSuchFile",)


def fail(sim, tag, rest, detail):
    sim.fail(tag, [PROPERTY, tag] + list(rest), detail)


def execute(sim, plan):
    warm()
    T.quiet()
    T.settle_randomness(sim.seed)
    world.setup_sim(sim)
    fl = plan["flavour"]
    root = os.path.join(os.environ["VERIF_SCRATCH"], "t")
    T.relativise_log(sim, root)
    T.mask_content_names(sim)
    tree = T.make_tree(sim, fl, "t")
    model = T.MTree1(fl)
    env = Env(fl)
    # -- history ---------------------------------------------------------------------------
    for i, op in enumerate(plan["ops"]):
        if op.get("bad") or model.classify(op) != "ok":
            sim.event("skip", i, op["o"])
            continue
        m2 = model.copy()
        m2.apply(op)
        if not regular(m2):
            sim.event("skip-irregular", i, op["o"])
            continue
        try:
            tree = T.apply_op(tree, model, op)
        except Exception as e:  # noqa: BLE001 - C09's subject
            sim.probe("history_op_raised")
            sim.event("history-op-raised", i, op["o"], type(e).__name__)
            return
        model.apply(op)
        sim.event("op", i, json.dumps(op, sort_keys=True))
    # -- litter ----------------------------------------------------------------------------
    for i, it in enumerate(plan.get("litter", [])):
        if not litter_feasible(model, env, it):
            sim.event("skip-litter", i, it["l"])
            continue
        tree = litter_apply_real(tree, model, it)
        litter_apply_model(model, env, it)
        sim.probe("litter_" + it["l"])
        sim.event("litter", i, json.dumps(it, sort_keys=True))
    tree = T.reopen(tree)
    # the tree must be where the model is
    try:
        disk = disk_snapshot(root, fl)
        snap = versioned_of(tree)
        ok = disk == model.disk and set(snap) == model.versioned_paths()
    except Exception:  # noqa: BLE001
        ok = False
    if not ok:
        sim.probe("prestate_mismatch")
        sim.event("prestate-mismatch")
        return
    # -- calls -----------------------------------------------------------------------------
    added_any = False
    reasons_seen = set()
    for i, call in enumerate(plan.get("calls", [])):
        paths = list(call["paths"])
        recurse = bool(call["recurse"])
        if any(p != "" and (is_opaque(p) or any(is_opaque(a) or model.dkind(a) == LINK for a in T.ancestors(p) if a)) for p in paths):
            sim.event("skip-call", i)
            continue
        if not paths:
            continue
        missing = [p for p in paths if p != "" and p not in model.disk]
        if missing and len(paths) > 1:
            sim.event("skip-call", i)
            continue
        status, new, reasons = model_smart_add(model, env, paths, recurse)
        before = versioned_of(tree)
        disk_before = disk_snapshot(root, fl)
        action = AddIds(call["n"]) if fl == "bzr" else None
        raised = None
        try:
            tree.smart_add([os.path.join(root, p) if p else root for p in paths], recurse=recurse, action=action)
        except Exception as e:  # noqa: BLE001 - classified below
            raised = e
        what = "%s recurse=%s" % (json.dumps(paths), recurse)
        rest = [fl, "recurse" if recurse else "flat"]
        if status == "error":
            if raised is None:
                fail(sim, "missing_accepted", rest, "smart_add(%s) of a missing path was accepted" % what)
            if not refused_ok(raised):
                fail(sim, "internal_error", rest + [type(raised).__name__], "smart_add(%s): %r" % (what, raised))
            sim.probe("refused")
            new = []
        elif raised is not None:
            import traceback

            tb = "".join(traceback.format_exception(type(raised), raised, raised.__traceback__)[-6:])
            fail(sim, "raised", rest + [type(raised).__name__], "smart_add(%s) raised %r\n%s" % (what, raised, tb))
        tree = T.reopen(tree)
        after = versioned_of(tree)
        disk_after = disk_snapshot(root, fl)
        if disk_after != disk_before:
            fail(sim, "disk_changed", rest, "smart_add(%s) changed the disk: %s" % (what, _diff(disk_before.items(), disk_after.items())))
        loose = loose_paths(model, env)
        # a NAMED directory that is itself ignored (or lies inside an ignored directory): bzr
        # walks it ("user selection overrides ignores"), git's rules ignore everything below an
        # ignored directory; the property text can be read both ways: no position below it
        for p in paths:
            if p and model.dkind(p) == DIR and (env.ignored(p) or any(env.ignored(a) for a in T.ancestors(p) if a)):
                loose.update(q for q in model.disk if T.strictly_inside(p, q))
        got_new = {p for p in after if p not in before}
        want_new = set(new)
        if fl == "git":
            # directories are versioned through their files: compare the files
            got_new = {p for p in got_new if model.dkind(p) != DIR}
        lost = {p for p in before if p not in after}
        if lost:
            fail(sim, "unversioned", rest, "smart_add(%s) made versioned paths disappear: %r" % (what, sorted(lost)))
        g2 = {p for p in got_new if not is_loose(loose, p)}
        w2 = {p for p in want_new if not is_loose(loose, p)}
        if g2 != w2:
            extra, missing2 = sorted(g2 - w2), sorted(w2 - g2)
            why = classify_extra(model, env, extra) if extra else "missing"
            fail(sim, "versioned_set", rest + [why], "smart_add(%s): newly versioned %s (rules %r, nested %r, helpers %r)" % (what, _diff(w2, g2), env.patterns, sorted(env.nested), sorted(env.helpers)))
        for p, v in before.items():
            if after[p][0] != v[0] or after[p][3] != v[3]:
                fail(sim, "existing_changed", rest, "smart_add(%s): entry %r was %r, is %r" % (what, p, (v[0], v[3]), (after[p][0], after[p][3])))
        for p in sorted(got_new):
            k = after[p][0]
            if is_loose(loose, p):
                continue
            if k != model.dkind(p) and not (fl == "git" and model.dkind(p) == DIR):
                fail(sim, "kind", rest, "smart_add(%s): %r versioned as %r, on disk %r" % (what, p, k, model.dkind(p)))
            if fl == "bzr" and after[p][3] != sa_id(call["n"], p):
                fail(sim, "file_id", rest, "smart_add(%s): %r got id %r, the action gave %r" % (what, p, after[p][3], sa_id(call["n"], p)))
        # carry on from what the tree has (loose paths included)
        for p in sorted(got_new):
            if fl == "bzr":
                model.inv[p] = (after[p][3], after[p][0])
            elif after[p][0] != DIR:
                model.inv[p] = (None, after[p][0])
        if got_new:
            added_any = True
        reasons_seen |= reasons or set()
        sim.probe("call_recurse" if recurse else "call_flat")
        for r in reasons or ():
            sim.probe("reason_" + r)
        sim.event("call", i, json.dumps(call, sort_keys=True), _h(sorted(got_new)))
        sim.state_seen((fl, tuple(sorted(after)), tuple(env.patterns)))
    sim.nontrivial = added_any and bool(reasons_seen)


def classify_extra(m, env, extra):
    """Why the model had left out the first unexpectedly versioned path (signature part)."""
    p = extra[0]
    if p in env.helpers:
        return "helper"
    if any(a in env.nested for a in [p] + T.ancestors(p) if a):
        return "nested"
    if env.ignored(p):
        return "ignored"
    if any(env.ignored(a) for a in T.ancestors(p) if a):
        return "inside_ignored"
    return "other"
