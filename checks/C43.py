"""C43 — incremental uploads keep the remote directory equal to the uploaded tree.

One run = a generated sequence of commits in a real working tree (adds, deletes, renames,
swaps a<->b, file/directory/symlink kind changes, exec changes, content changes), each
followed by `BzrUploader(...).upload_tree()` (incremental; the first one is a full upload
because the remote has no marker) to a directory whose every transport operation goes
through the storage seam (`sim+file://`, so that modes and symlinks are representable).
Optionally: a `.bzrignore-upload` file; a final `upload_full_tree()` over the existing
remote; one injected fault (`err_before` or `crash`, before/after the op is applied) at a
seeded operation of one upload, followed by a re-run (incremental, then full if the
incremental re-run refuses)."""

import io
import os
import posixpath
import re
import stat

from simkit import world
from simkit.sim import SimCrash, Violation

from . import histsim, storesim
from .histsim import DIR, FILE, LINK

PROPERTY = "C43"
LEVEL = "exploration"
ISOLATION = "fork"
STEP_CAP = 200000
RULE = (
    "one case = one seeded (commit sequence, upload-ignore patterns, final full upload?, fault (upload index, op index, "
    "err_before|crash dropped|applied), re-run mode) scenario; every upload is compared with the model (one evaluation "
    "each); non-trivial = at least two uploads of which one carried a rename, swap, kind change, delete or exec change, or "
    "a fault fired; distinct = distinct event-log digests (op trace of the remote + verdicts)"
)
COMPONENTS = {
    "real": ["breezy.plugins.upload.cmds.BzrUploader (upload_tree, upload_full_tree, rename_remote/finish_renames, finish_deletions, ignore handling, revid marker)", "Tree.changes_from on revision trees", "commit through WorkingTree", "dromedary local transport under the seam"],
    "simulated": ["every operation on the remote directory (SimTransport over the local transport): errors before an operation, process crash before/after an operation"],
    "stub": ["UI/outf (StringIO)", "the command wrapper cmd_upload (location bookkeeping, divergence check) is not used"],
}
ASSUMPTIONS = [
    "executable bit = any x bit of the remote mode; other mode bits are not compared",
    "a symlink is equal when it resolves, relative to the upload root, to the place the versioned symlink resolves to relative to the tree root; generated targets stay inside the directory of the link (the transport API cannot express others)",
    "paths matched by .bzrignore-upload (any path component equal to a pattern) and the files .bzrignore / .bzrignore-upload / .bzr-upload.revid are outside the comparison; the ignore file never changes once added",
    "a full upload over an existing remote is not required to remove files of older revisions (it has no deletion phase): after it only missing or wrong paths count, left-overs are recorded",
    "after an interrupted upload: a re-run that raises is allowed (recorded); a re-run that succeeds must leave exactly the model; if the incremental re-run raises, a full upload must succeed and must leave every path of the revision correct",
    "temporary rename names (.tmp.<time>.<pid>.<rand>) are normalised in the event log",
    "reported class 'rerun-repeats-renames': an incremental re-run after an interruption that had already applied the renames of the span succeeds but leaves swapped / overwritten files; it keeps its own closed signature",
]

MARKER = ".bzr-upload.revid"
STAMP = re.compile(r"\.tmp\.\d+\.\d+\.\d+\.\d+")
IGNORE_SETS = [["f"], ["e", "c"], ["d"]]


def warm():
    storesim.warm()
    import breezy.plugins.upload  # noqa: F401
    import breezy.plugins.upload.cmds  # noqa: F401
    from breezy import globbing, ignores  # noqa: F401
    from simkit.sim import Sim

    def dry(i):
        import random

        rng = random.Random(21 + i)
        plan = generate(rng, "quick")
        plan["final_full"] = True
        sim = Sim(0, plan, step_cap=STEP_CAP)
        try:
            execute(sim, plan)
        except Violation:
            pass

    for i in range(2):
        histsim.warm_scratch(lambda i=i: dry(i))
    world.reset_stores()


def config(tier):
    if tier == "thorough":
        return {"budget_s": 700, "run_timeout": 180, "selftest": 12}
    return {"budget_s": 50, "run_timeout": 180, "selftest": 6}


# Feature classes that run into divergences already reported for the uploader; a guarded run
# stays out of them, each guard is lifted in a fraction of the runs (see generate).
GUARDED = {
    # symlinks: incremental upload passes the raw link target to Transport.symlink, which
    # takes a path relative to the transport root (InvalidURL for links below the root
    # directory); a changed target is uploaded without removing the old link (FileExists);
    # link names are not URL-escaped (InvalidURL for non-ASCII names / spaces)
    "symlinks": {"symlinks": False},
}
# with upload-ignore patterns: a rename or swap between an ignored and a non-ignored path is
# executed on the remote although the ignored side was never uploaded (NoSuchFile / wrong content)
GUARD_IGNORE_MOVES = "ignore_moves"
# an upload that spans several revisions can contain a rename into a directory that the same
# upload creates (added, or a file that became a directory): renames are executed before
# additions and kind changes, so finish_renames fails with NoSuchFile (similar: ReadError when a
# directory and a file trade kinds across the span)
GUARD_SPAN = "multi_revision_span"
# a directory with children is renamed (or swapped) and something below it is renamed, swapped
# or changes kind in the same upload: the inner change is executed with the OLD path after the
# directory has already been moved away (NoSuchFile)
GUARDED["dir_move_with_inner_change"] = {"rename_full_dirs": False, "swap_full_dirs": False}
# a file that is renamed and whose exec bit flips with unchanged text: upload_tree re-uploads a
# renamed file only `if change.changed_content`, so the remote keeps the old mode
# (fixed in /repo 27037ec: no longer guarded, the shape is generated in every run)


def generate(rng, tier):
    lifted = sorted(g for g in list(GUARDED) + [GUARD_IGNORE_MOVES, GUARD_SPAN] if rng.random() < 0.07)
    if os.environ.get("C43_FORCE_LIFTED"):  # triage aid; unset in normal runs
        lifted = sorted(os.environ["C43_FORCE_LIFTED"].split(","))
    ignore = rng.choice(IGNORE_SETS) if rng.random() < (0.25 if GUARD_IGNORE_MOVES not in lifted or not os.environ.get("C43_FORCE_LIFTED") else 0.9) else None
    opts = {
        "inside_links": True,
        "reuse_paths": True,
        "rename_chmod": True,
        "odd_names": rng.random() < 0.25,
        "binary": True,
        "big": False,
        "msgs": "plain",
        "committers": False,
        "tz": False,
    }
    for g, o in GUARDED.items():
        if g not in lifted:
            opts.update(o)
    if ignore and GUARD_IGNORE_MOVES not in lifted:
        opts["renames"] = False
    n = rng.choice([2, 3, 4, 5, 6, 8]) if tier != "thorough" else rng.choice([3, 5, 8, 12, 16])
    mh, specs = histsim.gen_history(rng, n, opts, merges=False)
    if ignore:
        specs[0]["actions"].append(["add", ".bzrignore-upload", "ignore-upload-id", FILE, "".join(p + "\n" for p in ignore), False])
    plan = {"specs": specs, "ignore": ignore, "final_full": rng.random() < 0.2, "fault": None, "lifted": lifted, "skip": []}
    # some commits are not uploaded (the next upload then spans several revisions)
    if GUARD_SPAN in lifted:
        plan["skip"] = sorted(i for i in range(n - 1) if rng.random() < 0.3)
    if rng.random() < 0.45:
        ups = [i for i in range(n) if i not in plan["skip"]]
        kind = rng.choice(["err_before", "crash", "crash"])
        plan["fault"] = {
            "step": rng.choice(ups),
            "kind": kind,
            "at": rng.choice([1, 1, 2, 2, 3, 4, 5, 6, 8, 11]),
            "applied": rng.random() < 0.5,
            "err": rng.choice(["transport", "permission", "connection", "enospc"]),
            "rerun": rng.choice(["incremental", "incremental", "full"]),
        }
    return plan


# ------------------------------------------------------------------------------------
# model / observation


def ignored(path, patterns):
    if not patterns:
        return False
    return any(part in patterns for part in path.split("/"))


def expected(tree, patterns):
    """{path: (kind, data, exec)} the remote must hold for model tree `tree`."""
    out = {}
    for p, v in tree.items():
        if p in ("", ".bzrignore", ".bzrignore-upload") or ignored(p, patterns):
            continue
        if v[1] == FILE:
            out[p] = (FILE, v[2], bool(v[3]))
        elif v[1] == DIR:
            out[p] = (DIR, None, False)
        else:
            out[p] = (LINK, posixpath.normpath(posixpath.join(posixpath.dirname(p), v[2])), False)
    return out


def remote_state(root, patterns):
    out = {}

    def walk(rel):
        for name in sorted(os.listdir(os.path.join(root, rel))):
            p = f"{rel}/{name}" if rel else name
            if p in (MARKER, ".bzrignore", ".bzrignore-upload") or ignored(p, patterns):
                continue
            full = os.path.join(root, p)
            st = os.lstat(full)
            if stat.S_ISLNK(st.st_mode):
                t = os.readlink(full)
                if os.path.isabs(t):
                    t = os.path.relpath(t, root)
                else:
                    t = posixpath.normpath(posixpath.join(posixpath.dirname(p), t))
                out[p] = (LINK, t, False)
            elif stat.S_ISDIR(st.st_mode):
                out[p] = (DIR, None, False)
                walk(p)
            else:
                with open(full, "rb") as f:
                    out[p] = (FILE, f.read().decode("latin-1"), bool(st.st_mode & 0o111))

    walk("")
    return out


def marker(root):
    try:
        with open(os.path.join(root, MARKER), "rb") as f:
            return f.read().decode()
    except OSError:
        return None


def diff_states(got, want, limit=5):
    out = []
    for p in sorted(set(got) | set(want)):
        g, w = got.get(p), want.get(p)
        if g != w:

            def short(v):
                if v is None:
                    return None
                d = v[1]
                if isinstance(d, str) and len(d) > 30:
                    d = d[:30] + f"...({len(v[1])})"
                return (v[0], d, v[2])

            out.append(f"{p!r}: remote {short(g)} expected {short(w)}")
            if len(out) >= limit:
                break
    return out


def change_labels(mh, revs):
    """Kinds of change between uploads (for signatures): action names of the revisions the
    upload spans; renames of directories with children and kind changes are told apart."""
    labels = set()
    for r in revs:
        spec = mh.revs[r]
        tree = mh.tree(spec["parents"][0]) if spec["parents"] else {}
        for a in spec["actions"]:
            if a[0] == "retype":
                labels.add(f"retype-{tree[a[1]][1]}-to-{a[2]}")
            elif a[0] == "rename":
                full = any(x != a[1] and histsim.inside(a[1], x) for x in tree)
                labels.add("rename-full-dir" if full else "rename-" + tree[a[1]][1])
            elif a[0] == "add":
                labels.add("add-" + a[3])
            elif a[0] == "remove":
                labels.add("remove-" + tree[a[1]][1])
            else:
                labels.add(a[0])
            tree = histsim.apply_actions(tree, [a])
    return labels


def category(mh, revs, patterns):
    """The reported defect class an upload span falls into (first match), else '-'."""
    labels = set()
    moved_ignored = False
    dir_move = False
    renamed_to, chmodded, modified = set(), set(), set()
    for r in revs:
        spec = mh.revs[r]
        tree = mh.tree(spec["parents"][0]) if spec["parents"] else {}
        for a in spec["actions"]:
            if a[0] == "rename" and tree[a[1]][1] == FILE:
                renamed_to.add(a[2])
            elif a[0] == "chmod":
                chmodded.add(a[1])
            elif a[0] == "modify":
                modified.add(a[1])
            if a[0] == "add" and a[3] == LINK or a[0] == "retype" and (a[2] == LINK or tree[a[1]][1] == LINK) or a[0] == "modify" and tree[a[1]][1] == LINK:
                labels.add("symlink")
            if a[0] in ("rename", "swap"):
                if patterns and (ignored(a[1], patterns) != ignored(a[2], patterns) or (a[0] == "swap" and (ignored(a[1], patterns) or ignored(a[2], patterns)))):
                    moved_ignored = True
                for q in (a[1], a[2]) if a[0] == "swap" else (a[1],):
                    if any(x != q and histsim.inside(q, x) for x in tree):
                        dir_move = True
                if a[0] == "swap":
                    labels.add("swap")
                if any(tree[q][1] == LINK for q in ((a[1], a[2]) if a[0] == "swap" else (a[1],))):
                    labels.add("symlink")
            if a[0] == "retype":
                labels.add("kind-change")
            tree = histsim.apply_actions(tree, [a])
    if "symlink" in labels:
        return "symlink"
    if moved_ignored:
        return "ignored-path-moved"
    if len(revs) > 1:
        return "multi-revision-span"
    if dir_move:
        return "dir-move-with-inner-change"
    # (a rename with an exec-only change was its own class until it was fixed in /repo 27037ec)
    if "kind-change" in labels:
        return "kind-change"
    if "swap" in labels:
        return "swap"
    return "-"


RERUN_CLASS = "rerun-repeats-renames"
GUARD_CLASSES = ("symlink", "ignored-path-moved", "multi-revision-span", "dir-move-with-inner-change")


def vsig(oracle, mh, revs, patterns, rest):
    """Signature: [oracle, class] for an upload span that falls into a reported (guarded) defect
    class, else [oracle] + rest + [category]."""
    cat = category(mh, revs, patterns)
    if cat in GUARD_CLASSES:
        return [oracle, cat]
    if oracle == "remote_differs" and rest and rest[0] == "rerun-incremental" and any(a[0] in ("rename", "swap") for r in revs for a in mh.revs[r]["actions"]):
        # the interrupted upload had already applied its renames; the marker still names the
        # old revision, so the re-run applies the same renames again (a swap is swapped back,
        # a rename onto a re-used name overwrites the moved file) and then records success
        return [oracle, RERUN_CLASS]
    return [oracle] + list(rest) + [cat]


def culprit(mh, revs, got, want):
    """Labels of the actions (in the uploaded span) that touched a differing path."""
    bad = [p for p in sorted(set(got) | set(want)) if got.get(p) != want.get(p)]
    labels = set()
    for r in revs:
        spec = mh.revs[r]
        tree = mh.tree(spec["parents"][0]) if spec["parents"] else {}
        for a in spec["actions"]:
            involved = [a[1]] + ([a[2]] if a[0] in ("rename", "swap") else [])
            if any(q != "" and (histsim.inside(q, p) or histsim.inside(p, q)) for q in involved for p in bad):
                if a[0] == "retype":
                    labels.add(f"retype-{tree[a[1]][1]}-to-{a[2]}")
                elif a[0] == "rename":
                    full = any(x != a[1] and histsim.inside(a[1], x) for x in tree)
                    labels.add("rename-full-dir" if full else "rename-" + tree[a[1]][1])
                elif a[0] == "add":
                    labels.add("add-" + a[3])
                elif a[0] == "remove":
                    labels.add("remove-" + tree[a[1]][1])
                else:
                    labels.add(a[0])
            tree = histsim.apply_actions(tree, [a])
    return "+".join(sorted(labels)) or "untouched-path"


def norm_exc(e):
    s = f"{type(e).__name__}:{str(e).splitlines()[0] if str(e) else ''}"
    s = re.sub(r"/dev/shm/\S+", "<path>", s)
    s = STAMP.sub(".tmp.<stamp>", s)
    s = re.sub(r"b?'[^']*'|b?\"[^\"]*\"", "<q>", s)
    s = re.sub(r"[0-9]{2,}", "N", s)
    return s[:80]


# ------------------------------------------------------------------------------------


def execute(sim, plan):
    from breezy.branch import Branch
    from breezy.plugins.upload import cmds
    from breezy.transport import get_transport

    sim.disarm()
    world.setup_sim(sim)
    histsim.relativise_log(sim, [(STAMP, ".tmp.<stamp>")])
    specs = plan["specs"]
    mh = histsim.replay(specs)
    patterns = plan["ignore"]
    tree = histsim.make_tree(histsim.scratch("wt"), "2a")
    bld = histsim.Builder(tree, histsim.Hist())
    root = histsim.scratch("remote")
    os.makedirs(root)
    url = "sim+file://" + root
    rtag = os.path.basename(root)
    sim.fault_filter = lambda a, op, path, mutating: "/remote" in path
    fault = plan.get("fault")
    uploaded = None  # revision id the remote holds
    span = []  # revisions since the last upload
    nup = 0
    interesting = False

    def uploader(rid):
        b = Branch.open(histsim.scratch("wt"))
        t = get_transport(url)
        return cmds.BzrUploader(b, t, io.StringIO(), b.repository.revision_tree(rid.encode()), rid.encode(), quiet=True)

    def judge(rid, what, lenient_extras=None, sigtail=None):
        got = remote_state(root, patterns)
        want = expected(mh.tree(rid), patterns)
        if lenient_extras is not None:
            extras = {p for p in got if p not in want}
            if extras:
                sim.probe("leftovers_after_full_upload")
                sim.event("leftovers", len(extras))
            got = {p: v for p, v in got.items() if p in want}
        if got != want:
            lab = culprit(mh, span, got, want)
            sim.fail("remote_differs", vsig("remote_differs", mh, span, patterns, [what] + ([sigtail] if sigtail else [])), f"{what} of {rid} [{lab}] (span {span}, ignore {patterns}): remote differs from the tree: {diff_states(got, want)}\nactions: {[mh.revs[r]['actions'] for r in span][-3:]}"[:3500])
        m = marker(root)
        if m != rid:
            sim.fail("marker", ["marker", what], f"{what} of {rid}: marker file holds {m!r}")

    for i, spec in enumerate(specs):
        bld.commit(spec)
        rid = spec["id"]
        span.append(rid)
        if i in plan["skip"]:
            continue
        labels = change_labels(mh, span)
        mode = "full-first" if uploaded is None else "incremental"
        nup += 1
        if fault and fault["step"] == i:
            f = {"kind": fault["kind"], "at": fault["at"], "count": "mut"}
            if fault["kind"] == "crash":
                f["applied"] = fault["applied"]
            else:
                f["err"] = fault["err"]
            up = uploader(rid)
            sim.arm([f])
            err = None
            crashed = False
            try:
                up.upload_tree()
            except SimCrash:
                crashed = True
            except Exception as e:  # noqa: BLE001 - consequence of the injected fault (checked below)
                err = e
            fired = sum(sim.faults_fired.values())
            sim.disarm()
            if crashed:
                sim.restart_main()
            if not fired:
                if err is not None:
                    sim.fail("upload_raises", vsig("upload_raises", mh, span, patterns, [mode, norm_exc(err)]), f"{mode} upload of {rid} (span {span}) failed without any fault: {type(err).__name__}: {err}\nactions: {[mh.revs[r]['actions'] for r in span][-3:]}"[:3000])
                judge(rid, mode)
                sim.probe("fault_beyond_end")
            else:
                interesting = True
                kindsig = fault["kind"] + ("" if fault["kind"] != "crash" else ("-applied" if fault["applied"] else "-dropped"))
                sim.probe("interrupted_" + kindsig)
                if err is None and not crashed:
                    # the uploader handled the error itself (e.g. a failed rmdir is retried in
                    # finish_deletions): then the result must simply be right
                    sim.probe("injected_error_absorbed")
                    judge(rid, mode + "-absorbed-error", sigtail=kindsig)
                    uploaded = rid
                    span = []
                    sim.event("upload", i, mode, "absorbed")
                    continue
                m = marker(root)
                if m not in (uploaded, rid):
                    sim.fail("marker", ["marker", "interrupted", kindsig], f"interrupted upload of {rid}: marker holds {m!r}, expected {uploaded!r} or {rid!r}")
                if m == rid:
                    # the marker is written last: everything else must be complete
                    judge(rid, "interrupted-but-marked", sigtail=kindsig)
                    sim.probe("interrupted_after_marker")
                # re-run
                rerun_ok = False
                if fault["rerun"] == "incremental":
                    try:
                        uploader(rid).upload_tree()
                        rerun_ok = True
                    except Exception as e:  # noqa: BLE001 - allowed: "a successful re-run" is the premise
                        sim.probe("rerun_incremental_raised")
                        sim.event("rerun-raised", type(e).__name__)
                    if rerun_ok:
                        judge(rid, "rerun-incremental", sigtail=kindsig)
                        sim.probe("rerun_incremental_ok")
                if not rerun_ok:
                    try:
                        uploader(rid).upload_full_tree()
                    except Exception as e:  # noqa: BLE001
                        import traceback

                        sim.fail("rerun_full_raises", vsig("rerun_full_raises", mh, span, patterns, [kindsig, norm_exc(e)]), f"full upload of {rid} after an interrupted upload failed: {type(e).__name__}: {e}\n{traceback.format_exc()[-1200:]}")
                    judge(rid, "rerun-full", lenient_extras=True, sigtail=kindsig)
                    sim.probe("rerun_full_ok")
                    # leftovers are possible now: the strict sequence ends here
                    uploaded = rid
                    span = []
                    sim.event("upload", i, "rerun-full", "ok")
                    break
            uploaded = rid
            span = []
            sim.event("upload", i, mode, "faulted" if fired else "ok")
            continue
        try:
            uploader(rid).upload_tree()
        except Exception as e:  # noqa: BLE001
            import traceback

            sim.fail("upload_raises", vsig("upload_raises", mh, span, patterns, [mode, norm_exc(e)]), f"{mode} upload of {rid} (span {span}, ignore {patterns}) failed: {type(e).__name__}: {e}\nactions: {[mh.revs[r]['actions'] for r in span][-3:]}\n{traceback.format_exc()[-1500:]}"[:4000])
        judge(rid, mode)
        if labels & (RISKY | {"remove-file", "remove-symlink", "remove-directory", "chmod", "rename-file", "rename-symlink", "rename-directory"}) and mode == "incremental":
            interesting = True
        for lb in sorted(labels):
            sim.probe("up_" + lb)
        uploaded = rid
        span = []
        sim.event("upload", i, mode, "ok")
    else:
        if plan["final_full"] and uploaded:
            try:
                uploader(uploaded).upload_full_tree()
            except Exception as e:  # noqa: BLE001
                sim.fail("upload_raises", ["upload_raises", "full-over-existing", norm_exc(e), "-"], f"full upload of {uploaded} over its own incremental result failed: {type(e).__name__}: {e}")
            span = [uploaded]
            judge(uploaded, "full-over-existing")
            nup += 1
            sim.probe("final_full_upload")
    sim.notes["evaluations"] = max(1, nup)
    sim.nontrivial = nup >= 2 and interesting
    sim.state_seen((bool(patterns), bool(fault), plan["final_full"], nup))


RISKY = {
    "swap",
    "rename-full-dir",
    "retype-file-to-directory",
    "retype-file-to-symlink",
    "retype-directory-to-file",
    "retype-directory-to-symlink",
    "retype-symlink-to-file",
    "retype-symlink-to-directory",
    "add-symlink",
}


def shrink_candidates(plan):
    import copy

    specs = plan["specs"]
    n = len(specs)
    for cut in range(n - 1, 0, -1):
        p = copy.deepcopy(plan)
        p["specs"] = p["specs"][:cut]
        p["skip"] = [i for i in p["skip"] if i < cut - 1]
        if p["fault"] and p["fault"]["step"] >= cut:
            continue
        yield p
    if plan.get("fault"):
        p = copy.deepcopy(plan)
        p["fault"] = None
        yield p
    if plan.get("final_full"):
        p = copy.deepcopy(plan)
        p["final_full"] = False
        yield p
    if plan.get("skip"):
        p = copy.deepcopy(plan)
        p["skip"] = []
        yield p
