"""C41 — Testaments are deterministic and sensitive to every attested field (claimed part:
determinism with respect to storage format / storage order / history; sensitivity as far
as sibling commits reach).

One run = one model history built in several WORLDS:
  * natively (real commits through working trees) in 2a, pack-0.92 and rich-root-pack
    repositories, with pack() and re-opens at different points;
  * as SIBLING worlds in which exactly one revision differs from the base history in
    exactly one attested field (one file's content / name / directory / exec bit / kind /
    file id, a symlink target, an added or removed entry, message, committer, timestamp,
    timezone, parent list, a revision property's name or value, an added property, and whitespace-only
    changes of a message line or property value line: trailing / leading blanks or tabs,
    a blank-only line) - same
    revision id, everything else equal;
  * as COPIES made by fetching a native world into another repository (same or other
    format), tip by tip in a seeded order, optionally packed.
For every (revision id, testament class) the testament texts of all worlds are compared
pairwise against the model's attested tuple: equal tuple <=> equal text."""

import copy

from simkit import world

from . import storesim
from .storesim import DagGen, ft_paths, ft_subtree, ft_valid, replay_dag

PROPERTY = "C41"
LEVEL = "exploration"
RULE = (
    "one case = one seeded history (5-10 revisions, merges, exec bits, symlinks, properties) built in 3 native worlds "
    "(2a, pack-0.92, rich-root-pack; seeded pack()/re-open points), 3-5 sibling worlds that change exactly one attested "
    "field of one revision, and 1-2 fetch copies; every pair of worlds is compared per (revision, testament class); "
    "non-trivial = at least one sibling pair with differing attested tuples AND one cross-format pair with equal tuples "
    "were compared; distinct = distinct event-log digests of such runs"
)
COMPONENTS = {
    "real": ["breezy.bzr.testament Testament / StrictTestament / StrictTestament3 (as_text, as_short_text)", "commit through WorkingTree + CommitBuilder in 2a, pack-0.92, rich-root-pack", "Repository.fetch (same and cross format), pack()", "revision / inventory serializers of the three formats, RevisionTree.list_files"],
    "simulated": ["disk (SimTransport over memory transport)", "re-open (fresh objects, caches cleared)"],
    "stub": ["UI", "working-tree files on local scratch disk"],
}
ASSUMPTIONS = [
    "sensitivity is covered only as far as the sibling commits reach: one perturbation per sibling world, drawn from a fixed list of single-field changes; it is not a proof that every field change alters the text",
    "what a class attests is taken from the format definitions in testament.py: version 1 (Testament) lists kind, path, file id and text sha1 / symlink target but NOT the executable bit and not last-changed revisions; StrictTestament adds last-changed revision and executable flag; StrictTestament3 adds the root entry; so an exec-bit-only sibling must leave the version-1 text EQUAL and change the strict texts",
    "parents are attested as a sorted set (format definition: 'parents given in lexicographical order'); message and property values are attested line by line (splitlines), timestamps as whole seconds: differences only in parent order, a trailing newline or sub-second time are never generated and therefore not judged; whitespace inside a line (leading, trailing, blank-only lines) IS attested and siblings differing only there must differ; carriage returns cannot be committed (the commit builder rejects them) and are not generated",
    "StrictTestament3 (root included) is compared only between worlds that hold native rich-root data (2a, rich-root-pack and rich->rich copies): a non-rich-root repository has no last-changed revision for its root and a rich-root upgrade synthesises one",
    "last-changed revisions inside strict testaments are predicted by the C02 per-file model",
]

NATIVE = ["2a", "pack-0.92", "rich-root-pack"]
RICH = {"2a": True, "pack-0.92": False, "rich-root-pack": True, "1.9": False, "1.9-rich-root": True}
COMMITTERS = ["Sim User <sim@example.com>", "Other Person <other@example.org>", "Zoë Ünicode <z@example.com>"]
FIELDS = ["content", "name", "dir", "exec", "symlink_target", "kind", "file_id", "add_entry", "del_entry", "message", "committer", "timestamp", "timezone", "parents", "prop_value", "prop_name", "prop_add"]
# whitespace-only perturbations of the free-text fields (a line keeps its words)
# (a CR cannot be committed: CommitBuilder._validate_unicode_text rejects messages and properties with "\r")
WS_FIELDS = ["msg_trailing_ws", "msg_leading_ws", "msg_blank_line_ws", "prop_trailing_ws", "prop_leading_ws"]
WS = [" ", "\t", "   ", " \t", "\t\t "]


def warm():
    storesim.warm_dag(("2a", "pack-0.92", "rich-root-pack"))
    from breezy.bzr import testament  # noqa: F401


def config(tier):
    if tier == "thorough":
        return {"budget_s": 700, "run_timeout": 180, "selftest": 10}
    return {"budget_s": 50, "run_timeout": 180, "selftest": 4}


def perturb(rng, mh, specs, idx, field):
    """A copy of specs[idx] differing in exactly `field`; None if not applicable."""
    s = copy.deepcopy(specs[idx])
    tree = s["tree"]
    files = sorted(f for f, e in tree.items() if e[2] == "file")
    links = sorted(f for f, e in tree.items() if e[2] == "symlink")
    nonroot = sorted(f for f, e in tree.items() if e[0] is not None)
    dirs = sorted(f for f, e in tree.items() if e[2] == "directory")
    if field == "content" and files:
        f = rng.choice(files)
        tree[f][3] = tree[f][3] + "sibling\n"
    elif field == "name" and nonroot:
        f = rng.choice(nonroot)
        tree[f][1] = tree[f][1] + "_sib"
    elif field == "dir" and nonroot:
        f = rng.choice(nonroot)
        cand = [d for d in dirs if d != tree[f][0] and d not in ft_subtree(tree, f)]
        if not cand:
            return None
        tree[f][0] = rng.choice(cand)
    elif field == "exec" and files:
        # prefer a file that is a new version in this revision for another reason as well:
        # then its last-changed revision is the same in both worlds and the strict texts
        # differ ONLY in the executable flag
        parents = [p for p in s["parents"] if p in mh.revs]
        strong = [f for f in files if mh.ver[s["id"]][f] == s["id"] and all(f not in mh.revs[p]["tree"] or list(mh.revs[p]["tree"][f][:4]) != list(tree[f][:4]) for p in parents)]
        f = rng.choice(strong or files)
        tree[f][4] = 1 - tree[f][4]
    elif field == "symlink_target" and links:
        f = rng.choice(links)
        tree[f][3] = tree[f][3] + ".sib"
    elif field == "kind" and nonroot:
        leaves = [f for f in nonroot if not any(e[0] == f for e in tree.values())]
        if not leaves:
            return None
        f = rng.choice(leaves)
        k = rng.choice([k for k in ("file", "directory", "symlink") if k != tree[f][2]])
        tree[f][2] = k
        tree[f][3] = "sibling kind\n" if k == "file" else (None if k == "directory" else "sib-target")
        tree[f][4] = 0
    elif field == "file_id":
        parents = [p for p in s["parents"] if p in mh.revs]
        new = [f for f in nonroot if not any(f in mh.revs[p]["tree"] for p in parents) and not any(e[0] == f for e in tree.values())]
        if not new:
            return None
        f = rng.choice(new)
        tree[f + "-sib"] = tree.pop(f)
    elif field == "add_entry":
        d = rng.choice(dirs)
        tree["sib-new-" + s["id"]] = [d, "sibling_added", "file", "added by sibling\n", 0]
    elif field == "del_entry" and nonroot:
        parents = [p for p in s["parents"] if p in mh.revs]
        f = rng.choice(nonroot)
        for g in ft_subtree(tree, f):
            tree.pop(g)
    elif field == "message":
        s["msg"] = s["msg"] + " (sibling)"
    elif field == "committer":
        s["committer"] = rng.choice([c for c in COMMITTERS if c != s["committer"]])
    elif field == "timestamp":
        s["ts"] = s["ts"] + rng.choice([1, 60, -1])
    elif field == "timezone":
        s["tz"] = (s.get("tz", 0) or 0) + rng.choice([3600, -3600, 1800])
    elif field == "parents":
        if len(s["parents"]) >= 2 and rng.random() < 0.5:
            s["parents"] = s["parents"][:1]
            s["ghosts"] = []
        else:
            if not s["parents"]:
                return None
            # only revisions unrelated to the existing parents: the working tree drops
            # parents that are ancestors of other parents
            anc0 = set().union(*(mh.ancestry(p) for p in s["parents"]))
            before = [x["id"] for x in specs[:idx] if x["id"] not in s["parents"] and x["id"] not in anc0 and not any(p in mh.ancestry(x["id"]) for p in s["parents"] if p in mh.revs)]
            if not before:
                return None
            s["parents"] = s["parents"] + [rng.choice(before)]
    elif field == "prop_value":
        keys = sorted(k for k in s["props"] if k != "branch-nick")
        if not keys:
            return None
        k = rng.choice(keys)
        s["props"][k] = s["props"][k] + " sibling"
    elif field == "prop_name":
        keys = sorted(k for k in s["props"] if k != "branch-nick")
        if not keys:
            return None
        k = rng.choice(keys)
        s["props"][k + "-sib"] = s["props"].pop(k)
    elif field == "prop_add":
        s["props"]["sibling-prop"] = "yes"
    elif field in ("msg_trailing_ws", "msg_leading_ws"):
        lines = s["msg"].split("\n")
        full = [i for i, l in enumerate(lines) if l.strip()]
        if not full:
            return None
        i = rng.choice([full[0], full[-1], rng.choice(full)])
        lines[i] = lines[i] + rng.choice(WS) if field == "msg_trailing_ws" else rng.choice(WS) + lines[i]
        s["msg"] = "\n".join(lines)
    elif field == "msg_blank_line_ws":
        lines = s["msg"].split("\n")
        blank = [i for i, l in enumerate(lines[:-1]) if l == ""]
        if blank:
            lines[rng.choice(blank)] = rng.choice(WS)
        else:
            lines.append(rng.choice(WS))  # a last line made of blanks only
        s["msg"] = "\n".join(lines)
    elif field == "msg_crlf":
        # same lines, other line terminator: the line-based text must stay EQUAL
        at = [i for i, c in enumerate(s["msg"]) if c == "\n" and i + 1 < len(s["msg"]) and s["msg"][i - 1 : i] != "\r"]
        if not at:
            return None
        i = rng.choice(at)
        s["msg"] = s["msg"][:i] + "\r\n" + s["msg"][i + 1 :]
    elif field in ("prop_trailing_ws", "prop_leading_ws"):
        keys = sorted(k for k in s["props"] if k != "branch-nick" and s["props"][k].strip())
        if not keys:
            return None
        k = rng.choice(keys)
        lines = s["props"][k].split("\n")
        i = rng.randrange(len(lines))
        lines[i] = lines[i] + rng.choice(WS) if field == "prop_trailing_ws" else rng.choice(WS) + lines[i]
        s["props"][k] = "\n".join(lines)
    else:
        return None
    if not ft_valid(tree):
        return None
    if s == specs[idx]:
        return None
    return s


def generate(rng, tier):
    g = DagGen(rng, ghosts=rng.choice([0.0, 0.1]))
    specs = g.run(rng.randint(5, 10), merge_p=0.35)
    for s in specs:
        s["committer"] = rng.choice(COMMITTERS[:2] if rng.random() < 0.8 else COMMITTERS)
        if rng.random() < 0.5:
            s["props"]["bugs"] = f"https://example.com/bug/{rng.randint(1, 99)} fixed"
        if rng.random() < 0.2:
            s["props"]["authors"] = "A One <a@x>\nB Two <b@x>"
        if rng.random() < 0.2:
            s["msg"] = s["msg"] + "\nsecond paragraph: ünïcode ☃\n  indented line"
    mh = replay_dag(specs)
    variants = []
    fields = rng.sample(FIELDS, rng.randint(3, 5))
    if "exec" not in fields and rng.random() < 0.3:
        fields[0] = "exec"  # the only perturbation that only the strict classes attest
    for _ in range(rng.choice([0, 1, 1, 2])):
        fields.insert(0, rng.choice(WS_FIELDS))
    fields = fields[:5]
    for field in fields:
        for _ in range(4):
            idx = rng.randrange(len(specs))
            v = perturb(rng, mh, specs, idx, field)
            if v is not None:
                variants.append({"field": field, "idx": idx, "spec": v})
                break
    ops = []
    nspec = len(specs)

    def points():
        return sorted(rng.sample(range(nspec), rng.randint(0, min(3, nspec))))

    for i, fmt in enumerate(NATIVE):
        ops.append({"op": "build", "w": f"n{i}", "fmt": fmt, "variant": None, "pack": points(), "reopen": points(), "final_pack": rng.random() < 0.3})
    for j, v in enumerate(variants):
        ops.append({"op": "build", "w": f"s{j}", "fmt": rng.choice(NATIVE), "variant": j, "pack": points() if rng.random() < 0.3 else [], "reopen": [], "final_pack": rng.random() < 0.2})
    ncopy = rng.randint(1, 2)
    for k in range(ncopy):
        src = rng.randrange(len(NATIVE))
        sfmt = NATIVE[src]
        allowed = [f for f in ["2a", "pack-0.92", "rich-root-pack", "1.9", "1.9-rich-root"] if not (RICH[sfmt] and not RICH[f])]
        ops.append({"op": "copy", "w": f"c{k}", "src": f"n{src}", "fmt": rng.choice(allowed), "order": rng.randrange(1 << 20), "pack": rng.random() < 0.5})
    return {"specs": specs, "variants": variants, "ops": ops}


CLASSES = ["v1", "strict", "strict3"]


def testaments(repo, rids):
    from breezy.bzr.testament import StrictTestament, StrictTestament3, Testament

    out = {}
    cls = {"v1": Testament, "strict": StrictTestament, "strict3": StrictTestament3}
    for rid in rids:
        for name in CLASSES:
            t = cls[name].from_revision(repo, rid.encode())
            out[(rid, name)] = (t.as_text(), t.as_short_text())
    return out


def execute(sim, plan):
    warm()
    sim.disarm()
    world.setup_sim(sim)
    specs = plan["specs"]
    worlds = {}  # name -> dict(fmt, url, mh, rich3, field, kind)
    for op in plan["ops"]:
        w = op["w"]
        if op["op"] == "build":
            wspecs = list(specs)
            field = None
            if op["variant"] is not None:
                if op["variant"] >= len(plan["variants"]):
                    continue
                v = plan["variants"][op["variant"]]
                wspecs[v["idx"]] = v["spec"]
                field = v["field"]
                if field == "parents":
                    # later revisions could get parents that are now redundant (the
                    # working tree would silently drop them): this world ends here
                    wspecs = wspecs[: v["idx"] + 1]
            url = world.new_store(w)
            db = storesim.DagBuilder(url, op["fmt"], "shared", tag=w)
            done = []
            for i, s in enumerate(wspecs):
                have = {d["id"] for d in done}
                if not all(p in have or p in s.get("ghosts", []) for p in s["parents"]):
                    continue
                db.commit(s)
                done.append(s)
                if i in op["pack"]:
                    r = storesim.open_repo(url)
                    with r.lock_write():
                        r.pack()
                if i in op["reopen"]:
                    db.forget()
                    storesim.clear_caches()
            if op["final_pack"]:
                r = storesim.open_repo(url)
                with r.lock_write():
                    r.pack()
            db.forget()
            worlds[w] = {"fmt": op["fmt"], "url": url, "mh": replay_dag(done), "rich3": RICH[op["fmt"]], "field": field, "kind": "sibling" if field else "native"}
            sim.event("built", w, op["fmt"], field or "-", len(done))
        elif op["op"] == "copy":
            src = worlds.get(op["src"])
            if src is None:
                continue
            import random

            url = world.new_store(w)
            storesim.make_shared_repo(url, op["fmt"])
            tgt = storesim.open_repo(url)
            srepo = storesim.open_repo(src["url"])
            order = list(src["mh"].order)
            random.Random(op["order"]).shuffle(order)
            for rid in order[: max(1, len(order) // 2)] + [r for r in src["mh"].order]:
                tgt.fetch(srepo, revision_id=rid.encode())
            if op["pack"]:
                with tgt.lock_write():
                    tgt.pack()
            worlds[w] = {"fmt": op["fmt"], "url": url, "mh": src["mh"], "rich3": RICH[op["fmt"]] and src["rich3"], "field": None, "kind": f"copy-of-{src['fmt']}"}
            sim.event("copied", w, op["src"], op["fmt"])
    storesim.clear_caches()
    # -- collect
    texts = {}
    for w in sorted(worlds):
        info = worlds[w]
        repo = storesim.open_repo(info["url"])
        with repo.lock_read():
            if not info["kind"].startswith("copy"):
                bad = [p for p in storesim.dag_problems(repo, info["mh"], info["mh"].order, per_file=False)]
                if bad:
                    raise RuntimeError(f"world {w}: stored revisions differ from the model (harness precondition): {bad[:2]}")
            try:
                texts[w] = testaments(repo, info["mh"].order)
            except Exception as e:  # noqa: BLE001
                import traceback

                sim.fail("testament_failed", ["testament_failed", info["fmt"], type(e).__name__], f"world {w} ({info['fmt']}, {info['kind']}): {type(e).__name__}: {e}\n{traceback.format_exc()[-1200:]}")
    # -- compare every pair of worlds per (rid, class)
    names = sorted(worlds)
    eq_pairs = 0
    ne_pairs = 0
    cross_eq = 0
    for ai, a in enumerate(names):
        for b in names[ai + 1 :]:
            wa, wb = worlds[a], worlds[b]
            for rid in wa["mh"].order:
                if rid not in wb["mh"].revs:
                    continue
                for cls in CLASSES:
                    if cls == "strict3" and not (wa["rich3"] and wb["rich3"]):
                        continue
                    ta, tb = texts[a][(rid, cls)], texts[b][(rid, cls)]
                    ma, mb = wa["mh"].attested(rid, cls), wb["mh"].attested(rid, cls)
                    fields = "+".join(sorted({f for f in (wa["field"], wb["field"]) if f})) or "-"
                    pair = f"{wa['fmt']}({wa['kind']})|{wb['fmt']}({wb['kind']})"
                    if ma == mb:
                        eq_pairs += 1
                        if wa["fmt"] != wb["fmt"]:
                            cross_eq += 1
                        if ta != tb:
                            which = "text" if ta[0] != tb[0] else "short_text"
                            sim.fail("equal_expected", ["equal_expected", cls, pair, which], f"{rid} class {cls}: same attested data in worlds {a} and {b} ({pair}, perturbed field {fields}) but testaments differ:\n{_diff(ta[0], tb[0])}")
                    else:
                        ne_pairs += 1
                        if ta[0] == tb[0] or ta[1] == tb[1]:
                            what = [i for i, (x, y) in enumerate(zip(ma, mb)) if x != y]
                            sim.fail("differ_expected", ["differ_expected", cls, fields], f"{rid} class {cls}: attested data differs between worlds {a} and {b} ({pair}; perturbed field {fields}; tuple slots {what}) but the testament is identical:\n{ta[0].decode('utf-8', 'replace')[:1500]}")
    for w in names:
        if worlds[w]["field"]:
            sim.probe("sibling_" + worlds[w]["field"])
        sim.probe("world_" + worlds[w]["kind"].split("-of-")[0] + "_" + worlds[w]["fmt"])
    sim.probe("pairs_equal_expected", eq_pairs)
    sim.probe("pairs_differ_expected", ne_pairs)
    sim.probe("pairs_equal_cross_format", cross_eq)
    sim.nontrivial = ne_pairs > 0 and cross_eq > 0
    sim.state_seen((tuple(sorted(w["kind"] + w["fmt"] + str(w["field"]) for w in worlds.values())), len(specs)))


def _diff(a, b):
    import difflib

    la = a.decode("utf-8", "replace").splitlines()
    lb = b.decode("utf-8", "replace").splitlines()
    return "\n".join(list(difflib.unified_diff(la, lb, lineterm="", n=1))[:30])
