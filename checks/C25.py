"""C25 — Log lists the requested history completely and consistently.

One run = one generated DAG history (several lines, merges of merges, merged roots; files
added, modified, renamed and deleted; merge revisions carry the merged side's file
changes as a real merge does) on a simulated store, and a seeded list of LOG REQUESTS
built with breezy.log.make_log_request_dict and run through
_DefaultLogGenerator(branch, **rqst).iter_log_revisions() under a read lock (a fresh
branch object per request, or one object kept locked across requests so that the
revno caches are warm):
direction reverse|forward, levels 0|1|2|3, limit, no range / mainline range a..b (endpoints
written as numbers, negative numbers, last:n, revid:) / open ranges a.. and ..b / a single
mainline or dotted revision / ranges s..d and ..d whose upper limit d is a merged revision
(nested lines: the generator builds lines branched from merged revisions and merges of
merges 2-3 deep), exclude_common_ancestry, specific_files (one or two paths
as they are called at the end of the range), delta_type None|partial|full, and both
file-matching algorithms (per-file graph, delta matching).

Oracle (graph model + the numbers the branch itself reports):
 * unrestricted levels=0 lists every revision of the tip's ancestry exactly once, each
   with the (revno, depth) of Branch.iter_merge_sorted_revisions(); those numbers obey
   the C22 laws;
 * forward order == reverse_by_depth(reverse order) (rule re-implemented here);
 * levels=1 == the model's left-hand history; levels=2 == the revisions of depth < 2;
 * a mainline range a..b denotes ancestry(b) - ancestry(left-hand parent of a)
   (ancestry(b) - ancestry(a) with exclude_common_ancestry) at levels=0 and the
   left-hand slice at levels=1; a single revision d denotes ancestry(d) -
   ancestry(left-hand parent of d) at levels=0 and d itself at levels=1;
 * limit=n yields the first n of the unlimited result;
 * per file: per-file-graph and delta matching list the same MAINLINE revisions, namely
   the mainline revisions of the range whose model tree delta against the left-hand
   parent touches the file id (judged only where every merged change of the file is
   also in the delta of the mainline revision that merged it, no revision of the
   range deletes the file, and every revision in which the commit rule records a new
   per-file version also shows the file in its left-hand delta, and every mainline
   revision that shows the file in its delta either records a per-file version or
   merges one that lies inside the range - otherwise the two definitions legitimately
   differ);
 * every (revision, revno) that log emits equals the branch's own dotted revno, also
   for ranges whose limits are merged revisions on lines branched from merged lines
   (levels=1 there lists exactly the left-hand chain between the limits)."""

import copy

from simkit import findings, world

from . import graphsim, storesim
from .graphsim import NULL, GModel, gen_dag
from .storesim import MHist, replay_model

PROPERTY = "C25"
LEVEL = "exploration"
ISOLATION = "fork"
STEP_CAP = 400000
RULE = (
    "one case = one (generated DAG history with file adds/modifies/renames/deletes and realistic merges) x one seeded "
    "list of log requests (direction, levels, limit, range kind and endpoint spelling, exclude_common_ancestry, "
    "specific files, delta_type, file-matching algorithm, cold or warm branch object); non-trivial = the tip's ancestry "
    "contains merged revisions and at least one request used a range or a file; distinct = distinct event-log "
    "digests of such runs"
)
COMPONENTS = {
    "real": [
        "breezy.log: make_log_request_dict, _DefaultLogGenerator, _calc_view_revisions, _generate_one_revision, _generate_all_revisions, _linear_view_revisions, _graph_view_revisions, _rebase_merge_depth, reverse_by_depth, make_log_rev_iterator, _generate_deltas, _update_files, _filter_revisions_touching_path, _get_revision_limits",
        "breezy.branch.Branch.iter_merge_sorted_revisions and dotted-revno caches, breezy.revisionspec, breezy.builtins._get_revision_range",
        "Repository.get_revision_deltas / InterTree.compare / find_source_paths, the per-file graph of the real commit (texts index)",
    ],
    "simulated": ["disk (SimTransport over the memory transport)", "clock of breezy.lockdir"],
    "stub": ["UI", "log formatters are not used: LogRevision objects are read directly"],
}
ASSUMPTIONS = [
    "merge revisions are built as first-parent tree + actions; the generator makes those actions repeat the merged side's file changes (modify / add with the same file id / delete) where the tree allows it",
    "files are named by the path they have at the end of the range (as the command line does); directories are never renamed, so a file's path changes only by its own rename",
    "per-file judgement only where the model says the two definitions coincide (see docstring); merged (non-mainline) revisions of per-file logs are not compared",
    "levels=2 and depth comparison are not judged for single dotted revisions (depths are rebased there); for ranges whose upper limit is a merged revision, depths and forward order are not judged, and with levels>=2 the forward listing is only required to stay inside the range (depth rebasing differs by direction, so the level filter may hide the upper limit in forward order while reverse order shows it at depth 0)",
]


def warm():
    storesim.warm()
    import random

    import breezy.builtins  # noqa: F401
    import breezy.log  # noqa: F401
    import breezy.option  # noqa: F401
    import breezy.revisionspec  # noqa: F401
    import breezy.tag  # noqa: F401
    from simkit.sim import Sim, Violation

    global _warmed
    if _warmed:
        return
    for seed in (5, 6):
        rng = random.Random(seed)
        plan = generate(rng, "quick")
        sim = Sim(0, plan, step_cap=STEP_CAP)
        sim.tier = "quick"
        try:
            execute(sim, plan)
        except Violation:
            pass
        finally:
            world.reset_stores()
    _warmed = True


_warmed = False


def config(tier):
    if tier == "thorough":
        return {"budget_s": 700, "run_timeout": 180, "selftest": 12}
    return {"budget_s": 50, "run_timeout": 180, "selftest": 6}


# ------------------------------------------------------------------------------------
# generation


def _endpoint_spelling(rng, k, n, rid):
    r = rng.random()
    if r < 0.4:
        return str(k)
    if r < 0.6:
        return str(k - n - 1)  # negative number
    if r < 0.8:
        return f"last:{n - k + 1}"
    return f"revid:{rid}"


def generate(rng, tier):
    fmt = rng.choice(storesim.FORMATS + ["2a"])
    mh = MHist()
    n = rng.randint(4, 16)
    pre, lines = [], None
    if rng.random() < 0.55:
        # lines branched from merged (non-mainline) revisions, merges of merges: nesting 2-3 deep
        pre, lines = graphsim.gen_nested_prefix(rng, mh, "g", depth=rng.choice([2, 2, 3]), realistic=True)
        n = max(1, n - len(pre))
        if rng.random() < 0.4:
            n = rng.randint(0, 2)
    specs, lines = gen_dag(
        rng,
        mh,
        n,
        "g",
        lines=lines,
        max_lines=rng.choice([2, 3, 3, 4]),
        p_merge=rng.choice([0.3, 0.45, 0.55]),
        p_fork=rng.choice([0.1, 0.2]),
        p_root=rng.choice([0.0, 0.0, 0.06]),
        p_ghost=rng.choice([0.0, 0.0, 0.05]),
        realistic=True,
    )
    specs = pre + specs
    gm = GModel(mh)
    by_size = sorted(lines, key=lambda t: (-len(gm.ancestry(t)), t))
    tip = by_size[0] if rng.random() < 0.8 else rng.choice(lines)
    lh = gm.lefthand(tip)
    nlh = len(lh)
    anc = sorted(gm.ancestry(tip), key=graphsim._natkey)
    merged = [r for r in anc if r not in set(lh)]
    tags = {}
    for i in range(rng.randint(0, 2)):
        tags[f"t{i + 1}"] = rng.choice(anc)
    # file ids that exist as files somewhere in the tip's ancestry
    fids = sorted({v[0] for r in anc for v in mh.tree(r).values() if v[1] == "file"})
    ops = []
    for _ in range(rng.randint(4, 10)):
        rq = {"dir": rng.choice(["reverse", "reverse", "forward"]), "levels": rng.choice([0, 0, 1, 1, 2, 2, 3]), "limit": None, "range": ["none"], "eca": False, "files": [], "delta": None, "pfg": False, "warm": rng.random() < 0.5}
        r = rng.random()
        if r < 0.35 and nlh >= 1:
            a = rng.randint(1, nlh)
            b = rng.randint(a, nlh)
            rq["range"] = ["mainline", _endpoint_spelling(rng, a, nlh, lh[a - 1]), _endpoint_spelling(rng, b, nlh, lh[b - 1]), a, b]
            if a != b and rng.random() < 0.25:
                rq["eca"] = True
        elif r < 0.45:
            a = rng.randint(1, nlh)
            rq["range"] = ["from", _endpoint_spelling(rng, a, nlh, lh[a - 1]), a]
        elif r < 0.55:
            b = rng.randint(1, nlh)
            rq["range"] = ["upto", _endpoint_spelling(rng, b, nlh, lh[b - 1]), b]
        elif r < 0.70:
            d = rng.choice(merged) if merged and rng.random() < 0.75 else rng.choice(lh)
            rq["range"] = ["single", d, rng.choice(["dotted", "dotted", "revid"])]
            if rq["levels"] >= 2:
                rq["levels"] = rng.choice([0, 1])
        elif r < 0.88 and merged:
            # a range whose upper limit is a merged revision (preferably on a line that was
            # branched from another merged revision); lower limit: none or one of its
            # left-hand ancestors (merged or mainline)
            deep = [x for x in merged if gm.lh_parent(x) is not None and gm.lh_parent(x) not in lh and len(gm.lefthand(x)) >= 2]
            d = rng.choice(deep) if deep and rng.random() < 0.7 else rng.choice(merged)
            chain = gm.lefthand(d)
            s_ = None if rng.random() < 0.35 else rng.choice(chain)
            rq["range"] = ["dotted", s_, d, rng.choice(["dotted", "dotted", "revid"])]
            rq["levels"] = rng.choice([1, 1, 0, 0, 2])
        if rng.random() < (0.55 if rq["levels"] >= 2 else 0.3):
            rq["limit"] = rng.randint(1, max(1, len(anc)))
        if fids and rq["range"][0] != "dotted" and rng.random() < 0.4:
            rq["files"] = [rng.choice(fids)]
            if rng.random() < 0.2 and len(fids) > 1:
                rq["files"].append(rng.choice([f for f in fids if f != rq["files"][0]]))
            rq["delta"] = rng.choice([None, None, None, "partial", "full"])
            rq["pfg"] = len(rq["files"]) == 1 and rq["delta"] is None and rng.random() < 0.6
            if rq["dir"] == "forward" and rng.random() < 0.6:
                rq["dir"] = "reverse"
        elif rng.random() < 0.15:
            rq["delta"] = rng.choice(["partial", "full"])
        ops.append(rq)
    return {"fmt": fmt, "specs": specs, "main": tip, "tags": tags, "ops": ops}


# ------------------------------------------------------------------------------------
# the documented ordering rule, re-implemented


def reverse_by_depth_rule(items, depth=0):
    """items = [(id, depth)], newest first.  Each revision of the current depth heads a
    chunk with the deeper revisions that follow it; chunks are reversed, the deeper part
    of each chunk is reversed by the same rule."""
    chunks = []
    lead = []  # deeper revisions before any revision of this depth (cannot be attached)
    for it in items:
        if it[1] == depth:
            chunks.append([it])
        elif chunks:
            chunks[-1].append(it)
        else:
            lead.append(it)
    out = []
    for ch in reversed(chunks):
        out.append(ch[0])
        if len(ch) > 1:
            out.extend(reverse_by_depth_rule(ch[1:], depth + 1))
    if lead:
        out.extend(reverse_by_depth_rule(lead, depth + 1))
    return out


# ------------------------------------------------------------------------------------
# execution


def execute(sim, plan):
    from breezy import builtins, errors, log, option

    storesim.warm()
    sim.disarm()
    world.setup_sim(sim)
    known = findings.load(PROPERTY)
    fmt = plan["fmt"]
    mh = replay_model(plan["specs"])
    tip = plan["main"]
    if tip not in mh.revs:
        return
    gm = GModel(mh)
    url = world.new_store("repo")
    storesim.make_shared_repo(url, fmt)
    build = storesim.make_branch(url + "build", fmt)
    graphsim.build_dag(build, plan["specs"])
    del build
    url_main = url + "main"
    mb = storesim.make_branch(url_main, fmt)
    graphsim.point_branch(mb, gm, tip)
    tags = {k: v for k, v in plan.get("tags", {}).items() if v in mh.revs}
    for name, rid in sorted(tags.items()):
        mb.tags.set_tag(name, rid.encode())
    del mb
    lh = gm.lefthand(tip)
    nlh = len(lh)
    anc = gm.ancestry(tip)

    def deviation(oracle, site, detail):
        sig = [oracle, "none", site]
        if findings.match(known, sig) is not None:
            kn = sim.notes.setdefault("known", [])
            if sig not in kn:
                kn.append(sig)
            sim.probe("known_" + oracle)
            return True
        sim.fail(oracle, sig, detail)

    # reference numbers: what the branch itself reports, checked against the laws
    b0 = storesim.open_branch(url_main)
    with b0.lock_read():
        ims = [(r.decode(), d, tuple(v)) for r, d, v, e in b0.iter_merge_sorted_revisions()]
    M = {r: v for r, d, v in ims}
    D = {r: d for r, d, v in ims}
    for law, detail in graphsim.revno_law_problems(gm, tip, M):
        sim.fail("laws", ["laws", "none", law], f"{law}: {detail}; tip={tip} lh={lh}")
    for r, d in D.items():
        if (d == 0) != (r in lh):
            sim.fail("laws", ["laws", "none", "depth0"], f"iter_merge_sorted_revisions gives depth {d} to {r}; left-hand history {lh}")
    has_merged = any(len(v) == 3 for v in M.values())
    revstr = {r: ".".join(map(str, v)) for r, v in M.items()}

    shared = {"b": None}

    def branch_for(rq):
        if rq.get("warm"):
            if shared["b"] is None:
                shared["b"] = storesim.open_branch(url_main)
                shared["b"].lock_read()
            return shared["b"], False
        b = storesim.open_branch(url_main)
        b.lock_read()
        return b, True

    def run_log(b, rq, rev1, rev2, paths, direction, limit, pfg=None):
        rqst = log.make_log_request_dict(
            direction=direction,
            specific_files=paths or None,
            start_revision=rev1,
            end_revision=rev2,
            limit=limit,
            levels=rq["levels"],
            delta_type=rq["delta"],
            _match_using_deltas=not (rq["pfg"] if pfg is None else pfg),
            exclude_common_ancestry=rq["eca"],
        )
        gen = log._DefaultLogGenerator(b, **rqst)
        out = []
        for lr in gen.iter_log_revisions():
            out.append((lr.rev.revision_id.decode(), lr.revno, lr.merge_depth, lr.delta is not None, sorted(lr.tags or [])))
        return out

    def denote(rq):
        """(set of revisions at levels=0, exact sequence at levels=1 or None, end revision, judge depth?)"""
        kind = rq["range"][0]
        if kind == "none":
            return set(anc), list(reversed(lh)), tip, True
        if kind == "mainline":
            a, bq = rq["range"][3], rq["range"][4]
            ra, rb = lh[a - 1], lh[bq - 1]
            if rq["eca"]:
                s0 = set(gm.ancestry(rb) - gm.ancestry(ra))
                seq = list(reversed(lh[a:bq]))
            else:
                s0 = set(gm.ancestry(rb) - gm.ancestry(gm.lh_parent(ra)))
                seq = list(reversed(lh[a - 1 : bq]))
            return s0, seq, rb, True
        if kind == "from":
            a = rq["range"][2]
            ra = lh[a - 1]
            return set(anc - gm.ancestry(gm.lh_parent(ra))), list(reversed(lh[a - 1 :])), tip, True
        if kind == "upto":
            bq = rq["range"][2]
            rb = lh[bq - 1]
            return set(gm.ancestry(rb)), list(reversed(lh[:bq])), rb, True
        if kind == "single":
            d = rq["range"][1]
            return set(gm.ancestry(d) - gm.ancestry(gm.lh_parent(d))), [d], d, d in lh
        if kind == "dotted":
            s_, d = rq["range"][1], rq["range"][2]
            chain = list(reversed(gm.lefthand(d)))  # newest first
            if s_ is not None:
                chain = chain[: chain.index(s_) + 1]
                s0 = set(gm.ancestry(d) - gm.ancestry(gm.lh_parent(s_)))
            else:
                s0 = set(gm.ancestry(d))
            return s0, chain, d, False
        raise ValueError(rq)

    def endpoints(b, rq):
        kind = rq["range"][0]
        if kind == "none":
            return None, None, "-"
        if kind == "mainline":
            text = f"{rq['range'][1]}..{rq['range'][2]}"
        elif kind == "from":
            text = f"{rq['range'][1]}.."
        elif kind == "upto":
            text = f"..{rq['range'][1]}"
        elif kind == "dotted":
            s_, d, how = rq["range"][1], rq["range"][2], rq["range"][3]
            name = (lambda r: revstr[r]) if how == "dotted" else (lambda r: f"revid:{r}")
            text = f"{name(s_) if s_ is not None else ''}..{name(d)}"
        else:
            d = rq["range"][1]
            text = revstr[d] if rq["range"][2] == "dotted" else f"revid:{d}"
        specs = option._parse_revision_str(text)
        rev1, rev2 = builtins._get_revision_range(specs, b, "log")
        return rev1, rev2, text

    def valid(rq):
        kind = rq["range"][0]
        if kind == "mainline":
            return 1 <= rq["range"][3] <= rq["range"][4] <= nlh and not (rq["eca"] and rq["range"][3] == rq["range"][4])
        if kind in ("from", "upto"):
            return 1 <= rq["range"][2] <= nlh
        if kind == "single":
            return rq["range"][1] in M
        if kind == "dotted":
            s_, d = rq["range"][1], rq["range"][2]
            return d in M and d not in lh and (s_ is None or s_ in gm.lefthand(d))
        return True

    def judge_files(rq, paths, s0, rev_full, fwd_full, where, site_kind, call):
        fids = rq["files"]
        algo = "per-file-graph" if rq["pfg"] else "delta-matching"
        view_main = [m for m in lh if m in s0]
        if not view_main or (rq["range"][0] == "single" and rq["range"][1] not in lh):
            # a merged revision alone: the view is that revision plus what the merge sort nests under
            # it; mainline revisions are not part of it even when they are among its ancestors
            return
        present = {r: {v[0] for v in mh.tree(r).values()} for r in s0}
        T = {r for r in s0 if any(f in gm.touched(r) for f in fids)}
        deletes = sorted(r for r in T if any(f in gm.touched(r) and f not in present[r] for f in fids))
        unfaithful = sorted(r for r in T if gm.merger(r, tip) not in T)
        E1 = [m for m in view_main if m in T]
        # revisions in which the commit rule records a new per-file version although the tree delta
        # against the left-hand parent does not show the file: e.g. a merge that keeps its own
        # name/text of a file the other side changed.  There per-file history and tree comparison
        # legitimately differ.  (The reverse - a merge whose left-hand delta shows the file while the
        # version is carried over from the merged side - is the normal case of a merged change.)
        pf = set()
        for f in fids:
            pf |= graphsim.perfile_nodes(mh, tip, f) & s0
        if pf - T:
            unfaithful = unfaithful or sorted(pf - T)
        # a mainline revision whose delta shows the file while it carries a per-file version over from
        # the merged side is listed by the per-file graph only as the merger of a per-file node INSIDE the
        # range; when the carried version is older than the range (file deleted on the mainline and brought
        # back by merging an old line) the per-file graph has nothing to show for it
        node_mergers = {gm.merger(x, tip) for x in pf}
        carried_from_outside = sorted(m for m in E1 if m not in pf and m not in node_mergers)
        if carried_from_outside:
            unfaithful = unfaithful or carried_from_outside
        if deletes or unfaithful:
            sim.probe("perfile_not_judged")
            return
        sim.probe("perfile_judged")

        def mainline_of(got):
            return [g[0] for g in got if g[0] in lh]

        shape = "mainline-only" if (rq["levels"] == 1 or s0 <= set(lh)) else "with-merged-lines"
        if isinstance(rev_full, Exception):
            deviation("perfile_failed", f"{algo}:reverse:{type(rev_full).__name__}:{shape}", f"log {where} raised {type(rev_full).__name__}: {rev_full}; touching revisions per model: {sorted(T, key=graphsim._natkey)}")
            return
        got = mainline_of(rev_full)
        order = {r: i for i, (r, d, v) in enumerate(ims)}

        def side_add_before(missing):
            """A revision of a merged line that receives the file (absent in its left-hand parent)
            and is listed, in merge-sorted order, before every missing mainline revision."""
            for r in sorted(T, key=lambda x: order[x]):
                if r in lh:
                    continue
                p = gm.lh_parent(r)
                before = {v[0] for v in mh.tree(p).values()} if p in mh.revs else set()
                if any(f in gm.touched(r) and f not in before for f in fids) and all(order[r] < order[m] for m in missing):
                    return r
            return None

        def r_path(r):
            t = mh.tree(r)
            return {f: next((p for p, v in t.items() if v[0] == f), None) for f in fids}

        def cross_line_path():
            """A merged (non-mainline) revision of the view in which a logged file has another
            path than in the mainline revision that merged it."""
            main_paths = {f: {r_path(m)[f] for m in view_main} - {None} for f in fids}
            for r in sorted(s0, key=lambda x: order[x]):
                if r in lh:
                    continue
                m = gm.merger(r, tip)
                pr, pm = r_path(r), r_path(m)
                if any(pr[f] is not None and pm[f] is not None and pr[f] != pm[f] for f in fids):
                    return r
                # or the path the file has on the mainline names ANOTHER file in the merged revision
                t = mh.tree(r)
                if any(p in t and t[p][0] != f for f in fids for p in main_paths[f]):
                    return r
            return None

        def mismatch(name, lst):
            missing = [m for m in E1 if m not in lst]
            extra = [m for m in lst if m not in E1]
            text = f"log {where} ({name}, reverse) lists mainline revisions {lst}; the mainline revisions of the range whose tree delta touches {fids} are {list(reversed(E1))} (all touching revisions: {sorted(T, key=graphsim._natkey)})"
            if name == "delta-matching" and rq["levels"] != 1:
                r = cross_line_path()
                if r is not None:
                    deviation("perfile", "delta-matching:path-differs-on-merged-line", text + f"; in merged revision {r} the file is called {r_path(r)} (or is absent) while the mainline revision that merged it calls it differently - paths are followed in merge-sorted order")
                    return
                r = side_add_before(missing) if (missing and not extra) else None
                if r is not None:
                    deviation("perfile", "delta-matching:stops-at-add-on-merged-line", text + f"; {r} (merged line) receives the file and ends the search before {missing} is reached")
                    return
            sim.fail("perfile", ["perfile", "none", f"{name}:{site_kind}:levels{rq['levels']}"], text)

        if sorted(got) != sorted(E1):
            mismatch(algo, got)
        # the other algorithm, same request
        if len(paths) == 1 and rq["delta"] is None:
            other = call("reverse", None, pfg=not rq["pfg"])
            oname = "delta-matching" if rq["pfg"] else "per-file-graph"
            if isinstance(other, Exception):
                deviation("perfile_failed", f"{oname}:reverse:{type(other).__name__}:{shape}", f"log {where} by {oname} raised {type(other).__name__}: {other}; touching revisions per model: {sorted(T, key=graphsim._natkey)}")
            elif sorted(mainline_of(other)) != sorted(E1):
                mismatch(oname, mainline_of(other))
        if fwd_full is not None:
            if isinstance(fwd_full, Exception):
                deviation("perfile_forward", f"{algo}:{type(fwd_full).__name__}", f"log {where} (forward, {algo}) raised {type(fwd_full).__name__}: {fwd_full}; the reverse log lists mainline {got}")
            elif sorted(mainline_of(fwd_full)) != sorted(got):
                # forward is a re-ordering of reverse; what reverse itself lists is judged above
                deviation("perfile_forward", f"{algo}:mainline-set", f"log {where} (forward, {algo}) lists mainline {mainline_of(fwd_full)}; the reverse log lists {got}; touching mainline revisions are {E1}")

    nontrivial = False
    try:
        for rq in plan["ops"]:
            if not valid(rq):
                continue
            s0, seq1, endrev, judge_depth = denote(rq)
            levels = rq["levels"]
            # file ids -> paths at the end of the range
            paths = []
            endtree = mh.tree(endrev)
            byid = {v[0]: p for p, v in endtree.items()}
            skip = False
            for fid in rq["files"]:
                if fid not in byid or endtree[byid[fid]][1] != "file":
                    skip = True
                paths.append(byid.get(fid))
            if skip:
                continue
            b, own = branch_for(rq)
            try:
                rev1, rev2, text = endpoints(b, rq)
                where = f"range={text} levels={levels} dir={rq['dir']} limit={rq['limit']} files={paths} delta={rq['delta']} per-file-graph={rq['pfg']} eca={rq['eca']} warm={bool(rq.get('warm'))}"
                sim.event("log", where)
                site_kind = rq["range"][0] + ("+eca" if rq["eca"] else "")
                if rq["range"][0] != "none" or paths:
                    nontrivial = True

                def call(direction, limit, pfg=None):
                    try:
                        return run_log(b, rq, rev1, rev2, paths, direction, limit, pfg)
                    except Exception as e:  # noqa: BLE001
                        return e

                rev_full = call("reverse", None)
                fwd_full = call("forward", None) if (rq["dir"] == "forward" or not paths) else None
                if paths:
                    judge_files(rq, paths, s0, rev_full, fwd_full, where, site_kind, call)
                else:
                    for direction, got in (("reverse", rev_full), ("forward", fwd_full)):
                        if isinstance(got, Exception):
                            sim.fail("log_failed", ["log_failed", "none", f"{site_kind}:levels{levels}:{direction}:{type(got).__name__}"], f"log {where} ({direction}) raised {type(got).__name__}: {got}")
                    # completeness / denotation
                    for direction, got in (("reverse", rev_full), ("forward", fwd_full)):
                        ids = [g[0] for g in got]
                        if levels == 1:
                            want_seq = seq1 if direction == "reverse" else list(reversed(seq1))
                            if ids != want_seq:
                                sim.fail("denotes", ["denotes", "none", f"{site_kind}:levels1:{direction}"], f"log {where} ({direction}) lists {ids}; the range denotes exactly {want_seq}")
                        else:
                            want = set(s0) if levels == 0 else {r for r in s0 if D[r] < levels}
                            if rq["range"][0] == "single" and rq["range"][1] not in lh:
                                # a merged revision: it must be listed (first in reverse order), together with
                                # nothing but revisions it brought in
                                want = None
                                d = rq["range"][1]
                                if d not in ids or (direction == "reverse" and ids[0] != d) or not set(ids) <= s0 or len(ids) != len(set(ids)):
                                    sim.fail("denotes", ["denotes", "none", f"single-merged:levels{levels}:{direction}"], f"log {where} ({direction}) lists {ids}; the revision {d} denotes itself plus revisions among {sorted(s0, key=graphsim._natkey)}")
                            elif rq["range"][0] == "single" and levels != 0:
                                want = None
                            elif rq["range"][0] == "dotted":
                                # upper limit on a merged line: it heads the reverse listing, the lower limit
                                # (when every level is shown) is listed, nothing outside the range, nothing twice
                                want = None
                                s_, d = rq["range"][1], rq["range"][2]
                                # which revisions levels>=2 hides depends on depths, and depths of such a range are
                                # rebased differently in the two directions (reverse shows the upper limit at depth 0,
                                # forward keeps branch depths when the lower limit is on the mainline): forward with
                                # levels>=2 is only required to stay inside the range
                                need_d = levels in (0, 1) or direction == "reverse"
                                if (need_d and d not in ids) or (direction == "reverse" and ids[0] != d) or (levels == 0 and s_ is not None and s_ not in ids) or not set(ids) <= s0 or len(ids) != len(set(ids)):
                                    sim.fail("denotes", ["denotes", "none", f"dotted-range:levels{levels}:{direction}"], f"log {where} ({direction}) lists {ids}; the range starts at {s_}, ends at {d} and denotes revisions among {sorted(s0, key=graphsim._natkey)}")
                            if want is not None and (sorted(ids) != sorted(want)):
                                sim.fail("denotes", ["denotes", "none", f"{site_kind}:levels{levels}:{direction}"], f"log {where} ({direction}) lists {ids}; the range denotes {sorted(want, key=graphsim._natkey)} (extra={sorted(set(ids) - want)} missing={sorted(want - set(ids))} duplicates={len(ids) - len(set(ids))})")
                        for rid, revno, depth, hasdelta, tg in got:
                            if revno != revstr.get(rid):
                                sim.fail("numbers", ["numbers", "none", f"revno:{site_kind}:{direction}"], f"log {where} ({direction}) shows {rid} as revno {revno}; the branch numbers it {revstr.get(rid)}")
                            if judge_depth and depth != D.get(rid):
                                sim.fail("numbers", ["numbers", "none", f"depth:{site_kind}:{direction}"], f"log {where} ({direction}) shows {rid} at depth {depth}; iter_merge_sorted_revisions says {D.get(rid)}")
                            want_tags = sorted(t for t, r in tags.items() if r == rid)
                            if tg != want_tags:
                                sim.fail("numbers", ["numbers", "none", f"tags:{site_kind}"], f"log {where} shows tags {tg} for {rid}; the branch has {want_tags}")
                            if (rq["delta"] is not None) != hasdelta:
                                sim.fail("numbers", ["numbers", "none", f"delta:{site_kind}"], f"log {where}: delta_type={rq['delta']} but delta present={hasdelta} for {rid}")
                    # ordering
                    want_fwd = [i for i, d in reverse_by_depth_rule([(g[0], g[2]) for g in rev_full])]
                    if rq["range"][0] != "dotted" and [g[0] for g in fwd_full] != want_fwd:
                        sim.fail("order", ["order", "none", f"{site_kind}:levels{levels}"], f"log {where}: forward order {[g[0] for g in fwd_full]} is not reverse_by_depth of the reverse order {[(g[0], g[2]) for g in rev_full]} = {want_fwd}")
                # limit
                if rq["limit"] or (levels >= 2 and not paths):
                    full = rev_full if rq["dir"] == "reverse" else fwd_full
                    lims = {rq["limit"], max(1, rq["limit"] // 2), rq["limit"] + 2} if rq["limit"] else set()
                    if levels >= 2 and not paths:
                        lims |= set(range(1, 9))  # the level filter and the limit meet here
                    for n_lim in sorted(lims):
                        lim = call(rq["dir"], n_lim)
                        if full is not None and not isinstance(full, Exception):
                            if isinstance(lim, Exception):
                                sim.fail("log_failed", ["log_failed", "none", f"limit:{site_kind}:{type(lim).__name__}"], f"log {where} with limit={n_lim} raised {type(lim).__name__}: {lim}")
                            if [g[:3] for g in lim] != [g[:3] for g in full[:n_lim]]:
                                sim.fail("limit", ["limit", "none", f"{site_kind}:levels{levels}:{rq['dir']}:{'files' if paths else 'all'}"], f"log {where}: limit={n_lim} gives {[g[:3] for g in lim]}; the unlimited result starts {[g[:3] for g in full[: n_lim + 1]]}")
                sim.probe("req_" + rq["range"][0] + ("_files" if paths else ""))
                sim.state_seen((site_kind, levels, rq["dir"], bool(rq["limit"]), len(paths), rq["delta"], rq["pfg"]))
            finally:
                if own:
                    b.unlock()
    finally:
        if shared["b"] is not None:
            try:
                shared["b"].unlock()
            except Exception:  # noqa: BLE001
                if sim.violation is None:
                    raise
    sim.nontrivial = nontrivial and has_merged



# ------------------------------------------------------------------------------------
# shrinking


def shrink_candidates(plan):
    from simkit.shrink import generic_candidates

    yield from generic_candidates(plan)
    yield from graphsim.dag_shrinks(plan, tips=("main",))
    for i, rq in enumerate(plan["ops"]):
        for key, val in (("limit", None), ("warm", False), ("delta", None), ("dir", "reverse")):
            if rq.get(key) != val:
                p = copy.deepcopy(plan)
                p["ops"][i][key] = val
                yield p
    if plan.get("tags"):
        p = copy.deepcopy(plan)
        p["tags"] = {}
        yield p
