"""histsim: generated histories with exec bits, symlinks, binary files, kind changes,
swaps and merges (C40, C43, C44, C52), committed through a REAL working tree on disk.

Pure part (no breezy imports): `Hist` (revision DAG with one tree per revision),
`apply_actions`, `gen_spec`, `gen_history`.

A tree is {path: [file_id, kind, data, exec]}; "" is the root.  kind is "file" |
"directory" | "symlink"; data is the content of a file as a latin-1 string (so that a
plan stays JSON-able and byte-exact), the target of a symlink, None for a directory.

Actions (applied in order):
  ["add", path, fid, kind, data, exec]      ["modify", path, data]
  ["chmod", path, exec]                      ["remove", path]   (path and all below)
  ["rename", old, new]                       ["swap", a, b]     (ids follow the content)
  ["retype", path, kind, data, exec]         (kind change, same file id; no children)

Real part: `Builder(tree)` applies the actions of one spec to the files on disk and to
the working tree and commits with explicit revision id / timestamp / committer.
`tree_state(tree)` reads any breezy tree back into the model's shape."""

import os
import posixpath
import shutil

ROOT_ID = "TREE_ROOT"
FILE, DIR, LINK = "file", "directory", "symlink"
COMMITTERS = [
    "Sim User <sim@example.com>",
    "Ann Other <ann@example.org>",
    "joe@example.net",
    "Jürgen Müller <jm@example.de>",
    "No Mail",
]
TIMEZONES = [0, 0, 3600, -18000, 19800, 20700, -34200]
NAMES = ["a", "b", "c", "d", "e", "f"]
ODD_NAMES = ["sp ace", "x+y", "q'uote", "café"]

DEFAULT_OPTS = {
    "symlinks": True,
    "exec": True,
    "binary": True,
    "retype": True,
    "retype_to_dir": True,
    "rename_full_dirs": True,
    "renames": True,
    "rename_chmod": True,  # a rename may flip the exec bit with unchanged text
    "reuse_paths": False,  # rename X away / delete non-empty dir X and add a NEW directory at X
    "swap_full_dirs": True,
    "neg_half_tz": True,
    "inside_links": False,  # symlink targets never leave the directory of the link
    "swap": True,
    "odd_names": False,
    "big": True,
    "msgs": "rich",  # rich | plain
    "committers": True,
    "tz": True,
    "props": False,
    "authors": False,
}


# ------------------------------------------------------------------------------------
# model


def inside(d, p):
    return d == "" or p == d or p.startswith(d + "/")


def parent(p):
    return posixpath.dirname(p)


def apply_actions(tree, actions):
    tree = {p: list(v) for p, v in tree.items()}
    for act in actions:
        k = act[0]
        if k == "add":
            _, path, fid, kind, data, ex = act
            tree[path] = [fid, kind, data, bool(ex)]
        elif k == "modify":
            tree[act[1]][2] = act[2]
        elif k == "chmod":
            tree[act[1]][3] = bool(act[2])
        elif k == "remove":
            for p in [p for p in tree if inside(act[1], p)]:
                del tree[p]
        elif k == "rename":
            _, old, new = act
            moved = {}
            for p in list(tree):
                if inside(old, p):
                    moved[new + p[len(old) :]] = tree.pop(p)
            tree.update(moved)
        elif k == "swap":
            _, a, b = act
            ma = {p: tree.pop(p) for p in list(tree) if inside(a, p)}
            mb = {p: tree.pop(p) for p in list(tree) if inside(b, p)}
            for p, v in ma.items():
                tree[b + p[len(a) :]] = v
            for p, v in mb.items():
                tree[a + p[len(b) :]] = v
        elif k == "retype":
            _, path, kind, data, ex = act
            tree[path] = [tree[path][0], kind, data, bool(ex)]
        else:
            raise ValueError(k)
    return tree


class Hist:
    """revid -> spec (+ "tree").  Specs: {"id", "parents", "actions", "ts", "tz", "msg",
    "committer", "props"?, "authors"?}."""

    def __init__(self):
        self.revs = {}
        self.order = []
        self.nfid = 0
        self.ncontent = 0

    def tree(self, rid):
        return self.revs[rid]["tree"] if rid else {}

    def add(self, spec):
        base = self.tree(spec["parents"][0]) if spec["parents"] else {}
        r = dict(spec)
        r["tree"] = apply_actions(base, spec["actions"])
        self.revs[spec["id"]] = r
        self.order.append(spec["id"])

    def ancestry(self, rid):
        seen = set()
        todo = [rid]
        while todo:
            r = todo.pop()
            if not r or r in seen or r not in self.revs:
                continue
            seen.add(r)
            todo.extend(self.revs[r]["parents"])
        return seen

    def lefthand(self, rid):
        out = []
        while rid:
            out.append(rid)
            ps = self.revs[rid]["parents"]
            rid = ps[0] if ps else None
        return out[::-1]


def replay(specs):
    h = Hist()
    for s in specs:
        h.add(s)
    return h


def _text(rng, mh, opts, old=None):
    """File content as a latin-1 string; its length differs from len(old)."""
    mh.ncontent += 1
    r = rng.random()
    sizes = [0, 1, 5, 20, 20, 60, 60, 300, 1200]
    if opts.get("big"):
        sizes.append(7000)
    n = rng.choice(sizes)
    if opts.get("binary") and r < 0.25:
        alphabet = "\x00\x01\r\n\xff\xfeab \x7f\x1b"
        body = "".join(rng.choice(alphabet) for _ in range(n))
    elif r < 0.4:
        # text without trailing newline / with CRLF / with lines that look like patch or
        # bundle syntax
        pieces = ["--- a\n", "+++ b\n", "@@ -1 +1 @@\n", "# Bazaar revision bundle v4\n", "=== modified file 'a'\n", "\\ No newline at end of file\n", "line\r\n", "plain\n", "#\n", "...\n", "   \n", "from :1\n", "data 5\n"]
        body = "".join(rng.choice(pieces) for _ in range(max(1, n // 8)))
        if rng.random() < 0.5:
            body = body.rstrip("\n")
    else:
        body = "".join(rng.choice("ab\n xyz") for _ in range(n))
        if n and rng.random() < 0.6:
            body += "\n"
    s = f"c{mh.ncontent}:" + body if rng.random() < 0.8 or not body else body
    if old is not None:
        while len(s) == len(old) or s == old:
            s += "+"
    return s


def _target(rng, mh, opts=None):
    mh.ncontent += 1
    if opts and opts.get("inside_links"):
        return rng.choice(["nowhere-%d", "dir/sub-%d", "t%d"]) % mh.ncontent
    return rng.choice(["nowhere-%d", "../out-%d", "dir/sub-%d", "t%d"]) % mh.ncontent


def _message(rng, rid, opts):
    if opts.get("msgs") != "rich":
        return f"commit {rid}"
    r = rng.random()
    if r < 0.4:
        return f"commit {rid}"
    if r < 0.55:
        return f"commit {rid}\n\nsecond paragraph\n  indented\n"
    if r < 0.65:
        return f"ümläut {rid} ☃"
    if r < 0.75:
        return f"trailing space {rid}   \n\n"
    if r < 0.85:
        return f"from :1\nmark :2\ndata 3\n{rid}"
    if r < 0.92:
        return f"  leading {rid}"
    return f"# Begin bundle\n{rid} === added file 'x'"


def gen_spec(rng, mh, rid, parents, ts, opts, nchanges=None, merge_tree=None):
    """One revision on top of parents[0] (None = root revision).  Pure."""
    o = dict(DEFAULT_OPTS)
    o.update(opts or {})
    base = mh.tree(parents[0]) if parents and parents[0] else {}
    tree = {p: list(v) for p, v in base.items()}
    actions = []

    def do(act):
        nonlocal tree
        actions.append(act)
        tree = apply_actions(tree, [act])

    if "" not in tree:
        do(["add", "", ROOT_ID, DIR, None, False])
    # bring in some of what the merged line did
    if merge_tree:
        have = {v[0]: p for p, v in tree.items()}
        n_in = 0
        for p in sorted(merge_tree):
            v = merge_tree[p]
            if n_in >= 4:
                break
            if v[0] not in have:
                if p not in tree and parent(p) in tree and tree[parent(p)][1] == DIR and rng.random() < 0.8:
                    do(["add", p, v[0], v[1], v[2], v[3]])
                    have[v[0]] = p
                    n_in += 1
            else:
                q = have[v[0]]
                mine = tree[q]
                if mine[1] == v[1] and v[1] in (FILE, LINK) and mine[2] != v[2] and rng.random() < 0.6:
                    if v[1] == FILE and len(mine[2]) == len(v[2]):
                        continue
                    do(["modify", q, v[2]])
                    n_in += 1
    k = nchanges if nchanges is not None else rng.choice([1, 1, 2, 2, 3, 4, 6])
    touched = set()
    names = NAMES + (ODD_NAMES if o["odd_names"] else [])

    def free_name():
        # not below a path created or re-typed in this revision (the working inventory
        # learns about a kind change only at commit)
        dirs = sorted(p for p, v in tree.items() if v[1] == DIR and p not in touched)
        d = rng.choice(dirs)
        if d.count("/") >= 2:
            d = ""
        name = rng.choice(names)
        path = f"{d}/{name}" if d else name
        if path in tree or path in touched:
            return None
        return path

    for _ in range(k):
        files = sorted(p for p, v in tree.items() if v[1] == FILE and p not in touched)
        links = sorted(p for p, v in tree.items() if v[1] == LINK and p not in touched)
        dirs = sorted(p for p, v in tree.items() if v[1] == DIR and p and p not in touched)
        if o["reuse_paths"] and o["renames"] and rng.random() < 0.22:
            # a NEW directory (new file id) takes a path that this revision frees
            mh.nfid += 1
            nfid = f"{rid}-f{mh.nfid}"
            if rng.random() < 0.6:
                cand = [p for p in files + dirs if o["rename_full_dirs"] or not any(q != p and inside(p, q) for q in tree)]
                cand = [p for p in cand if not any(inside(p, t) or inside(t, p) for t in touched if t)]
                new = free_name()
                if not cand or new is None:
                    continue
                p = rng.choice(cand)
                if inside(p, new):
                    continue
                do(["rename", p, new])
                touched.update((p, new))
            else:
                cand = [p for p in dirs if any(q != p and inside(p, q) for q in tree) and not any(inside(p, t) or inside(t, p) for t in touched if t)]
                if not cand:
                    continue
                p = rng.choice(cand)
                do(["remove", p])
                touched.add(p)
            do(["add", p, nfid, DIR, None, False])
            if rng.random() < 0.6:
                mh.nfid += 1
                child = p + "/" + rng.choice(NAMES)
                do(["add", child, f"{rid}-f{mh.nfid}", FILE, _text(rng, mh, o), bool(o["exec"] and rng.random() < 0.3)])
                touched.add(child)
            continue
        r = rng.random()
        if r < 0.32 or not files:
            path = free_name()
            if path is None:
                continue
            mh.nfid += 1
            fid = f"{rid}-f{mh.nfid}"
            r2 = rng.random()
            if r2 < 0.22:
                do(["add", path, fid, DIR, None, False])
            elif r2 < 0.4 and o["symlinks"]:
                do(["add", path, fid, LINK, _target(rng, mh, o), False])
            else:
                do(["add", path, fid, FILE, _text(rng, mh, o), bool(o["exec"] and rng.random() < 0.3)])
            touched.add(path)
        elif r < 0.55:
            p = rng.choice(files + links)
            if tree[p][1] == LINK:
                do(["modify", p, _target(rng, mh, o)])
            else:
                do(["modify", p, _text(rng, mh, o, tree[p][2])])
            touched.add(p)
        elif r < 0.63 and o["exec"]:
            p = rng.choice(files)
            do(["chmod", p, not tree[p][3]])
            if rng.random() < 0.3:
                do(["modify", p, _text(rng, mh, o, tree[p][2])])
            touched.add(p)
        elif r < 0.73:
            cand = files + links + dirs
            p = rng.choice(cand)
            if any(inside(p, t) for t in touched):
                continue
            do(["remove", p])
            touched.add(p)
        elif r < 0.87:
            cand = files + links + dirs
            p = rng.choice(cand)
            new = free_name()
            if not o["renames"] or new is None or inside(p, new) or any(inside(p, t) for t in touched):
                continue
            if not o["rename_full_dirs"] and any(q != p and inside(p, q) for q in tree):
                continue
            do(["rename", p, new])
            touched.update((p, new))
            if tree[new][1] == FILE:
                r3 = rng.random()
                if r3 < 0.3:
                    do(["modify", new, _text(rng, mh, o, tree[new][2])])
                elif r3 < 0.55 and o["exec"] and o["rename_chmod"]:
                    do(["chmod", new, not tree[new][3]])  # exec flip only, same text
        elif r < 0.93 and o["swap"] and o["renames"]:
            cand = files + links + dirs
            if len(cand) < 2:
                continue
            a, b = rng.sample(cand, 2)
            if inside(a, b) or inside(b, a) or any(inside(a, t) or inside(b, t) for t in touched):
                continue
            if not o["swap_full_dirs"] and any(q not in (a, b) and (inside(a, q) or inside(b, q)) for q in tree):
                continue
            do(["swap", a, b])
            touched.update((a, b))
        elif o["retype"]:
            cand = [p for p in files + links + dirs if not any(q != p and inside(p, q) for q in tree)]
            if not cand:
                continue
            p = rng.choice(cand)
            kinds = [FILE] + ([DIR] if o["retype_to_dir"] else []) + ([LINK] if o["symlinks"] else [])
            kinds.remove(tree[p][1]) if tree[p][1] in kinds else None
            if not kinds:
                continue
            nk = rng.choice(kinds)
            if nk == FILE:
                do(["retype", p, FILE, _text(rng, mh, o), bool(o["exec"] and rng.random() < 0.3)])
            elif nk == LINK:
                do(["retype", p, LINK, _target(rng, mh, o), False])
            else:
                do(["retype", p, DIR, None, False])
            touched.add(p)
    if len(actions) == 0 and parents:
        mh.nfid += 1
        name = f"z{mh.nfid}"
        do(["add", name, f"{rid}-f{mh.nfid}", FILE, _text(rng, mh, o), False])
    spec = {
        "id": rid,
        "parents": [p for p in parents if p],
        "actions": actions,
        "ts": ts,
        "tz": rng.choice([z for z in TIMEZONES if o["neg_half_tz"] or z != -34200]) if o["tz"] else 0,
        "msg": _message(rng, rid, o),
        "committer": rng.choice(COMMITTERS) if o["committers"] else COMMITTERS[0],
    }
    if o["props"] and rng.random() < 0.4:
        spec["props"] = {rng.choice(["bugs", "custom-key", "deb-pristine"]): rng.choice(["v", "https://example.com/1 fixed", "multi\nline", "ü"])}
    if o["authors"] and rng.random() < 0.3:
        spec["authors"] = rng.sample(COMMITTERS, rng.choice([1, 1, 2]))
    mh.add(spec)
    return spec


def gen_history(rng, n, opts=None, tag="m", merges=True, ts0=1_500_000_000, force_side=None, dead_head=False):
    """A history of n mainline revisions `tag-1..n`; side lines `tag<k>s-i` fork from earlier
    revisions and are merged back.  Returns (Hist, specs in topological order)."""
    mh = Hist()
    specs = []
    prev = None
    nside = 0
    pending = None  # side tip to be merged by the next mainline revision
    for i in range(1, n + 1):
        forced = bool(force_side and force_side["at"] == i and prev)
        if forced and pending is not None:
            pending = None  # (stays an unmerged head)
        if (merges and prev and pending is None and rng.random() < 0.3) or forced:
            nside += 1
            fork = rng.choice(mh.lefthand(prev)[-2:]) if forced else rng.choice(mh.lefthand(prev))
            sp = fork
            for j in range(1, (force_side["len"] if forced else rng.choice([1, 1, 2, 3])) + 1):
                rid = f"{tag}{nside}s-{j}"
                specs.append(gen_spec(rng, mh, rid, [sp], ts0 + len(mh.revs) * 10 + rng.choice([0, 0, 1, 7]), opts))
                sp = rid
            pending = sp
        rid = f"{tag}-{i}"
        parents = [prev] if prev else [None]
        merge_tree = None
        if pending is not None and (forced or rng.random() < 0.7):
            parents.append(pending)
            merge_tree = mh.tree(pending)
            pending = None
        specs.append(gen_spec(rng, mh, rid, parents, ts0 + len(mh.revs) * 10 + rng.choice([0, 0, 3]), opts, merge_tree=merge_tree))
        prev = rid
    if dead_head and prev and not (set(mh.revs) - mh.ancestry(prev)):
        # a line that is never merged: its revisions live in the repository only
        nside += 1
        sp = rng.choice(mh.lefthand(prev))
        for j in range(1, rng.choice([1, 2]) + 1):
            rid = f"{tag}{nside}s-{j}"
            specs.append(gen_spec(rng, mh, rid, [sp], ts0 + len(mh.revs) * 10, opts))
            sp = rid
    return mh, specs


def heads_outside(mh, tip):
    """Revisions that are not ancestors of `tip` and nobody's parent (unmerged heads)."""
    anc = mh.ancestry(tip)
    parents = {p for r in mh.revs.values() for p in r["parents"]}
    return sorted(r for r in mh.revs if r not in anc and r not in parents)


# ------------------------------------------------------------------------------------
# real world


def b(s):
    return s.encode("latin-1")


def write_disk(root, path, kind, data, ex):
    ap = os.path.join(root, path)
    if kind == FILE:
        with open(ap, "wb") as f:
            f.write(b(data))
        os.chmod(ap, 0o755 if ex else 0o644)
    elif kind == DIR:
        os.mkdir(ap)
    else:
        os.symlink(data, ap)


def rm_disk(root, path):
    ap = os.path.join(root, path)
    if os.path.islink(ap) or not os.path.isdir(ap):
        os.unlink(ap)
    else:
        shutil.rmtree(ap)


class Builder:
    """Drives one real working tree.  `model` is the tree the working tree currently
    holds (path -> [fid, kind, data, exec])."""

    def __init__(self, tree, hist=None):
        self.tree = tree
        self.root = tree.basedir
        self.hist = hist or Hist()
        self.model = {}
        self.tip = None

    def switch_to(self, rid):
        """Make the working tree a clean checkout of revision `rid` (a committed one)."""
        from breezy import revision as _mod_revision

        # (not tree.revert: its conflict resolution fails on some of these histories;
        # a fresh working tree is built by the ordinary checkout code instead)
        br = self.tree.branch
        cd = self.tree.controldir
        rb = rid.encode() if rid else _mod_revision.NULL_REVISION
        with br.lock_write():
            br.generate_revision_history(rb)
        cd.destroy_workingtree_metadata()
        for name in os.listdir(self.root):
            if name != ".bzr":
                rm_disk(self.root, name)
        self.tree = cd.create_workingtree(revision_id=rb)
        self.model = {p: list(v) for p, v in self.hist.tree(rid).items()}
        self.tip = rid

    def apply(self, actions):
        tree = self.tree
        root = self.root
        with tree.lock_tree_write():
            for act in actions:
                k = act[0]
                if k == "add":
                    _, path, fid, kind, data, ex = act
                    if path == "":
                        tree.set_root_id(fid.encode()) if tree.path2id("") != fid.encode() else None
                    else:
                        write_disk(root, path, kind, data, ex)
                        tree.add([path], [kind], ids=[fid.encode()])
                elif k == "modify":
                    cur = self.model[act[1]]
                    if cur[1] == LINK:
                        rm_disk(root, act[1])
                        write_disk(root, act[1], LINK, act[2], False)
                    else:
                        write_disk(root, act[1], FILE, act[2], cur[3])
                elif k == "chmod":
                    os.chmod(os.path.join(root, act[1]), 0o755 if act[2] else 0o644)
                elif k == "remove":
                    below = sorted((p for p in self.model if inside(act[1], p)), reverse=True)
                    tree.unversion(below)
                    rm_disk(root, act[1])
                elif k == "rename":
                    tree.rename_one(act[1], act[2])
                elif k == "swap":
                    tmp = ".swap-tmp"
                    tree.rename_one(act[1], tmp)
                    tree.rename_one(act[2], act[1])
                    tree.rename_one(tmp, act[2])
                elif k == "retype":
                    _, path, kind, data, ex = act
                    rm_disk(root, path)
                    write_disk(root, path, kind, data, ex)
                else:
                    raise ValueError(k)
                self.model = apply_actions(self.model, [act])

    def commit(self, spec, extra_parents_ok=True):
        """Apply and commit one spec; returns the revision id (bytes)."""
        p0 = spec["parents"][0] if spec["parents"] else None
        if p0 != self.tip:
            self.switch_to(p0)
        self.apply(spec["actions"])
        tree = self.tree
        if len(spec["parents"]) > 1:
            with tree.lock_write():
                tree.set_parent_ids([p.encode() for p in spec["parents"]])
        kw = {}
        if spec.get("props"):
            kw["revprops"] = dict(spec["props"])
        if spec.get("authors"):
            kw["authors"] = list(spec["authors"])
        rid = tree.commit(
            message=spec["msg"],
            rev_id=spec["id"].encode(),
            timestamp=spec["ts"],
            timezone=spec.get("tz", 0),
            committer=spec.get("committer", COMMITTERS[0]),
            allow_pointless=True,
            **kw,
        )
        if spec["id"] not in self.hist.revs:
            self.hist.add(spec)
        self.tip = spec["id"]
        return rid


def make_tree(path, fmt="2a"):
    from breezy import controldir

    os.makedirs(path, exist_ok=True)
    f = controldir.format_registry.make_controldir(fmt)
    return controldir.ControlDir.create_standalone_workingtree(path, format=f)


def tree_state(tree, file_ids=True):
    """{path: [fid|None, kind, data, exec]} of any breezy tree (caller holds no lock)."""
    out = {}
    with tree.lock_read():
        for path, ie in tree.iter_entries_by_dir():
            fid = ie.file_id.decode() if file_ids and getattr(ie, "file_id", None) is not None else None
            if ie.kind == FILE:
                out[path] = [fid, FILE, tree.get_file_text(path).decode("latin-1"), bool(tree.is_executable(path))]
            elif ie.kind == LINK:
                out[path] = [fid, LINK, tree.get_symlink_target(path), False]
            else:
                out[path] = [fid, ie.kind, None, False]
    return out


def strip_ids(tree):
    return {p: [None] + list(v[1:]) for p, v in tree.items()}


def prune_empty_dirs(tree):
    """The tree without directories that hold no file or symlink (recursively)."""
    keep = set()
    for p, v in tree.items():
        if v[1] != DIR:
            q = p
            while q:
                q = parent(q)
                keep.add(q)
    return {p: v for p, v in tree.items() if v[1] != DIR or p in keep or p == ""}


def diff_trees(got, want, limit=4):
    out = []
    for p in sorted(set(got) | set(want)):
        g, w = got.get(p), want.get(p)
        if g != w:
            def short(v):
                if v is None:
                    return None
                d = v[2]
                if isinstance(d, str) and len(d) > 40:
                    d = d[:40] + f"...({len(v[2])})"
                return [v[0], v[1], d, v[3]]

            out.append(f"{p!r}: got {short(g)} want {short(w)}")
            if len(out) >= limit:
                break
    return out


def check_built(repo, hist, revids=None):
    """Harness self-check: the committed revisions equal the model."""
    for rid in revids or hist.order:
        got = tree_state(repo.revision_tree(rid.encode()))
        if got != hist.tree(rid):
            raise AssertionError(f"histsim: committed tree of {rid} differs from the model: {diff_trees(got, hist.tree(rid))}")
        rev = repo.get_revision(rid.encode())
        if [p.decode() for p in rev.parent_ids] != hist.revs[rid]["parents"]:
            raise AssertionError(f"histsim: parents of {rid}: {rev.parent_ids} vs {hist.revs[rid]['parents']}")


def relativise_log(sim, subs=()):
    """Scratch paths embed pids: keep them out of the event log (and so of the digest).
    `subs` = extra (compiled regex, replacement) pairs applied to every field."""
    if getattr(sim, "_hist_rel", False):
        return
    orig = sim.event
    base = os.environ["VERIF_SCRATCH"]

    def event(*fields, vol=None):
        out = []
        for f in fields:
            f = str(f).replace(base, "<S>")
            for rx, rep in subs:
                f = rx.sub(rep, f)
            out.append(f)
        orig(*out, vol=vol)

    sim.event = event
    sim._hist_rel = True


def scratch(name):
    return os.path.join(os.environ["VERIF_SCRATCH"], name)


def warm_scratch(fn):
    """Run fn() with a temporary VERIF_SCRATCH (for warm())."""
    import tempfile

    d = tempfile.mkdtemp(prefix="histwarm", dir=os.environ.get("VERIF_SCRATCH_BASE") or "/dev/shm")
    old = {k: os.environ.get(k) for k in ("VERIF_SCRATCH", "BRZ_HOME", "HOME")}
    os.makedirs(os.path.join(d, "home"), exist_ok=True)
    os.environ.update(VERIF_SCRATCH=d, BRZ_HOME=os.path.join(d, "home"), HOME=os.path.join(d, "home"))
    try:
        return fn()
    finally:
        for k, v in old.items():
            if v is None:
                os.environ.pop(k, None)
            else:
                os.environ[k] = v
        shutil.rmtree(d, ignore_errors=True)
