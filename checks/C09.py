"""C09 — Working trees behave like an abstract versioned file system.

(About a third of the runs end with a two-writer phase: two separately opened tree objects
run independent add / rename_one / remove operations under lock_tree_write, pre-empted at
the file operations of the tree lock (bzr: checkout lock on the transport seam; git:
index.lock / index read / index commit); an operation that meets LockContention counts as
not done; the re-opened tree must equal the model after exactly the acknowledged ones.)

One run = one working tree (2a/dirstate or git/index) under a seeded sequence of 5-25
operations generated from a simulation of the `treesim.MTree` model (user edits on disk,
add / smart_add / mkdir / remove / rename_one / move / commit / revert / reopen /
lock cycles, plus a few operations the model says must be refused).  After EVERY
operation the real tree is compared with the model: disk contents, versioned paths,
kind / text / exec bit / link target, file ids (bzr), iter_changes against the basis in
all four include_unchanged x want_unversioned settings, unknowns, extras, parents and the
basis tree; after `reopen` everything observed must be identical to before."""

import hashlib
import json

from simkit import world

from . import treesim as T

PROPERTY = "C09"
LEVEL = "exploration"
RULE = (
    "one case = one seeded run: tree flavour (bzr dirstate | git index), a namespace of 3-6 paths of depth <= 3, op-mix weights and "
    "5-25 model-generated operations (incl. rename_one/move with after=True onto occupied, just-added and unversioned targets), "
    "in ~30% of the runs followed by a two-writer phase (2 actors x 1-3 independent operations, seeded schedule); non-trivial = at least 3 state-changing operations were executed and compared; "
    "distinct = distinct event-log digests of such runs (distinct model states counted separately)"
)
COMPONENTS = {
    "real": [
        "breezy.bzr.workingtree_4 (WorkingTree6, dirstate via bzrformats/Rust, InterDirStateTree)",
        "breezy.bzr.workingtree / inventorytree / mutabletree (add, smart_add, remove, rename_one, move, unversion)",
        "breezy.git.workingtree + breezy.git.tree (dulwich index, InterGitTrees)",
        "breezy.commit, breezy.transform (revert), 2a repository and branch in the same directory, local git repository",
        "a real directory on /dev/shm; bzr control files through the storage seam (sim+file://)",
    ],
    "simulated": ["the user editing the tree (seeded operation sequence)", "process restart (drop the object, WorkingTree.open)", "two concurrent writers (baton-passing threads with their own tree objects; pre-emption at every transport operation of the bzr checkout lock and at index.lock / index read / index commit of git trees)", "clock of breezy.lockdir (virtual) while a writer waits for the checkout lock"],
    "stub": ["UI (SilentUIFactory)", "user identity / BRZ_HOME (scratch)"],
}
ASSUMPTIONS = [
    "real clock and real stat data: nothing asserted depends on the dirstate/index stat cache being used; every rewrite of a file changes its length",
    "symlink targets never resolve; names never match ignore rules except backup names (*~)",
    "git: identity is the path; iter_changes is compared per path after splitting guessed renames/copies (content similarity) into remove + add; directories are not tracked and are left out; 'in the index but missing on disk' is not distinguished from 'removed'; with want_unversioned a path removed from the index but kept on disk may be reported or not",
    "operations whose outcome breezy decides by conflict resolution or heuristics are not generated (model says Unmodelled): revert with path conflicts or (git) with both added and deleted/modified paths or a file<->symlink change, partial commits / reverts that need entries outside the selection (changed parents, other occupants of related paths), (git) partial commits while renames can be guessed, remove --no-keep over entries whose disk kind differs from the recorded kind or (git) with unversioned files below, smart_add walking a versioned directory that is no directory any more, rename_one of a path that is only in the basis, add under a parent whose recorded kind is not directory",
    "bzr: unversioned files below a versioned entry that was recorded as a non-directory and is a directory now may or may not be listed (extras() and iter_changes disagree; the property is silent)",
    "revert is run with backups=False; commit with allow_pointless=True, explicit revision ids (bzr), timestamps and committer",
    "unknowns()/extras() follow each implementation's documented shape: bzr reports an unversioned directory but not its contents, git reports unversioned non-directories recursively",
    "states and operations that hit defects already reported (checks/treesim.py GUARDS: " + ", ".join(sorted(T.GUARDS)) + ") are left out while the guard is on; a guard is lifted in a share of the runs once known_findings.json has an open entry [property, 'known-defect', guard], and failures inside such a territory carry that signature",
    "index-fault phase (git, ~1/4 of the git runs): a command holding the tree write lock changes the index (add / smart_add / remove --keep: nothing is flushed before the unlock) and the k-th write (k in 1..4) of the index at the final unlock stores only a fraction of its data and then fails with ENOSPC or the process dies (every later operation of that command on the index files has no effect, a stale index.lock stays behind and is removed by the 'user' after the judgement); a fresh opener must be able to read the tree and see the state before the lock or the state after the operations; in-place index writes that HEAD performs in the middle of a lock (rename_one, unversion) are not faulted",
    "two-writer phase: the writers' operations are pairwise independent (no path of one at, below or above a path of another), so every serial order gives the same tree and the oracle is 'model after exactly the acknowledged operations'; a writer that meets LockContention/LockFailed drops its tree object and re-opens (a new command); both writers share one address space",
    "determinism pins: storesim.install_pins (index/pack objects ordered by name) and treesim.install_order_pin (results of dirstate iter_changes with >= 2 search roots sorted by path: the Rust code walks the roots in per-thread hash order, which would decide the bytes and name of the pack written by a partial commit)",
    "runs execute in-process (ISOLATION=thread): each run builds tree, model and Sim from scratch; random parts of lock/upload names are masked in the event log",
]
STEP_CAP = 200000
# measured: a run is 30-80 ms in-process but 0.3-1.8 s in a forked child (page-table work of
# a large parent is serialised on this VM, worse with parallel workers); every run builds
# its whole world (tree, model, Sim) from scratch, nothing is kept between runs
ISOLATION = "thread"
# fraction of runs that may enter the states listed in treesim.GUARDS (reported defects)
# VERIF_UNGUARDED=p: share of runs with EVERY guard lifted (to reproduce the findings);
# otherwise P_LIFT of the runs lift the guards that have an open known_findings.json entry
P_UNGUARDED = float(__import__("os").environ.get("VERIF_UNGUARDED", "0") or 0)
P_LIFT = 0.2
P_WRITERS = 0.3  # share of runs that end with a two-writer phase
P_INDEX_FAULT = 0.35  # share of (git) runs that end with a fault inside the final index write


_warmed = []


def warm():
    world.quiet_breezy()
    T.quiet()
    if _warmed:
        return
    _warmed.append(1)
    import os
    import shutil
    import tempfile

    import breezy.bzr.workingtree_4  # noqa: F401
    import breezy.commit  # noqa: F401
    import breezy.git.workingtree  # noqa: F401
    import breezy.transform  # noqa: F401
    from simkit.sim import Sim

    from . import storesim

    # index / pack objects order by address otherwise: with ten or more packs in a run's
    # repository the order of index reads would depend on the process history
    storesim.install_pins()
    T.install_order_pin()

    # one dry run per flavour: every lazily imported module is loaded before the fork
    saved = {k: os.environ.get(k) for k in ("VERIF_SCRATCH", "BRZ_HOME", "HOME")}
    tmp = tempfile.mkdtemp(prefix="verif-warm-", dir="/dev/shm")
    try:
        for fl in ("bzr", "git"):
            sc = os.path.join(tmp, fl)
            os.makedirs(os.path.join(sc, "home"))
            os.environ.update(VERIF_SCRATCH=sc, BRZ_HOME=os.path.join(sc, "home"), HOME=os.path.join(sc, "home"))
            plan = {"flavour": fl, "ops": WARM_OPS, "every": 1, "filters": [["a"], ["d/f", "zz"]], "actors": WARM_ACTORS, "policy": "rr"}
            sim = Sim(1, plan, step_cap=10**6)
            try:
                execute(sim, plan, warm_extra)
            except Exception:  # noqa: BLE001 - a dry run; real runs report
                pass
    finally:
        for k, v in saved.items():
            if v is None:
                os.environ.pop(k, None)
            else:
                os.environ[k] = v
        shutil.rmtree(tmp, ignore_errors=True)
    import gc

    gc.collect()
    gc.freeze()


warm_extra = None

WARM_OPS = [
    {"o": "write", "p": "a", "n": 1},
    {"o": "mkdir", "p": "d", "id": "d2"},
    {"o": "write", "p": "d/f", "n": 3},
    {"o": "smart_add", "p": "", "n": 4},
    {"o": "symlink", "p": "l", "n": 5},
    {"o": "add", "p": "l", "id": "f6"},
    {"o": "commit", "paths": None, "rev": "rev-7", "t": 1700000007},
    {"o": "chmod", "p": "a", "x": True},
    {"o": "rename", "p": "a", "to": "b"},
    {"o": "move", "p": "b", "to": "d"},
    {"o": "write", "p": "d/f", "n": 8},
    {"o": "commit", "paths": ["d/f"], "rev": "rev-9", "t": 1700000009},
    {"o": "remove", "p": "l", "keep": False, "force": False},
    {"o": "write", "p": "d/f", "n": 10},
    {"o": "remove", "p": "d/f", "keep": False, "force": False},
    {"o": "revert", "paths": None},
    {"o": "write", "p": "d/f", "n": 11},
    {"o": "revert", "paths": ["d/f"]},
    {"o": "remove", "p": "d", "keep": True, "force": False},
    {"o": "rename", "p": "zz", "to": "zy", "bad": 1},
    {"o": "reopen"},
    {"o": "lockcycle"},
    {"o": "commit", "paths": None, "rev": "rev-12", "t": 1700000012},
    {"o": "write", "p": "w1", "n": 13},
    {"o": "write", "p": "w2", "n": 14},
    {"o": "rename", "p": "a", "to": "w1", "after": 1},
]
WARM_ACTORS = {"A": [{"o": "add", "p": "w1", "id": "w501"}], "B": [{"o": "add", "p": "w2", "id": "w502"}]}


def config(tier):
    if tier == "thorough":
        return {"budget_s": 700, "run_timeout": 120, "selftest": 48, "workers": 8}
    return {"budget_s": 45, "run_timeout": 120, "selftest": 24, "workers": 8}


def choose_unguarded(rng, prop):
    x = rng.random()
    if x < P_UNGUARDED:
        return sorted(T.active_guards())
    if x < P_LIFT:
        return T.lifted_guards(prop)
    return []


def generate(rng, tier, compare=False):
    flavour = rng.choice(["bzr", "bzr", "git"])
    names = T.make_namespace(rng)
    weights = T.swarm_weights(rng)
    unguarded = choose_unguarded(rng, "C10" if compare else "C09")
    model = T.MTree(flavour, unguarded)
    n = rng.randint(5, 25)
    ops = T.gen_ops(rng, model, n, weights, names)
    plan = {"flavour": flavour, "names": names, "weights": weights, "ops": ops}
    phase = rng.random()
    if phase >= P_WRITERS and flavour == "git" and phase < P_WRITERS + P_INDEX_FAULT:
        # fault phase at the end of the run: an I/O error or the death of the process inside
        # the write of the index at the final unlock
        for _ in range(rng.randint(1, 2)):
            free = [n for n in "abcde" if model.can_create(n)]
            if free:
                op = {"o": "write", "p": rng.choice(free), "n": 450 + len(ops)}
                model.apply(op)
                ops.append(op)
        cands = [{"o": "add", "p": p, "id": "x"} for p in sorted(model.disk) if not model.is_versioned(p) and model.dkind(p) != T.DIR]
        cands += [{"o": "remove", "p": p, "keep": True, "force": False} for p in sorted(model.inv)]
        cands += [{"o": "smart_add", "p": p, "n": 460} for p in sorted(model.disk) if not model.is_versioned(p)]
        rng.shuffle(cands)
        m2 = model.copy()
        fops = []
        for op in cands:
            if len(fops) >= rng.randint(1, 2):
                break
            before = dict(m2.inv)
            if m2.classify(op) == "ok":
                m2.apply(op)
                if m2.inv != before:
                    fops.append(op)
        if fops:
            plan["fault"] = {"ops": fops, "mode": rng.choice(["error", "crash"]), "at": rng.randint(1, 4), "frac": rng.choice([0.0, 0.5, 0.9])}
    if phase < P_WRITERS:
        # two-writer phase at the end of the run; a few fresh files give it something to add
        for _ in range(rng.randint(0, 2)):
            free = [n for n in "abcde" if model.can_create(n)]
            if free:
                op = {"o": "write", "p": rng.choice(free), "n": 400 + len(ops)}
                model.apply(op)
                ops.append(op)
        scripts = T.gen_writers(rng, model, names)
        if scripts:
            plan["actors"] = scripts
            plan["policy"] = rng.choice(["random", "pct", "pct", "pct", "rr"])
            span = 8 if flavour == "git" else 60
            plan["preempt_rel"] = sorted(rng.sample(range(1, span), rng.randint(1, 3)))
    if unguarded:
        plan["unguarded"] = unguarded
    if compare:
        plan["every"] = rng.choice([1, 2, 3])
        plan["filters"] = [sorted(rng.sample(names + ["zz", "a/zz"], rng.randint(1, 3))) for _ in range(3)]
        # a redundant filter: a directory, something below it, and (if the namespace has
        # one) the sibling that sorts between the two
        nested = [(d, p) for d in names for p in names if T.strictly_inside(d, p)]
        if nested and rng.random() < 0.6:
            d, p = rng.choice(nested)
            f = [d, p] + [s for s in names if s in (d + "-x", d + ".x")]
            if len(f) == 2 and rng.random() < 0.5:
                f.append(d + "-x")  # need not exist
            rng.shuffle(f)
            plan["filters"][rng.randrange(3)] = f
        if rng.random() < 0.3:
            # the tree root as a filter path (selects everything, also every unversioned file)
            plan["filters"][rng.randrange(3)] = [""] + ([rng.choice(names)] if rng.random() < 0.5 else [])
    return plan


def _h(obj):
    return hashlib.sha1(repr(obj).encode("utf-8", "replace")).hexdigest()[:12]


def _canon(obs):
    return sorted((repr(k), repr(sorted(v.items(), key=repr) if isinstance(v, dict) else sorted(v, key=repr) if isinstance(v, set) else v)) for k, v in obs.items())


def _diff(exp, got):
    exp, got = set(exp), set(got)
    return "missing=%r unexpected=%r" % (sorted(exp - got, key=repr)[:6], sorted(got - exp, key=repr)[:6])


def safe_observe(sim, tree, fl, op):
    """Reading the tree must never raise."""
    try:
        return T.observe(tree, fl)
    except Exception as e:  # noqa: BLE001 - any exception while reading is a failure of the tree
        import traceback

        tb = "".join(traceback.format_exception(type(e), e, e.__traceback__)[-5:])
        T.fail(sim, "C09", "observe_raised", [fl, type(e).__name__], "after %s: reading the tree raised %r\n%s" % (json.dumps(op), e, tb))


class _Mismatch(Exception):
    pass


def state_problem(sim, tree, model, op, obs):
    """(tag, detail) of the first difference between the tree and `model`, or None."""
    try:
        check_state(sim, tree, model, op, obs, soft=True)
    except _Mismatch as e:
        return e.args
    return None


def check_state(sim, tree, model, op, obs=None, soft=False):
    """Compare the real tree with the model; returns the observation."""
    fl = model.flavour
    kind = op["o"] if op else "init"

    def fail(tag, detail):
        if soft:
            raise _Mismatch(tag, detail)
        T.fail(sim, "C09", tag, [fl, kind], "after %s: %s" % (json.dumps(op), detail))

    disk = T.disk_snapshot(tree._sim_root, fl)
    if disk != model.disk:
        fail("disk", _diff(model.disk.items(), disk.items()))
    if obs is None:
        obs = safe_observe(sim, tree, fl, op)
    snap = obs["tree"]
    if set(snap) != model.versioned_paths():
        fail("versioned_paths", _diff(model.versioned_paths(), set(snap)))
    for p, (k, data, x, fid) in sorted(snap.items()):
        node = model.disk.get(p) if p else (T.DIR, None, False)
        want = (node[0], node[1], bool(node[2])) if node else (None, None, False)
        if (k, data, bool(x)) != want:
            fail("content", "%r: tree says %r, model %r" % (p, (k, data, x), want))
        if fl == "bzr" and fid != model.inv[p][0]:
            fail("file_id", "%r: path2id %r, model %r" % (p, fid, model.inv[p][0]))
    for inc in (False, True):
        for unv in (False, True):
            exp = model.changes(include_unchanged=inc, want_unversioned=unv)
            got = obs["changes", inc, unv]
            if not T.changes_equal(exp, got, model.optional_record(unv)):
                fail("iter_changes", "include_unchanged=%s want_unversioned=%s: %s" % (inc, unv, _diff(exp, got)))
    opt = model.optional_unversioned
    if {p for p in obs["extras"] if not opt(p)} != model.extras():
        fail("extras", _diff(model.extras(), obs["extras"]))
    if {p for p in obs["unknowns"] if not opt(p)} != model.unknowns():
        fail("unknowns", _diff(model.unknowns(), obs["unknowns"]))
    if not ("bzr_dir_replaced" in model.guards and model.dir_replaced()):
        # the set of versioned paths must not depend on whether a status refresh happened
        with tree.lock_read():
            again = set(tree.all_versioned_paths())
        if again != model.versioned_paths():
            fail("versioned_paths_after_status", _diff(model.versioned_paths(), again))
    want_parents = [model.revs[-1][0].encode()] if model.revs else []
    if fl == "bzr" and obs["parents"] != want_parents:
        fail("parents", "%r != %r" % (obs["parents"], want_parents))
    if fl == "git" and len(obs["parents"]) != len(want_parents):
        fail("parents", "%r vs %r" % (obs["parents"], want_parents))
    return obs


def check_basis(sim, tree, model, op):
    fl = model.flavour
    try:
        snap = T.tree_snapshot(tree.basis_tree())
    except Exception as e:  # noqa: BLE001
        T.fail(sim, "C09", "observe_raised", [fl, "basis", type(e).__name__], "after %s: reading the basis tree raised %r" % (json.dumps(op), e))
    if fl == "bzr":
        got = {p: (fid, k, d, x) for p, (k, d, x, fid) in snap.items()}
        want = model.basis
    else:
        got = {p: (None, k, d, x) for p, (k, d, x, _f) in snap.items() if k != T.DIR and p != ""}
        want = model.basis
    if got != want:
        T.fail(sim, "C09", "basis", [fl, op["o"] if op else "init"], "after %s: basis tree %s" % (json.dumps(op), _diff(want.items(), got.items())))


def refused_ok(exc):
    """Is this exception a refusal (as opposed to an internal error)?"""
    from breezy import errors

    if isinstance(exc, (errors.BzrError, OSError)):
        return not isinstance(exc, errors.InternalBzrError)
    mod = type(exc).__module__.split(".")[0]
    return mod in ("dromedary", "bzrformats", "dulwich") or type(exc).__name__ in ("NoSuchFile", "PathsNotVersionedError", "NotVersionedError")


def run_index_fault(sim, tree, model, plan):
    """git: a command takes the tree write lock, changes the index (add / smart_add /
    remove --keep: nothing is flushed before the unlock) and is hit by an I/O error, or dies,
    inside the write of the index at the final unlock.  Judged by a fresh opener: the tree
    must be readable and show the state before the lock or the state after the operations."""
    import os

    fl, root, ft = model.flavour, tree._sim_root, plan["fault"]
    T.install_index_seam()
    post = model.copy()
    ops = []
    for op in ft["ops"]:
        if op.get("o") in ("add", "smart_add", "remove") and (op["o"] != "remove" or op.get("keep")) and post.classify(op) == "ok":
            post.apply(op)
            ops.append(op)
    if not ops or post.inv == model.inv:
        sim.event("index-fault", "skipped")
        return tree
    del tree
    sim.index_fault = {"mode": ft["mode"], "at": int(ft["at"]), "frac": float(ft.get("frac", 0.5)), "active": False}
    t = T.open_tree(root, fl)
    t.lock_tree_write()
    try:
        for op in ops:
            try:
                T.apply_op(t, model, op)
            except Exception as e:  # noqa: BLE001
                T.fail(sim, "C09", "op_raised", [fl, op["o"], type(e).__name__], "%s raised %r (before any fault)" % (json.dumps(op), e))
    finally:
        sim.index_fault["active"] = True  # only the final write of the unlock
        try:
            t.unlock()
        except BaseException as e:  # noqa: B036 - the error or the death of the command
            sim.event("index-fault", "unlock", type(e).__name__)
        fired = bool(sim.index_fault.get("fired"))
        sim.index_fault = None
    del t
    sim.event("index-fault", ft["mode"], ft["at"], "fired" if fired else "not reached")
    sim.probe("index_fault_" + (ft["mode"] if fired else "not_reached"))
    marker = {"o": "index-fault", "mode": ft["mode"], "at": ft["at"], "fired": fired, "ops": [json.dumps(o, sort_keys=True) for o in ops]}
    fresh = T.open_tree(root, fl)
    try:
        obs = T.observe(fresh, fl)
    except Exception as e:  # noqa: BLE001
        T.fail(sim, "C09", "fault_unreadable", [fl, ft["mode"]], "after %s: a fresh opener cannot read the tree: %r" % (json.dumps(marker), e))
    p_post = state_problem(sim, fresh, post, marker, obs)
    p_pre = state_problem(sim, fresh, model, marker, obs) if p_post else None
    if p_post and p_pre:
        T.fail(sim, "C09", "fault_state", [fl, ft["mode"]], "after %s: the tree is neither in the state before the lock (%s: %s) nor in the state after the operations (%s: %s)" % (json.dumps(marker), p_pre[0], p_pre[1], p_post[0], p_post[1]))
    if not fired and p_post:
        T.fail(sim, "C09", p_post[0], [fl, "index-fault"], "no fault fired, but after %s: %s" % (json.dumps(marker), p_post[1]))
    if not p_post:
        for op in ops:
            model.apply(op)
        sim.probe("index_fault_post_state")
    else:
        sim.probe("index_fault_pre_state")
    # what a user does about the lock file a killed command leaves behind
    stale = os.path.join(root, ".git", "index.lock")
    if os.path.exists(stale):
        os.unlink(stale)
    sim.state_seen(model.digest())
    return fresh


def run_writers(sim, tree, model, plan):
    """Two writers (separately opened tree objects, as two processes would have) run their
    scripts concurrently, pre-empted at the file operations of the tree lock / index.  An
    operation that meets LockContention / LockFailed counts as not done.  The operations
    are pairwise independent, so the final state must be the model after exactly the
    acknowledged ones, in any order."""
    from breezy import errors

    fl = model.flavour
    root = tree._sim_root
    T.install_index_seam()
    # what the model can predict in the state actually reached (shrinking may have changed it)
    m = model.copy()
    kept, flat = {}, []
    for name in sorted(plan["actors"]):
        kept[name] = []
        for op in plan["actors"][name]:
            if op.get("o") in T.WRITER_OPS and T.independent(op, flat) and m.classify(op) == "ok":
                m.apply(op)
                kept[name].append(op)
                flat.append(op)
    if sum(1 for v in kept.values() if v) < 2:
        sim.event("writers", "skipped")
        return tree
    del tree
    outcomes = {name: [] for name in kept}

    def writer(name):
        t = T.open_tree(root, fl)
        for op in kept[name]:
            res = "ok"
            try:
                t.lock_tree_write()
            except (errors.LockContention, errors.LockFailed) as e:
                res = "contention"
                sim.probe("writer_contention")
                t = T.open_tree(root, fl)  # the command ends; the next one starts afresh
                outcomes[name].append((op, res, None))
                sim.event("writer", name, json.dumps(op, sort_keys=True), res, type(e).__name__)
                continue
            err = None
            try:
                try:
                    T.apply_op(t, model, op)
                except (errors.LockContention, errors.LockFailed) as e:
                    res, err = "contention", e
                except Exception as e:  # noqa: BLE001 - judged by the main actor
                    res, err = "raised", e
            finally:
                try:
                    t.unlock()
                except Exception as e:  # noqa: BLE001
                    if res == "ok":
                        res, err = "raised", e
            outcomes[name].append((op, res, err))
            sim.event("writer", name, json.dumps(op, sort_keys=True), res)

    for name in sorted(kept):
        if kept[name]:
            sim.spawn(name, (lambda n=name: writer(n)))
    sim.sched_policy = plan.get("policy", "random")
    sim.preempt_at = {sim.steps + k for k in plan.get("preempt_rel", [])}
    before = sim.switches
    sim.run_actors()
    sim.probe("writers_run")
    if sim.switches > before:
        sim.probe("writers_interleaved")
    for name in sorted(kept):
        a = sim.actors[name]
        if a.exc is not None:
            raise a.exc
        for op, res, err in outcomes[name]:
            if res == "raised":
                T.fail(sim, "C09", "writer_raised", [fl, op["o"], type(err).__name__], "writer %s: %s raised %r (the model says it is valid and independent of the other writer's operations)" % (name, json.dumps(op), err))
            if res == "ok":
                model.apply(op)
                sim.probe("writer_op_" + op["o"])
    tree = T.open_tree(root, fl)
    marker = {"o": "writers", "acknowledged": {n: [json.dumps(o, sort_keys=True) for o, r, _e in outcomes[n] if r == "ok"] for n in sorted(outcomes)}}
    check_state(sim, tree, model, marker)
    sim.state_seen(model.digest())
    return tree


def execute(sim, plan, extra=None):
    warm()
    T.quiet()
    T.settle_randomness(sim.seed)
    world.setup_sim(sim)
    fl = plan["flavour"]
    import os

    T.relativise_log(sim, os.path.join(os.environ["VERIF_SCRATCH"], "t"))
    tree = T.make_tree(sim, fl, "t")
    model = T.MTree(fl, plan.get("unguarded", ()))
    check_state(sim, tree, model, None)
    done = 0
    for i, op in enumerate(plan["ops"]):
        cls = model.classify(op)
        bad = bool(op.get("bad"))
        if cls == "skip" or (bad and cls != "error") or (not bad and cls != "ok"):
            sim.event("skip", i, op["o"])
            continue
        if plan.get("unguarded") and not sim.notes.get("territory"):
            t = model.territory(op)
            if t:
                sim.notes["territory"] = t
                sim.probe("territory_" + t)
                sim.event("territory", t)
        before = safe_observe(sim, tree, fl, op) if op["o"] == "reopen" else None
        raised = None
        try:
            tree = T.apply_op(tree, model, op)
        except Exception as e:  # noqa: BLE001 - classified below
            raised = e
        if cls == "error":
            if raised is None:
                T.fail(sim, "C09", "illegal_accepted", [fl, op["o"]], "%s was accepted; the model says it must be refused" % json.dumps(op))
            if not refused_ok(raised):
                T.fail(sim, "C09", "internal_error", [fl, op["o"], type(raised).__name__], "%s: %r" % (json.dumps(op), raised))
            sim.probe("refused")
            sim.event("op", i, json.dumps(op, sort_keys=True), "refused", type(raised).__name__)
        else:
            if raised is not None:
                import traceback

                tb = "".join(traceback.format_exception(type(raised), raised, raised.__traceback__)[-6:])
                T.fail(sim, "C09", "op_raised", [fl, op["o"], type(raised).__name__], "%s raised %r\n%s" % (json.dumps(op), raised, tb))
            model.apply(op)
            if plan.get("unguarded"):
                sim.notes["territory_state"] = model.territory_state()
            sim.probe("op_" + op["o"])
            if op["o"] in T.STATE_CHANGING:
                done += 1
            sim.event("op", i, json.dumps(op, sort_keys=True), "ok")
        obs = check_state(sim, tree, model, op)
        if before is not None and _canon(before) != _canon(obs):
            T.fail(sim, "C09", "reopen", [fl], "state read back after reopen differs: %s" % _diff(_canon(before), _canon(obs)))
        if op["o"] in ("commit", "revert", "reopen") or i == len(plan["ops"]) - 1:
            check_basis(sim, tree, model, op)
        if extra is not None:
            extra(sim, tree, model, i, op)
        sim.event("obs", _h(_canon(obs)))
        sim.state_seen(model.digest())
    if plan.get("actors"):
        tree = run_writers(sim, tree, model, plan)
    elif plan.get("fault") and model.flavour == "git":
        tree = run_index_fault(sim, tree, model, plan)
    sim.nontrivial = done >= 3
    if sim.notes.get("prop") is None:
        sim.notes.pop("territory", None)
        sim.notes.pop("territory_state", None)
    return tree, model
