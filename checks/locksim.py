"""locksim: shared pieces of the lock world (C26, C27, C28).

Real: breezy.lockdir.LockDir, LockHeldInfo (Rust), is_lock_holder_known_dead (Rust,
kill(pid,0) on a real token process).  Simulated: the disk (SimTransport over the
memory transport), clock (breezy.lockdir.time), scheduler, process liveness."""

import os
import signal

from simkit import world
from simkit.transport import raw

_warmed = False


def warm():
    global _warmed
    if _warmed:
        return
    world.quiet_breezy()
    import breezy.lockdir  # noqa: F401
    from breezy import config  # noqa: F401
    from breezy.transport import get_transport
    from simkit.sim import Sim

    # exercise the lazy imports behind get_transport / LockDir / config once, pre-fork
    sim = Sim(0)
    world.setup_sim(sim)
    os.environ.setdefault("BRZ_HOME", "/dev/shm/verif-warm-home")
    os.makedirs(os.environ["BRZ_HOME"], exist_ok=True)
    t = get_transport(world.new_store("warm"))
    ld = breezy.lockdir.LockDir(t, "lock")
    ld.create()
    ld.attempt_lock()
    ld.peek().is_lock_holder_known_dead()
    ld.get_config().get("locks.steal_dead")
    ld.unlock()
    _warmed = True


class Tokens:
    """One real process per simulated locker that may die: the unmodified liveness
    test (kill(pid, 0)) then decides.  Lockers that never die use this process's pid."""

    def __init__(self, sim):
        self.sim = sim
        self.pids = {}
        sim.on_kill.append(self.kill)

    def pid_for(self, actor_name, mortal):
        if not mortal:
            return os.getpid()
        if actor_name not in self.pids:
            self.pids[actor_name] = os.posix_spawn("/bin/sleep", ["sleep", "600"], {})
        return self.pids[actor_name]

    def kill(self, actor):
        pid = self.pids.pop(actor.name, None)
        if pid is not None:
            try:
                os.kill(pid, signal.SIGKILL)
                os.waitpid(pid, 0)
            except (ProcessLookupError, ChildProcessError):
                pass

    def close(self):
        for name in list(self.pids):
            pid = self.pids.pop(name)
            try:
                os.kill(pid, signal.SIGKILL)
                os.waitpid(pid, 0)
            except (ProcessLookupError, ChildProcessError):
                pass


def write_global_config(steal_dead):
    from breezy import bedding

    path = bedding.config_path()
    os.makedirs(os.path.dirname(path), exist_ok=True)
    with open(path, "w") as f:
        f.write("[DEFAULT]\n")
        f.write(f"locks.steal_dead = {'True' if steal_dead else 'False'}\n")


def read_info(transport, path):
    """(nonce, pid, hostname, user) of an info file read below the seam, or None."""
    from breezy._cmd_rs import LockHeldInfo
    from dromedary.errors import NoSuchFile

    try:
        data = raw(transport).get_bytes(path)
    except NoSuchFile:
        return None
    try:
        info = LockHeldInfo.from_info_file_bytes(data)
    except Exception:
        return ("<corrupt>", None, None, None)
    return (info.nonce, info.pid, info.hostname, info.user)


def install_yes_ui():
    """Silent UI that answers yes to every boolean question (break_lock asks 'Break
    (corrupt ...)?' through get_boolean, which the plain silent UI does not implement).
    Idempotent."""
    from breezy import ui

    if getattr(ui.ui_factory, "_verif_yes", False):
        return

    class YesUI(ui.SilentUIFactory):
        _verif_yes = True

        def get_boolean(self, prompt):
            return True

    ui.ui_factory = YesUI()
