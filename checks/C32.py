"""C32 — Operations through a smart server match local operations.

Two stores A and B start with the same generated history in a branch `br` (built with the
same explicit ids, timestamps and contents on both).  A history of 3-12 operations is
executed on A through the local sim URL and on B through the loop-back smart server
(`bzr+sim://b/`: real client medium/protocol/RemoteBranch/RemoteRepository -> SimPipe with
seeded segmentation and short reads -> real server medium, request handlers, the very
same local code on B's store).  After every operation the returned values are compared
(normalised) and both stores are read LOCALLY by fresh objects and compared.

Faulty sub-batch: one connection reset per run, aimed (by verb class) at the n-th request
of one operation: while the request is being sent (the server never sees it), or after
the server executed it and before the client read the response."""

import hashlib

from simkit import world
from simkit.sim import cur_sim

from . import storesim, wiresim
from .storesim import MHist, gen_chain, gen_spec, replay_model

PROPERTY = "C32"
LEVEL = "exploration"
RULE = (
    "one case = one seeded history: repository format, initial history, a source repository with a longer history "
    "(merges, a diverged line), 3-12 operations (commit, pull, push into, fetch, tags, branch config, lock_write/unlock, "
    "get_parent_map, last_revision_info, revision and tree reads, revno lookups, set_last_revision_info, set/get parent, "
    "create a stacked branch, re-open), executed with per-operation locking and - in 5 of 6 plans - with one or two OUTER LOCK SPANS (lock_write, 2-5 generated "
    "operations such as commit / pull of new revisions / commit, or tag and config sequences, unlock; the source branch may carry tags) "
    "x seeded segmentation/short reads of every protocol message x server medium flavour "
    "x (faulty sub-batch) one fault placed by verb class or exact verb: a connection reset (send / eof_after), a reset that also hits the client's one "
    "retransmission (send2 / eof_send: the operation fails), or one disk error on the SERVER (store_err: an error response), followed by the seeded way the "
    "caller goes on: repeat the operation on the same objects inside the same lock (inplace, inplace_reset) or break_lock + fresh objects (reopen); non-trivial = at least one operation changed the "
    "stored state of B through the server and every comparison was made (faulty sub-batch: additionally the reset fired); "
    "distinct = distinct event-log digests (every store operation of both stores and every delivered segment is logged)"
)
COMPONENTS = {
    "real": [
        "breezy.bzr.remote: RemoteBzrDir, RemoteBranch, RemoteRepository, RemoteStreamSink/Source, RemoteBranchStore (config), remote tags, VFS fallback (_ensure_real) for commit",
        "breezy.bzr.smart.client._SmartClient/_SmartClientRequest incl. its retry logic (_send, _call, _is_safe_to_send_twice), medium.SmartClientStreamMedium, protocol v3 encoder/decoders",
        "server side: medium.SmartServerPipeStreamMedium / SmartServerSocketStreamMedium serve loop, request_handlers registry (verb classes), smart/branch.py, repository.py, bzrdir.py, packrepository.py, vfs.py handlers",
        "the local branch / repository / pack / index / lockdir / config / tags code on both stores (2a and pack-0.92)",
        "breezy.transport.remote.RemoteTransport, BranchBuilder + MemoryTree commit, InterBranch pull/push, InterRepository fetch",
    ],
    "simulated": [
        "both disks (SimTransport over memory stores)",
        "the connection: byte streams with seeded segmentation and short reads (wiresim.SimPipe), connection resets at a chosen request (during send / after the server executed it; optionally also at its retransmission), reconnection",
        "one injected disk error on the server's store during an operation (simkit err_before at the k-th mutating store operation)",
        "lockdir clock (virtual)",
    ],
    "stub": [
        "UI (silent)",
        "bzr+sim:// URL scheme resolving to the loop-back medium (one shared client medium per run)",
        "the insert_stream worker thread of the server is run synchronously at end-of-stream (wiresim._DeferredThread)",
        "lock info files: pid 1 and virtual-clock start time instead of the real pid / wall clock (wiresim.pin_lock_info; their lengths would otherwise leak into message sizes)",
        "source repository S on a third store, always accessed locally and fault-free by both sides",
    ],
}
ASSUMPTIONS = [
    "returned values are compared after normalisation: pull/push results -> (old_revno, old_revid, new_revno, new_revid, tag conflicts); fetch results, lock results/tokens -> constants; "
    "revisions -> (parents, message, timestamp, timezone, committer, properties, inventory sha1); trees -> (path, file id, kind, text sha1) list; exceptions -> failed/succeeded only "
    "(error class and message may legitimately differ between a local call and a smart-server error; the class names are kept in the event log)",
    "stored state is compared as read locally by fresh objects: per branch (br and stacked branches) last_revision_info, tags, the values of the config options used, parent, stacked-on location, "
    "physical lock held or not; the repository's revision id set; per revision the normalised Revision and full model equality of the tree (storesim.readable); not compared: pack file names/layout, "
    "lock info contents (tokens, timestamps, host/pid), leftovers under upload/ and lock directories",
    "fault model: a reset loses the whole connection; 'send' = no byte of the request reaches the server; 'eof_after' = the server executed the request completely and the whole response is lost; "
    "resets while a response body is being read are not modelled",
    "relaxed oracle after a reset that the client cannot or may not hide (eof_after on semi/stream/mutate/semivfs verbs, or a send reset after the body stream started): the operation may fail; then every "
    "component of B's state (tip, tags, config, parent, stacked-on per branch; revision set) equals A's value before or after the operation, the tip is a present revision, all revisions are readable and "
    "equal the model; recovery = break_lock on B locally + fresh objects on both sides (A unlocks normally), re-running the operation on B if B is not yet in A's post-state; afterwards strict equivalence again",
    "eof_after on read/idem verbs and every send reset before the body stream started must be invisible: same result, same state (strict)",
    "send2 / eof_send (the retransmission is reset too) and store_err may make the operation fail; if the operation nevertheless returns normally its result and the stored data must be right "
    "(only the physical lock may leak, and branch.conf-backed values may be lost: both happen in unlock, whose errors breezy suppresses by design, locally as well); after a reported failure the "
    "operation is repeated on the SAME objects inside the SAME outer lock (tag/config/tip/parent operations, pull/push/fetch, reads) and must then succeed with the local result and state, "
    "unless the first attempt had already been applied (eof_send) and the repeat is refused with the state already equal; "
    "the client medium is used exactly as breezy leaves it after a failed retransmission (fix 09441a8; a medium left unusable is reported as inplace_retry/medium-unusable-after-failed-retransmission)",
    "blocking-pipe read semantics (read(n) blocks until n bytes) are C30's subject; here reads are short-read style (atmost/greedy)",
]
ISOLATION = "fork"
STEP_CAP = 3_000_000

CONF_KEYS = ["c32.alpha", "c32.beta", "c32_gamma"]
OBSERVED_CONF = CONF_KEYS + ["append_revisions_only"]
CONF_VALUES = ["v1", "two words", "ünï", "a=b", "x,y", 'with "quote"', "#hash", "100%", "", "True"]
TAG_NAMES = ["t1", "t2", "rel 1.0", "étiquette"]
VERB_CLASSES = ["read", "idem", "semi", "stream", "mutate", "semivfs"]
# branch.conf-backed values: a local branch object keeps changes in memory until its write
# lock is released, the server writes through on every verb; compared when unlocked only
# verbs an operation is expected to use ("verb:<name>" aims a reset at the n-th request with that verb)
_FETCH_VERBS = ["Repository.insert_stream_1.19", "Repository.insert_stream_1.19", "Repository.get_parent_map", "Branch.lock_write", "Branch.unlock", "Branch.set_last_revision_info", "Repository.lock_write", "Repository.unlock"]
OP_VERBS = {
    "commit": ["append", "append", "append", "append", "append", "put", "put", "rename", "move", "mkdir", "put_non_atomic", "delete", "rmdir", "readv", "Branch.set_last_revision_info", "Branch.unlock"],
    "pull": _FETCH_VERBS,
    "push": _FETCH_VERBS,
    "fetch": _FETCH_VERBS,
    "stack": ["BzrDirFormat.initialize", "BzrDir.create_repository", "BzrDir.create_branch", "Branch.put_config_file", "Repository.insert_stream_1.19", "Branch.set_last_revision_info", "mkdir"],
}
# operations that a caller can simply repeat on the same objects after a reported connection failure
INPLACE_OPS = {"set_tag", "del_tag", "get_tags", "conf_set", "conf_get", "set_last", "set_parent", "get_parent", "pull", "push", "fetch", "lock", "info", "parent_map", "rev", "tree", "revno_of", "get_rev_id", "has_rev", "all_revs"}
STORE_ERR_OPS = {"set_tag", "del_tag", "set_last", "set_parent", "conf_set", "pull", "push", "fetch"}
MUTATING_OPS = {"put", "mkdir", "rename", "move", "delete", "rmdir", "copy", "put_na", "append", "open_write_stream", "stream_write", "stream_close", "symlink", "hardlink"}
DEFERRED = ("conf", "parent", "stacked")
# verb classes an operation is expected to use (only to aim resets; nothing is judged by it)
OP_CLASSES = {
    "commit": ["read", "idem", "idem", "idem", "semi", "mutate", "mutate", "semivfs", "semivfs"],
    "pull": ["read", "idem", "semi", "stream", "stream"],
    "push": ["read", "idem", "semi", "stream", "stream"],
    "fetch": ["read", "semi", "stream", "stream"],
    "set_tag": ["read", "idem", "semi"],
    "del_tag": ["read", "idem", "semi"],
    "conf_set": ["read", "idem", "semi"],
    "lock": ["semi"],
    "unlock": ["semi"],
    "set_last": ["read", "idem", "semi"],
    "set_parent": ["idem", "semi"],
    "stack": ["read", "idem", "semi", "semi", "stream"],
}


def config(tier):
    if tier == "thorough":
        return {"budget_s": 700, "run_timeout": 180, "selftest": 12}
    return {"budget_s": 50, "run_timeout": 180, "selftest": 6}


# ----------------------------------------------------------------------------------------
# generation (pure)


def _lh_len(mh, rid):
    n = 0
    while rid:
        n += 1
        ps = mh.revs[rid]["parents"]
        rid = ps[0] if ps else None
    return n


def generate(rng, tier):
    fmt = rng.choice(storesim.FORMATS)
    mh = MHist()
    base = gen_chain(rng, mh, None, rng.randint(1, 4), "b")
    bids = [s["id"] for s in base]
    side = gen_chain(rng, mh, rng.choice(bids), rng.randint(0, 2), "x")
    div = gen_chain(rng, mh, rng.choice(bids[:-1] or bids), rng.randint(1, 2), "d")  # a line that diverges from the initial tip
    ext = gen_chain(rng, mh, bids[-1], rng.randint(2, 6), "s", merge_from=[s["id"] for s in side])
    src = base + side + div + ext
    src_ids = [s["id"] for s in src]
    tip = bids[-1]
    revs = set(mh.ancestry(tip))
    locked = False
    nstack = 0
    ncommit = 0
    tags = set()
    ops = []
    nops = rng.randint(3, 12)
    weights = {
        "commit": 5,
        "pull": 4,
        "push": 3,
        "fetch": 2,
        "set_tag": 3,
        "del_tag": 1,
        "get_tags": 2,
        "conf_set": 3,
        "conf_get": 2,
        "lock": 2,
        "parent_map": 2,
        "info": 2,
        "rev": 2,
        "tree": 2,
        "revno_of": 1,
        "get_rev_id": 1,
        "set_last": 2,
        "set_parent": 1,
        "get_parent": 1,
        "stack": 1.5,
        "reopen": 1,
        "has_rev": 1,
        "all_revs": 1,
        "append_only": 0.7,
        "handoff": 2.2,
    }
    kinds = sorted(weights)
    inner = [x for x in kinds if x not in ("lock", "stack", "reopen", "handoff")]
    forced = []  # operation kinds of an outer lock span still to be generated
    nspans = rng.choice([0, 1, 1, 1, 2, 2])
    span_at = sorted(rng.sample(range(0, max(1, nops - 1)), min(nspans, max(1, nops - 1)))) if nspans else []
    spans = []  # [first, last] op index of every outer lock span (lock ... unlock)
    while len(ops) < nops or forced:
        if not forced and not locked and span_at and len(ops) >= span_at[0]:
            span_at.pop(0)
            # SEVERAL operations inside ONE outer branch write lock
            t = rng.random()
            if t < 0.22:
                body = ["commit", "pull_new", "commit"] + rng.choice([[], ["info"], ["get_tags"], ["pull_new", "commit"]])
            elif t < 0.32:
                body = rng.choice([["pull_new", "commit"], ["commit", "push_new", "tree"], ["commit", "fetch", "set_last", "commit"]])
            elif t < 0.67:
                body = ["set_tag"] + rng.choice([["get_tags", "set_tag"], ["pull_new", "get_tags", "set_tag"], ["del_tag", "get_tags"], ["set_tag", "pull_new", "del_tag", "get_tags"]])
            elif t < 0.72:
                body = rng.sample(["conf_set", "conf_get", "set_parent", "get_parent", "conf_set"], rng.randint(2, 4))
            elif t < 0.86:
                # a pending config-stack write, then the first operation that falls back to the VFS branch
                # (fresh objects: the RemoteBranch's VFS twin does not exist yet)
                div = [r for r in src_ids if tip not in mh.ancestry(r) and r not in mh.ancestry(tip)]
                follow = rng.choice([{"op": "pull", "rev": rng.choice(div), "overwrite": True, "_keep_tip": True}] * 3 + ["commit"]) if div else "commit"
                body = [{"op": "append_only", "value": True}] + rng.choice([[], ["conf_set"]]) + [follow] + rng.choice([[], ["info"], ["commit"]])
                ops.append({"op": "reopen"})
            elif t < 0.93 and [r for r in src_ids if r not in revs]:
                # ask about a revision that is not there yet (negative caches), make it arrive, ask again
                rid = rng.choice([r for r in src_ids if r not in revs])
                ask = [{"op": "parent_map", "keys": sorted({rid, tip})}, {"op": "has_rev", "rev": rid}, {"op": "rev", "rev": rid}, {"op": "revno_of", "rev": rid}]
                body = rng.sample(ask, rng.randint(1, 2))
                if rng.random() < 0.4:
                    body.insert(0, "commit")  # attaches the VFS repository first
                body.append(rng.choice([{"op": "pull", "rev": rid, "overwrite": True}, {"op": "fetch", "rev": rid}, {"op": "push", "rev": rid, "overwrite": True}]))
                body += rng.sample(ask, rng.randint(1, 3))
            else:
                body = [rng.choices(inner, [weights[x] for x in inner])[0] for _ in range(rng.randint(2, 5))]
            forced = ["lock"] + body + ["unlock"]
            spans.append([len(ops), len(ops) + len(forced) - 1])
        if forced and isinstance(forced[0], dict):
            op = forced.pop(0)
            ops.append(op)
            if op["op"] in ("pull", "push", "fetch"):
                revs |= mh.ancestry(op["rev"])
                if op["op"] != "fetch" and not op.get("_keep_tip"):
                    tip = op["rev"]
            continue
        if forced:
            k = forced.pop(0)
        else:
            k = rng.choices(kinds, [weights[x] for x in kinds])[0]
            if locked and rng.random() < 0.3:
                k = "unlock"
        want_new = k.endswith("_new")
        if want_new:
            k = k[:-4]
        some_rev = rng.choice(sorted(revs) + src_ids[:2]) if rng.random() < 0.85 else rng.choice(src_ids + ["nope-1"])
        if k == "commit":
            ncommit += 1
            parents = [tip]
            cand = sorted(r for r in revs if r not in mh.ancestry(tip))
            if cand and rng.random() < 0.3:
                parents.append(rng.choice(cand))
            spec = gen_spec(rng, mh, f"c-{ncommit}", parents, 1_600_000_000 + 10 * ncommit)
            ops.append({"op": "commit", "spec": spec})
            tip = spec["id"]
            revs.add(tip)
        elif k in ("pull", "push"):
            rid = rng.choice(src_ids)
            if want_new:
                # something that really transfers revisions and moves the tip
                newer = [r for r in src_ids if r not in revs and tip in mh.ancestry(r)]
                other = [r for r in src_ids if r not in revs]
                rid = rng.choice(newer) if newer else (rng.choice(other) if other else rid)
            ow = rng.random() < 0.3 or (want_new and tip not in mh.ancestry(rid))
            ops.append({"op": k, "rev": rid, "overwrite": ow})
            anc = mh.ancestry(rid)
            revs |= anc
            if tip in anc or ow:
                tip = rid
        elif k == "fetch":
            rid = rng.choice(src_ids)
            ops.append({"op": "fetch", "rev": rid})
            revs |= mh.ancestry(rid)
        elif k == "set_tag":
            name = rng.choice(TAG_NAMES)
            tags.add(name)
            ops.append({"op": "set_tag", "name": name, "rev": some_rev})
        elif k == "del_tag":
            ops.append({"op": "del_tag", "name": rng.choice(sorted(tags) or TAG_NAMES)})
        elif k == "conf_set":
            ops.append({"op": "conf_set", "key": rng.choice(CONF_KEYS), "value": rng.choice(CONF_VALUES)})
        elif k == "conf_get":
            ops.append({"op": "conf_get", "key": rng.choice(CONF_KEYS)})
        elif k == "append_only":
            ops.append({"op": "append_only", "value": rng.random() < 0.6})
        elif k == "handoff":
            if locked:
                continue
            ops.append({"op": "handoff"})
            # ... and the object goes on being used with ordinary locking
            forced = [rng.choice(["set_tag", "conf_set", "set_last", "info", "commit", "pull"]) for _ in range(rng.randint(1, 3))] + forced
        elif k == "lock":
            if locked:
                continue
            locked = True
            ops.append({"op": "lock"})
        elif k == "unlock":
            locked = False
            ops.append({"op": "unlock"})
        elif k == "parent_map":
            keys = {rng.choice(sorted(revs) + ["nope-1"]) for _ in range(rng.randint(1, 4))}
            if rng.random() < 0.12:
                keys.add("null:")
            keys = sorted(keys)
            ops.append({"op": "parent_map", "keys": keys})
        elif k in ("rev", "tree", "revno_of", "has_rev"):
            ops.append({"op": k, "rev": some_rev})
        elif k == "get_rev_id":
            ops.append({"op": "get_rev_id", "revno": rng.randint(0, _lh_len(mh, tip) + 1)})
        elif k == "set_last":
            rid = rng.choice(sorted(revs))
            revno = _lh_len(mh, rid)
            if rng.random() < 0.1:
                revno += 1  # a wrong revno is stored as given by both implementations
            ops.append({"op": "set_last", "revno": revno, "rev": rid})
            tip = rid
        elif k == "set_parent":
            ops.append({"op": "set_parent", "to": rng.choice(["src", "none", "self"])})
        elif k == "stack":
            if locked or nstack >= 2:
                continue
            nstack += 1
            ops.append({"op": "stack", "name": f"st{nstack}", "rev": rng.choice(sorted(mh.ancestry(tip)))})
        elif k == "reopen":
            if locked:
                continue
            ops.append({"op": "reopen"})
        else:
            ops.append({"op": k})
    if locked:
        ops.append({"op": "unlock"})
    plan = {
        "fmt": fmt,
        "nbase": len(base),
        "src": src,
        "ops": ops,
        "server": rng.choice(["pipe", "socket"]),
        "client_read": rng.choice(["atmost", "atmost", "greedy"]),
        "seg": {"m": rng.choice(["hot", "hot", "rand", "whole"]), "ph": rng.choice([0.1, 0.3, 0.6]), "sh": rng.random() < 0.6, "s": rng.randrange(1 << 30)},
        "resets": [],
    }
    if rng.random() < 0.5:
        plan["src_tags"] = {name: rng.choice(src_ids) for name in rng.sample(["s-tag", "t1", "rel 1.0"], rng.randint(1, 2))}
    in_span = {j for a, b in spans for j in range(a + 1, b)}
    if rng.random() < 0.65:
        w = [(10 if o["op"] == "commit" else 4) if o["op"] in ("commit", "pull", "push", "fetch", "stack") else (2 if o["op"] in OP_CLASSES else 1) for o in ops]
        w = [x * ((25 if ops[j]["op"] == "set_tag" else 8 if ops[j]["op"] == "del_tag" else 3) if j in in_span else 1) for j, x in enumerate(w)]
        i = rng.choices(range(len(ops)), w)[0]
        classes = OP_CLASSES.get(ops[i]["op"], ["read"])
        deep = ops[i]["op"] == "commit"  # a commit through the VFS verbs makes dozens of requests
        cls = rng.choice(classes + ["any"])
        if ops[i]["op"] in OP_VERBS and rng.random() < (0.6 if deep else 0.4):
            cls = "verb:" + rng.choice(OP_VERBS[ops[i]["op"]])
        plan["resets"].append(
            {
                "op": i,
                "cls": cls,
                "nth": rng.choice([0, 1, 1, 2, 2, 3, 4, 5, 6, 8]) if deep else rng.choice([0, 0, 0, 0, 1, 1, 2, 3]),
                # send2 / eof_send: the client's own single retry is reset as well, so the operation fails
                "kind": rng.choice(["send", "eof_after", "eof_after", "send2", "send2", "eof_send"]),
                "write": rng.choice([0, 0, 1, 2]),
                # how the session goes on after a failure the client may report: retry the operation on the
                # same objects (inside the same lock), or break_lock + fresh objects
                "recover": rng.choice(["inplace", "inplace_reset", "inplace_reset", "reopen"]),
            }
        )
        if ops[i]["op"] in ("set_tag", "del_tag") and i in in_span and rng.random() < 0.7:
            # a tag write that fails for good inside an outer lock and is repeated there
            plan["resets"][-1].update(cls="verb:Branch.set_tags_bytes", nth=0, kind=rng.choice(["send2", "send2", "eof_send"]), recover="inplace_reset")
        if ops[i]["op"] in STORE_ERR_OPS and rng.random() < 0.3:
            # instead of a reset: the SERVER's disk fails once (an error response, the connection stays usable)
            simple = ops[i]["op"] not in ("pull", "push", "fetch")
            plan["resets"][-1].update(kind="store_err", at=rng.randint(1, 3) if simple else rng.randint(1, 14), err=rng.choice(["transport", "enospc", "permission"]), cls="none")
    return plan


def shrink_candidates(plan):
    import copy

    ops = plan["ops"]
    rs = plan.get("resets", [])
    # drop single operations (keeping lock/unlock pairs balanced and the reset on its op)
    for i, op in enumerate(ops):
        if op["op"] in ("lock", "unlock"):
            continue
        if any(r["op"] == i for r in rs):
            continue
        p = copy.deepcopy(plan)
        del p["ops"][i]
        for r in p["resets"]:
            if r["op"] > i:
                r["op"] -= 1
        yield p
    # drop a lock/unlock pair
    for i, op in enumerate(ops):
        if op["op"] == "lock":
            for j in range(i + 1, len(ops)):
                if ops[j]["op"] == "unlock":
                    if any(r["op"] in (i, j) for r in rs):
                        break
                    p = copy.deepcopy(plan)
                    del p["ops"][j]
                    del p["ops"][i]
                    for r in p["resets"]:
                        r["op"] -= (r["op"] > i) + (r["op"] > j)
                    yield p
                    break
    if rs:
        p = copy.deepcopy(plan)
        p["resets"] = []
        yield p
    if plan["seg"].get("m") != "whole":
        p = copy.deepcopy(plan)
        p["seg"] = {"m": "whole", "s": 0}
        yield p
    if plan.get("server") != "pipe":
        p = copy.deepcopy(plan)
        p["server"] = "pipe"
        yield p


# ----------------------------------------------------------------------------------------
# observation of the client's requests (installed once, consults the current simulation)


class _Watch:
    """Per-run record of the requests the client put on the wire to B."""

    def __init__(self, sim, ww):
        self.sim = sim
        self.ww = ww
        self.sends = []  # (request index, verb, class)
        self.pending = None  # reset spec of the operation being executed
        self.matching = 0
        self.armed = None  # dict describing the reset that was placed
        self.op_verbs = []
        self.retried = []
        self.unsafe = []  # verbs re-sent although their body stream had been (partly) consumed


def _watch():
    try:
        return getattr(cur_sim(), "c32_watch", None)
    except RuntimeError:
        return None


def _install_hooks():
    from breezy.bzr.smart import client, request

    if getattr(client._SmartClientRequest._send_no_retry, "_c32", False):
        return
    orig = client._SmartClientRequest._send_no_retry

    def _send_no_retry(self, encoder):
        w = _watch()
        if w is not None and getattr(self.client._medium, "wire", None) is w.ww:
            idx = w.ww.nreq  # this send becomes request number idx of the world
            try:
                cls = request.request_handlers.get_info(self.method)
            except KeyError:
                cls = "unknown"
            verb = self.method.decode("latin-1")
            nsent = getattr(self, "_c32_sent", 0)
            self._c32_sent = nsent + 1
            prev = getattr(self, "_c32_encoder", None)
            self._c32_encoder = encoder
            if nsent and self.body_stream is not None and getattr(prev, "body_stream_started", False):
                w.unsafe.append(verb)
            w.sends.append((idx, verb, cls))
            w.op_verbs.append(verb)
            if nsent:
                w.sim.probe("client_retry_sent_twice")
                w.retried.append(verb)
            spec = w.pending
            if spec is not None and w.armed is None and not nsent and spec["cls"] in ("any", cls, "verb:" + verb):
                if w.matching == spec["nth"]:
                    first = {"send2": "send", "eof_send": "eof_after"}.get(spec["kind"], spec["kind"])
                    rec = {"req": idx, "kind": first, "write": spec.get("write", 0)}
                    w.ww.resets.append(rec)
                    w.armed = {"req": idx, "verb": verb, "cls": cls, "kind": spec["kind"], "stream": self.body_stream is not None, "encoder": encoder, "reset": rec, "request": self, "double": first != spec["kind"]}
                w.matching += 1
            a = w.armed
            if nsent and a is not None and a["double"] and a["request"] is self and not a.get("second"):
                a["second"] = {"req": idx, "kind": "send", "write": 0}  # the client's one retransmission is lost too
                w.ww.resets.append(a["second"])
        return orig(self, encoder)

    _send_no_retry._c32 = True
    client._SmartClientRequest._send_no_retry = _send_no_retry


# ----------------------------------------------------------------------------------------
# the two sides


def _b(s):
    return s.encode("utf-8") if isinstance(s, str) else s


def _s(b):
    return b.decode("utf-8", "replace") if isinstance(b, bytes) else b


class Failed:
    def __init__(self, exc):
        self.exc = exc
        self.name = type(exc).__name__

    def __repr__(self):
        return f"Failed({self.name}: {str(self.exc)[:200]})"


def norm(v):
    """Normal form of a returned value (JSON-like, comparable)."""
    from breezy import branch as _mod_branch
    from breezy import repository as _mod_repository
    from breezy import revision as _mod_revision

    if isinstance(v, Failed):
        return ["failed"]
    if v is None or isinstance(v, (bool, int, str)):
        return v
    if isinstance(v, bytes):
        return _s(v)
    if isinstance(v, (_mod_branch.PullResult, _mod_branch.BranchPushResult)):
        return ["result", v.old_revno, _s(v.old_revid), v.new_revno, _s(v.new_revid), norm(getattr(v, "tag_conflicts", None) or [])]
    if isinstance(v, _mod_repository.FetchResult):
        return "fetched"
    if isinstance(v, _mod_revision.Revision):
        return ["rev", [_s(p) for p in v.parent_ids], v.message, v.timestamp, v.timezone, v.committer, sorted((k, _s(x)) for k, x in v.properties.items()), _s(v.inventory_sha1)]
    if isinstance(v, dict):
        return sorted([norm(k), norm(x)] for k, x in v.items())
    if isinstance(v, (set, frozenset)):
        return sorted(norm(x) for x in v)
    if isinstance(v, (list, tuple)):
        return [norm(x) for x in v]
    return type(v).__name__


class Side:
    """One store and the way it is reached (local URL or smart-server URL)."""

    def __init__(self, name, access_url, local_url, src_url, fmt):
        self.name = name
        self.access = access_url
        self.local = local_url
        self.src_url = src_url
        self.fmt = fmt
        self.branch = None
        self.src = None
        self.depth = 0

    def open(self):
        from breezy.branch import Branch

        self.branch = Branch.open(self.access + "br")
        self.src = Branch.open(self.src_url + "br")
        self.depth = 0

    def drop(self):
        self.branch = None
        self.src = None
        self.depth = 0

    def run(self, op):
        try:
            return self._run(op)
        except Exception as e:  # noqa: BLE001 - compared with the other side's outcome
            if cur_sim().violation is not None:
                raise cur_sim().violation from None
            return Failed(e)

    def _run(self, op):
        from breezy import controldir
        from breezy.branch import Branch

        k = op["op"]
        b = self.branch
        if k == "commit":
            storesim.commit_specs(b, [op["spec"]])
            return _s(b.last_revision())
        if k == "pull":
            return b.pull(self.src, overwrite=op["overwrite"], stop_revision=_b(op["rev"]))
        if k == "push":
            return self.src.push(b, overwrite=op["overwrite"], stop_revision=_b(op["rev"]))
        if k == "fetch":
            return b.repository.fetch(self.src.repository, revision_id=_b(op["rev"]))
        if k == "set_tag":
            b.tags.set_tag(op["name"], _b(op["rev"]))
            return None
        if k == "del_tag":
            b.tags.delete_tag(op["name"])
            return None
        if k == "get_tags":
            return b.tags.get_tag_dict()
        if k == "append_only":
            b.set_append_revisions_only(bool(op["value"]))
            return None
        if k == "handoff":
            # lock token hand-off on a REUSED object: leave the lock in place, another party takes it over
            # with the token and releases it for good; afterwards this object is used as before
            tok = b.lock_write().token
            b.leave_lock_in_place()
            b.unlock()
            other = Branch.open(self.access + "br")
            other.lock_write(token=tok)
            other.dont_leave_lock_in_place()
            other.unlock()
            return "handed-off"
        if k == "conf_set":
            b.get_config_stack().set(op["key"], op["value"])
            return None
        if k == "conf_get":
            return b.get_config_stack().get(op["key"])
        if k == "lock":
            b.lock_write()
            self.depth += 1
            return "locked"
        if k == "unlock":
            if self.depth:
                self.depth -= 1
                b.unlock()
            return "unlocked"
        if k in ("parent_map", "rev", "tree", "has_rev", "all_revs"):
            with b.repository.lock_read():
                return self._read(op)
        if k == "info":
            return b.last_revision_info()
        if k == "revno_of":
            return b.revision_id_to_revno(_b(op["rev"]))
        if k == "get_rev_id":
            return b.get_rev_id(op["revno"])
        if k == "set_last":
            b.set_last_revision_info(op["revno"], _b(op["rev"]))
            return None
        if k == "set_parent":
            to = {"src": self.src_url + "br", "none": None, "self": None}[op["to"]]
            if op["to"] == "self":
                to = b.base
            b.set_parent(to)
            return None
        if k == "get_parent":
            p = b.get_parent()
            return p.replace(self.access, "<base>/") if p else p
        if k == "stack":
            nb = controldir.ControlDir.create_branch_convenience(self.access + op["name"], format=storesim.fmt_obj(self.fmt), force_new_tree=False)
            nb.set_stacked_on_url("../br")
            nb = Branch.open(self.access + op["name"])
            r = nb.pull(b, stop_revision=_b(op["rev"]))
            return [norm(r), _s(nb.get_stacked_on_url())]
        if k == "reopen":
            self.open()
            return None
        raise AssertionError(k)


def _read_ops(self, op):
    k = op["op"]
    repo = self.branch.repository
    if k == "parent_map":
        return repo.get_parent_map([_b(x) for x in op["keys"]])
    if k == "rev":
        return repo.get_revision(_b(op["rev"]))
    if k == "tree":
        tree = repo.revision_tree(_b(op["rev"]))
        out = []
        for path, ie in tree.iter_entries_by_dir():
            sha = hashlib.sha1(tree.get_file_text(path)).hexdigest() if ie.kind == "file" else None
            out.append([path, _s(ie.file_id), ie.kind, sha, _s(ie.revision)])
        return out
    if k == "has_rev":
        return repo.has_revision(_b(op["rev"]))
    if k == "all_revs":
        return sorted(repo.all_revision_ids())
    raise AssertionError(k)


Side._read = _read_ops


def observe(side, names, mh, seen):
    """The store of `side` as a fresh local process reads it.  `seen`: revision ids of
    this store already verified against the model (verified again at the end)."""
    from breezy import errors
    from breezy.branch import Branch, UnstackableBranchFormat

    storesim.clear_caches()
    out = {}
    repo = None
    for name in names:
        try:
            b = Branch.open(side.local + name)
        except errors.NotBranchError:
            out[name] = None
            continue
        d = {}
        with b.lock_read():
            d["tip"] = norm(b.last_revision_info())
            d["tags"] = norm(b.tags.get_tag_dict())
            st = b.get_config_stack()
            d["conf"] = [[k, norm(st.get(k))] for k in OBSERVED_CONF]
            p = b.get_parent()
            d["parent"] = p.replace(side.local, "<base>/") if p else p
            try:
                d["stacked"] = b.get_stacked_on_url()
            except (errors.NotStacked, UnstackableBranchFormat, errors.UnstackableRepositoryFormat):
                d["stacked"] = None
            d["phys"] = bool(b.get_physical_lock_status())
            if name == "br":
                repo = b.repository
                ids = sorted(repo.all_revision_ids())
                out["revs"] = [_s(r) for r in ids]
                new = [r for r in ids if r not in seen]
                prob = storesim.readable(repo, mh, new)
                if prob:
                    out["unreadable"] = prob
                meta = seen
                for r in new:
                    if "unreadable" not in out:
                        meta[r] = hashlib.sha1(repr(norm(repo.get_revision(r))).encode()).hexdigest()[:16]
                out["meta"] = sorted((_s(r), meta.get(r)) for r in ids)
            else:
                d["revs"] = sorted(_s(r) for r in b.repository.all_revision_ids())
        out[name] = d
    return out


def obs_diff(a, b, ignore=()):
    out = []
    for k in sorted(set(a) | set(b)):
        va, vb = a.get(k), b.get(k)
        if isinstance(va, dict) and isinstance(vb, dict):
            for f in sorted(set(va) | set(vb)):
                if f in ignore:
                    continue
                if va.get(f) != vb.get(f):
                    out.append(f"{k}.{f}")
        elif va != vb:
            out.append(k)
    return out


def components(o):
    """Flat {component: value} view used by the relaxed (pre-or-post) oracle."""
    out = {}
    for k, v in o.items():
        if isinstance(v, dict):
            for f, x in v.items():
                if f != "phys":
                    out[f"{k}.{f}"] = x
        elif k not in ("meta", "unreadable"):
            out[k] = v
    return out


# ----------------------------------------------------------------------------------------


def warm():
    storesim.warm()
    wiresim.warm()
    wiresim.pin_lock_info()
    _install_hooks()
    import random

    import breezy.bzr.remote  # noqa: F401
    from simkit.sim import Sim

    for seed in (11, 12):
        plan = generate(random.Random(seed), "quick")
        plan["resets"] = []
        try:
            execute(Sim(0, plan, step_cap=STEP_CAP), plan)
        except Exception:  # noqa: BLE001, S110 - import warming only; real runs judge
            pass
    world.reset_stores()
    # every run is a forked child of this process: keep the collector from walking (and thereby
    # copying) the warmed heap in each child
    import gc

    gc.collect()
    gc.freeze()


def execute(sim, plan):
    from breezy import errors
    from breezy.branch import Branch
    from breezy.transport import get_transport

    _install_hooks()
    sim.disarm()
    world.setup_sim(sim)
    fmt = plan["fmt"]
    src = plan["src"]
    mh = replay_model(src)
    for op in plan["ops"]:
        if op["op"] == "commit":
            mh.add(op["spec"])
    base = src[: plan["nbase"]]
    url_a = world.new_store("a")
    url_b = world.new_store("b")
    url_s = world.new_store("s")
    for url in (url_a, url_b):
        storesim.commit_specs(storesim.make_branch(url + "br", fmt), base)
    sbranch = storesim.make_branch(url_s + "br", fmt)
    storesim.commit_specs(sbranch, src)
    for name, rid in sorted((plan.get("src_tags") or {}).items()):
        sbranch.tags.set_tag(name, _b(rid))
    del sbranch
    ww = wiresim.WireWorld(sim, get_transport(url_b), server=plan.get("server", "pipe"), server_read="atmost", client_read=plan.get("client_read", "atmost"), seg=plan.get("seg"), name="b")
    watch = sim.c32_watch = _Watch(sim, ww)
    A = Side("A", url_a, url_a, url_s, fmt)
    B = Side("B", wiresim.loopback_url(ww), url_b, url_s, fmt)
    names = ["br"]
    seen_a, seen_b = {}, {}
    faulty = bool(plan.get("resets"))
    mode = "faulty" if faulty else "clean"
    A.open()
    B.open()
    nmut = [0]  # mutating store operations so far (all stores)

    def count_mut(sim_, actor, phase, opname, path, extra):
        if phase == "before" and opname in MUTATING_OPS:
            nmut[0] += 1

    sim.monitors.append(count_mut)
    obs_a = observe(A, names, mh, seen_a)
    obs_b = observe(B, names, mh, seen_b)
    d = obs_diff(obs_a, obs_b)
    if d or "unreadable" in obs_a:
        raise AssertionError(f"harness: initial stores differ {d} {obs_a.get('unreadable')}")
    changed = False
    fired_any = False

    def check_readable(o, who, opk):
        if "unreadable" in o:
            sim.fail("unreadable", ["unreadable", who, opk, mode], f"store {who} after {opk}: {o['unreadable']}")

    pulled_in_span = False  # a pull ran inside the outer lock span that is still open
    pending_append_only = False
    src_tag_names = set(plan.get("src_tags") or {})

    def stale_tags_after_pull(opk, ra, rb, d):
        """The one deviation with a known cause: RemoteBranch.pull runs on the VFS branch and
        merges the source's tags there; the RemoteBranch's own tags cache (valid for the whole
        outer lock) is not invalidated, so tag reads are stale and tag writes put the stale dict back."""
        if not (pulled_in_span and A.depth and src_tag_names and opk in ("get_tags", "set_tag", "del_tag")):
            return False
        if opk == "get_tags":
            ta, tb = dict(map(tuple, norm(ra))), dict(map(tuple, norm(rb)))
        else:
            if d != ["br.tags"]:
                return False
            ta, tb = dict(map(tuple, obs_a["br"]["tags"])), dict(map(tuple, obs_b["br"]["tags"]))
        missing = {k for k in ta if ta[k] != tb.get(k)}
        return bool(missing) and missing <= src_tag_names and all(k in ta for k in tb)

    for i, op in enumerate(plan["ops"]):
        opk = op["op"]
        if not A.depth:
            pulled_in_span = False  # no outer lock is open
            pending_append_only = False
        elif opk == "pull":
            pulled_in_span = True
        if opk == "append_only" and A.depth:
            pending_append_only = bool(op["value"])  # set on the config stack, saved only when the outer lock is released
        if opk == "stack" and op["name"] not in names:
            names.append(op["name"])
        pre_a = obs_a
        if opk == "stack":
            pre_a = observe(A, names, mh, seen_a)
        m0 = nmut[0]
        ra = A.run(op)
        if nmut[0] != m0 or opk == "stack":
            obs_a = observe(A, names, mh, seen_a)  # (an operation without a mutating store operation leaves the observation valid)
        check_readable(obs_a, "A", opk)
        # -- the same on B, through the server, possibly with a reset -------------------
        watch.pending = next((r for r in plan.get("resets", []) if r["op"] == i), None)
        watch.matching = 0
        watch.armed = None
        del watch.op_verbs[:]
        del watch.retried[:]
        n0 = ww.nreq
        spec = watch.pending
        store_err = spec is not None and spec["kind"] == "store_err"
        if store_err:
            watch.pending = None
            nerr0 = sim.faults_fired["err_before"]
            sim.arm([{"kind": "err_before", "at": spec["at"], "count": "mut", "err": spec["err"]}])
        m0 = nmut[0]
        rb = B.run(op)
        b_mutated = nmut[0] != m0 or opk == "stack"
        sim.disarm()
        watch.pending = None
        armed = watch.armed
        if store_err and sim.faults_fired["err_before"] > nerr0:
            armed = {"kind": "store_err", "cls": spec["err"], "verb": "server-disk", "stream": False, "encoder": None, "reset": {"done": True}}
        fired = bool(armed and armed["reset"].get("done"))
        ww.resets = [r for r in ww.resets if r.get("done")]
        if b_mutated:
            obs_b = observe(B, names, mh, seen_b)
        sim.event("op", i, opk, "A", "failed:" + ra.name if isinstance(ra, Failed) else "ok", "B", "failed:" + rb.name if isinstance(rb, Failed) else "ok", ww.nreq - n0, "fired" if fired else "")
        sim.state_seen((opk, isinstance(ra, Failed), isinstance(rb, Failed), (armed["kind"], armed["cls"]) if fired else None, fmt))
        check_readable(obs_b, "B", opk)
        if pre_a != obs_a and ww.nreq > n0:
            changed = True
        a_ok = not isinstance(ra, Failed)
        b_ok = not isinstance(rb, Failed)
        tag = [armed["kind"], armed["cls"], armed["verb"]] if fired else ["none"]
        if fired:
            fired_any = True
            sim.probe(f"reset_{armed['kind']}_{armed['cls']}")
            sim.probe("reset_fired")
            sim.probe(f"reset_at_{armed['verb']}")
        if pending_append_only and opk in ("commit", "set_last", "push") and not a_ok and ra.name == "AppendRevisionsOnlyViolation" and (b_ok or fired):
            sim.fail(
                "pending_config_invisible_to_rpc",
                ["pending_config_invisible_to_rpc", "append_revisions_only"],
                f"op {i} {op}: inside one outer write lock set_append_revisions_only(True) is pending on the branch's config stack (saved at unlock); locally the tip change is refused "
                f"({ra!r:.160}); through the server it goes through the Branch.set_last_revision_info RPC, whose handler reads the stored branch.conf and accepts it: B -> {rb!r:.160}, tip {obs_b['br']['tip']}",
            )
        if watch.unsafe:
            sim.fail(
                "resent_consumed_stream",
                ["resent_consumed_stream", watch.unsafe[0]] + tag,
                f"op {i} {opk}: the client sent {watch.unsafe[0]} a second time after its body stream had started (the stream cannot be replayed: the second request carries a truncated body); reset {tag}",
            )
        m = ww.shared_medium
        if fired and armed.get("double") and armed.get("second", {}).get("done") and m is not None and m._current_request is not None:
            sim.fail(
                "inplace_retry",
                ["inplace_retry", "medium-unusable-after-failed-retransmission"],
                f"op {i} {op}: {armed['verb']} was reset {tag} and the client's one retransmission was reset too; the operation ended with {rb!r:.200} and left the client medium with _current_request set: every later call on it raises TooManyConcurrentRequests "
                "(_SmartClientRequest._send/_call reset the medium only after the FIRST ConnectionResetError); e.g. the unlock in the caller's finally block cannot be sent and the server-side lock leaks",
            )
        must_hide = True
        if fired:
            if armed["kind"] == "send":
                must_hide = not (armed["stream"] and getattr(armed["encoder"], "body_stream_started", False))
            elif armed["kind"] in ("send2", "eof_send", "store_err"):
                must_hide = False  # the client retries once; two resets in a row (or a server-side disk error) it has to report
            else:
                must_hide = armed["cls"] in ("read", "idem")
        if fired and not must_hide and b_ok and opk in ("set_parent", "conf_set", "append_only"):
            # branch.conf-backed values are saved inside unlock (client side at the outer unlock, server side at the end
            # of the verb), whose errors breezy suppresses by design: the write may be lost although the call returned
            # normally; the user repeats it
            sim.probe("config_write_repeated_after_suppressed_save_error")
            B.run(op)
            obs_b = observe(B, names, mh, seen_b)
        strict_ok = a_ok == b_ok and (not a_ok or norm(ra) == norm(rb)) and not obs_diff(obs_a, obs_b, ignore=DEFERRED if A.depth else ())
        if fired and not must_hide and b_ok and not strict_ok:
            # the operation reported success although a request of it failed for good (errors of
            # unlock are suppressed by design): what it reported must be true - only the lock may have leaked
            # branch.conf changes are saved by unlock, whose errors breezy suppresses by design (only_raises) -
            # locally just as remotely - so a lost save of them is not held against the remote path
            d = obs_diff(obs_a, obs_b, ignore=("phys",) + DEFERRED)
            if obs_diff(obs_a, obs_b, ignore=("phys",)) and not d:
                sim.probe("config_save_lost_in_suppressed_unlock_error")
            if not a_ok or norm(ra) != norm(rb) or d:
                sim.fail(
                    "false_success",
                    ["false_success", opk, ",".join(d) or "result"] + tag,
                    f"op {i} {op} returned normally on B ({norm(rb)!r:.200}; locally {ra!r:.200}) although {tag} made a request of it fail; stores differ in {d}: A={[_pick(obs_a, x) for x in d]!r:.600} B={[_pick(obs_b, x) for x in d]!r:.600}; verbs {watch.op_verbs}",
                )
            sim.probe("lock_leaked_by_suppressed_unlock_error")
        if fired and not must_hide and not strict_ok:
            # ---- relaxed oracle: a failure the client is allowed to report ---------------
            sim.probe("relaxed_failure")
            sim.probe(f"relaxed_failure_{armed['cls']}")
            sim.event("relaxed", armed["verb"], getattr(rb, "name", "ok"))
            if armed["verb"] in watch.retried and armed["kind"] in ("eof_after", "eof_send") and armed["cls"] in ("stream", "mutate", "semivfs"):
                sim.fail("resent", ["resent", armed["cls"], armed["verb"]], f"op {i} {opk}: the client re-sent {armed['verb']} ({armed['cls']}) after a reset ({armed['kind']})")
            spec = next((r for r in plan.get("resets", []) if r["op"] == i), {})
            server_saw_nothing = armed["kind"] in ("send2", "send")
            recover = spec.get("recover", "reopen")
            if not b_ok and recover in ("inplace", "inplace_reset") and opk in INPLACE_OPS and (server_saw_nothing or armed["kind"] == "store_err" or armed["cls"] in ("read", "idem")):
                # ---- the caller simply tries again: same objects, same (outer) lock -------------
                sim.probe("inplace_retry")
                if A.depth:
                    sim.probe("inplace_retry_inside_outer_lock")
                where = "inside-lock" if A.depth else "unlocked"
                rb2 = B.run(op)
                obs_b = observe(B, names, mh, seen_b)
                check_readable(obs_b, "B", opk)
                sim.event("inplace", opk, "failed:" + rb2.name if isinstance(rb2, Failed) else "ok")
                leaked = isinstance(rb2, Failed) and rb2.name == "LockContention" and not A.depth
                if a_ok and isinstance(rb2, Failed) and rb2.name == "TooManyConcurrentRequests" and recover == "inplace":
                    sim.fail(
                        "inplace_retry",
                        ["inplace_retry", "medium-unusable-after-failed-retransmission"],
                        f"op {i} {op}: failed on B with {rb!r} after reset {tag} (the client's one retransmission was reset too); every later call on the same medium - here the same operation repeated ({where}) - fails with {rb2!r:.300}: _SmartClientRequest._send/_call reset the medium only after the FIRST ConnectionResetError, the failed retransmission leaves medium._current_request set",
                    )
                if leaked:
                    # the first attempt died inside the lock acquisition after the server had granted the lock
                    # ('semi' verbs): the lock is left behind; the documented recovery is break_lock (below)
                    sim.probe("inplace_retry_hit_lock_left_by_failed_acquisition")
                elif a_ok and isinstance(rb2, Failed) and armed["kind"] == "eof_send" and not obs_diff(obs_a, obs_b, ignore=DEFERRED if A.depth else ()):
                    sim.probe("inplace_retry_refused_but_first_attempt_had_been_applied")
                    continue
                if not leaked:
                    if a_ok and isinstance(rb2, Failed) and opk == "del_tag" and rb2.name == "NoSuchTag" and A.depth and op["name"] in dict(map(tuple, obs_b["br"]["tags"])):
                        sim.fail(
                            "optimistic_tags_cache",
                            ["optimistic_tags_cache", "failed-delete_tag-cannot-be-repeated-inside-the-lock"],
                            f"op {i} {op}: inside an outer write lock the tag write failed on B ({rb!r:.200}, {tag}) and nothing was stored, but RemoteBranch had put the new tag dict into its cache BEFORE sending it: the repeated delete_tag raises {rb2!r:.120} "
                            f"(and in-lock reads no longer show the tag) while the server still has it: B={obs_b['br']['tags']!r:.200} A={obs_a['br']['tags']!r:.200}",
                        )
                    if a_ok and isinstance(rb2, Failed):
                        sim.fail(
                            "inplace_retry",
                            ["inplace_retry", opk, "failed-again", where] + tag,
                            f"op {i} {op}: failed on B with {rb!r} after reset {tag}; the same call repeated on the same objects ({where}) failed again: {rb2!r:.500}; locally it succeeded ({ra!r:.200})",
                        )
                    if a_ok and opk == "parent_map" and A.depth and armed["verb"] == "Repository.get_parent_map" and not isinstance(rb2, Failed) and norm(rb2) != norm(ra) and all(e in norm(ra) for e in norm(rb2)):
                        lost = [e[0] for e in norm(ra) if e not in norm(rb2)]
                        sim.fail(
                            "inplace_retry",
                            ["inplace_retry", "parent_map", "negative-cache-after-failed-rpc"],
                            f"op {i} {op}: inside an outer lock (parents cache enabled) the Repository.get_parent_map request failed for good ({rb!r:.120}, {tag}); the SAME get_parent_map call repeated on the same RemoteRepository "
                            f"answers without asking the server and reports {lost} as absent: {norm(rb2)!r:.200}, locally {norm(ra)!r:.200}. vcsgraph's (Rust) CachingParentsProvider.get_parent_map records the requested keys as missing "
                            "although the underlying _get_parent_map_rpc raised; they stay in the negative cache (missing_keys) until the cache is reset at unlock / refresh_data",
                        )
                    if a_ok and opk not in ("pull", "push", "fetch") and norm(rb2) != norm(ra):
                        sim.fail("inplace_retry", ["inplace_retry", opk, "value", where] + tag, f"op {i} {op}: repeated after a reported failure ({where}) it returned {norm(rb2)!r:.500}, locally {norm(ra)!r:.500}")
                    d = obs_diff(obs_a, obs_b, ignore=DEFERRED if A.depth else ())
                    if d:
                        sim.fail(
                            "inplace_retry",
                            ["inplace_retry", opk, ",".join(d), where] + tag,
                            f"op {i} {op}: failed on B with {rb!r} after reset {tag}, then repeated on the same objects ({where}) -> {rb2!r:.200}; stores differ in {d}: A={[_pick(obs_a, x) for x in d]!r:.700} B={[_pick(obs_b, x) for x in d]!r:.700}; verbs {watch.op_verbs}",
                        )
                    continue
            A_unlocked = A.depth
            while A.depth:
                A.depth -= 1
                A.branch.unlock()
            # B's client leaves its `with branch.lock_write():` block too: unlock is attempted (it flushes
            # pending branch.conf changes like A's does) on a re-established connection; errors are ignored
            while B.depth and B.branch is not None:
                B.depth -= 1
                try:
                    B.branch.unlock()
                except Exception:  # noqa: BLE001, S110 - whatever is left is broken below
                    pass
            B.drop()
            ww.shared_medium = None
            for nm in names:
                try:
                    Branch.open(url_b + nm).break_lock()
                except errors.NotBranchError:
                    pass
            if A_unlocked:
                obs_a = observe(A, names, mh, seen_a)
            obs_b = observe(B, names, mh, seen_b)
            check_readable(obs_b, "B", opk)
            ca_pre, ca_post, cb = components(pre_a), components(obs_a), components(obs_b)
            skip = set()
            for c in set(cb) | set(ca_post) | set(ca_pre):
                if A_unlocked and c.rpartition(".")[2] in DEFERRED:
                    skip.add(c)  # A's pre-state on disk was stale while it held the lock
                if opk == "stack" and (c == op["name"] or c.startswith(op["name"] + ".")):
                    skip.add(c)  # a half-created new branch is an intermediate state of the operation
            bad = [c for c in sorted(set(cb) | set(ca_post)) if c not in skip and cb.get(c) != ca_post.get(c) and cb.get(c) != ca_pre.get(c)]
            if bad:
                sim.fail(
                    "pre_or_post",
                    ["pre_or_post", opk] + tag + [",".join(bad)],
                    f"op {i} {opk} failed on B ({rb!r}) after reset {tag}; B's {bad} equal neither A's pre- nor post-state: B={[cb.get(c) for c in bad]} pre={[ca_pre.get(c) for c in bad]} post={[ca_post.get(c) for c in bad]}",
                )
            for nm in names:
                o = obs_b.get(nm)
                if opk == "stack" and nm == op["name"]:
                    continue
                if o and o["tip"][1] != "null:" and o["tip"][1] not in (obs_b["revs"] if nm == "br" else o["revs"]):
                    sim.fail("pre_or_post", ["pre_or_post", opk] + tag + ["tip-not-present"], f"op {i} {opk}: after the failed operation B's branch {nm} points at {o['tip']} which is not in the repository")
            A.open()
            B.open()
            if obs_diff(obs_a, obs_b) and opk not in ("lock", "unlock"):
                sim.probe("relaxed_pre_state_rerun")
                redo = op
                if opk == "stack" and obs_b.get(op["name"]) != obs_a.get(op["name"]):
                    # rm -r of the half-created branch directory, then the operation again
                    t = get_transport(url_b)
                    if t.has(op["name"]):
                        t.delete_tree(op["name"])
                    sim.probe("relaxed_partial_branch_removed")
                if opk == "commit" and op["spec"]["id"] in obs_b["revs"]:
                    redo = {"op": "set_last", "revno": obs_a["br"]["tip"][0], "rev": op["spec"]["id"]}
                rb2 = B.run(redo)
                if isinstance(rb2, Failed) and a_ok:
                    sim.fail("recovery", ["recovery", opk] + tag, f"op {i} {opk}: re-running the operation on B after break_lock failed: {rb2!r}")
                if redo is op and a_ok and norm(rb2) != norm(ra) and opk not in ("pull", "push", "stack"):
                    sim.fail("recovery", ["recovery", opk] + tag + ["result"], f"op {i} {opk}: re-run on B returned {norm(rb2)!r}, A returned {norm(ra)!r}")
                obs_b = observe(B, names, mh, seen_b)
                check_readable(obs_b, "B", opk)
            d = obs_diff(obs_a, obs_b)
            if d and opk == "unlock" and all(x.rpartition(".")[2] in DEFERRED for x in d):
                # the save of pending branch.conf values happens in unlock, whose errors are suppressed by design:
                # the values are lost; the user sets them again
                sim.probe("config_save_lost_in_failed_unlock")
                st = B.branch.get_config_stack()
                for key, val in obs_a["br"]["conf"]:
                    if dict(map(tuple, obs_b["br"]["conf"])).get(key) != val:
                        if key == "append_revisions_only":
                            B.branch.set_append_revisions_only(bool(val))
                        elif val is None:
                            st.remove(key)
                        else:
                            st.set(key, val)
                if obs_a["br"]["parent"] != obs_b["br"]["parent"]:
                    pa = obs_a["br"]["parent"]
                    B.branch.set_parent(pa.replace("<base>/", B.access) if pa else None)
                obs_b = observe(B, names, mh, seen_b)
                d = obs_diff(obs_a, obs_b)
            if d:
                sim.fail("recovery", ["recovery", opk] + tag + [",".join(d)], f"op {i} {opk}: after recovery B differs from A in {d}: A={[_pick(obs_a, x) for x in d]} B={[_pick(obs_b, x) for x in d]}")
            continue
        # ---- strict oracle --------------------------------------------------------------
        if a_ok and not b_ok and opk == "del_tag" and rb.name == "NoSuchTag" and pulled_in_span and A.depth and op["name"] in src_tag_names:
            sim.fail(
                "stale_tags_cache",
                ["stale_tags_cache", "pull-inside-outer-write-lock"],
                f"op {i} {op}: inside one outer write lock, after a pull that merged the source's tags {sorted(src_tag_names)}, deleting the merged tag through RemoteBranch raises {rb!r:.120}: its tags cache from before the pull does not have it; locally the tag is deleted",
            )
        if a_ok != b_ok:
            if fired:
                oracle = "retry_not_transparent"
                sig = [oracle, opk] + tag
            else:
                oracle = "result_mismatch"
                sig = [oracle, opk, "A-failed" if b_ok else "B-failed", (ra if b_ok else rb).name, mode]
            sim.fail(oracle, sig, f"op {i} {op}: local -> {ra!r:.600}, through the server -> {rb!r:.600}; verbs {watch.op_verbs}; reset {tag}")
        if a_ok and norm(ra) != norm(rb):
            if opk == "parent_map":
                da, db = dict(map(tuple, ((k, tuple(v)) for k, v in norm(ra)))), dict(map(tuple, ((k, tuple(v)) for k, v in norm(rb))))
                if da.get("null:") == () and "null:" not in db and {k: v for k, v in da.items() if k != "null:"} == db:
                    sim.fail(
                        "result_mismatch",
                        ["result_mismatch", "parent_map", "null-revision-dropped-when-asked-with-other-keys"],
                        f"op {i} {op}: Repository.get_parent_map locally returns {{'null:': ()}} among {norm(ra)!r}; RemoteRepository.get_parent_map returns {norm(rb)!r} (no entry for null:)",
                    )
            if stale_tags_after_pull(opk, ra, rb, []):
                sim.fail(
                    "stale_tags_cache",
                    ["stale_tags_cache", "pull-inside-outer-write-lock"],
                    f"op {i} {op}: inside one outer write lock, after a pull that merged the source's tags {sorted(src_tag_names)}, RemoteBranch.tags.get_tag_dict() returned {norm(rb)!r:.300} (its cache from before the pull); locally {norm(ra)!r:.300}",
                )
            sim.fail("result_mismatch", ["result_mismatch", opk, "value"] + (tag if fired else [mode]), f"op {i} {op}: local returned {norm(ra)!r:.800}, through the server {norm(rb)!r:.800}; verbs {watch.op_verbs}")
        d = obs_diff(obs_a, obs_b, ignore=DEFERRED if A.depth else ())
        if d and stale_tags_after_pull(opk, ra, rb, d):
            sim.fail(
                "stale_tags_cache",
                ["stale_tags_cache", "pull-inside-outer-write-lock"],
                f"op {i} {op}: inside one outer write lock, after a pull that merged the source's tags {sorted(src_tag_names)}, the tag write started from RemoteBranch's tags cache from before the pull and stored it back: the merged tags are lost on the server: A={obs_a['br']['tags']!r:.300} B={obs_b['br']['tags']!r:.300}",
            )
        if d:
            sim.fail(
                "state_mismatch",
                ["state_mismatch", opk, ",".join(d)] + (tag if fired else [mode]),
                f"op {i} {op} (local: {ra!r:.200}, remote: {rb!r:.200}): stores differ in {d}: A={[_pick(obs_a, x) for x in d]!r:.900} B={[_pick(obs_b, x) for x in d]!r:.900}; verbs {watch.op_verbs}; reset {tag}",
            )
        if not a_ok:
            sim.probe("both_failed")

    # ---- end of history: everything once more, from scratch ------------------------------
    for s in (A, B):
        while s.depth:
            s.depth -= 1
            s.branch.unlock()
    seen_a.clear()
    seen_b.clear()
    obs_a = observe(A, names, mh, seen_a)
    obs_b = observe(B, names, mh, seen_b)
    for o, who in ((obs_a, "A"), (obs_b, "B")):
        if "unreadable" in o:
            sim.fail("unreadable", ["unreadable", who, "final", mode], f"store {who} at the end: {o['unreadable']}")
    d = obs_diff(obs_a, obs_b)
    if d:
        sim.fail("state_mismatch", ["state_mismatch", "final", ",".join(d), mode], f"final stores differ in {d}: A={[_pick(obs_a, x) for x in d]!r:.900} B={[_pick(obs_b, x) for x in d]!r:.900}")
    for url, who in ((url_a, "A"), (url_b, "B")):
        prob = storesim.check_clean(storesim.open_repo(url + "br"))
        if prob:
            sim.fail("check", ["check", who, mode], f"repository {who} check(): {prob}")
    sim.probe("histories_clean" if not faulty else "histories_faulty")
    sim.nontrivial = changed and (fired_any or not faulty)


def _pick(o, path):
    k, _, f = path.partition(".")
    v = o.get(k)
    if f and isinstance(v, dict):
        v = v.get(f)
    return v
