"""The working-tree syscall seam: forwarding proxies for the module attributes through
which the tree-transform code touches user files (`os`, `osutils`, `shutil`, `open`,
`delete_any` imported by name).

Every intercepted call is one seam operation:

    sim.before_op("os.rename", <path relative to the tree root>, True, extra)   # may raise the injected OSError
    <the real syscall>
    sim.after_op(...)

Faults: `sim.arm([{"kind": "err_before", "at": k, "count": "mut", "exc": osseam.fault_exception(name, path)}])`
makes the k-th intercepted call since `arm()` raise and have no effect: an OSError for an
errno name (DESIGN 3.4 `os_err`), KeyboardInterrupt / SystemExit for "INT" / "EXIT" (fault
kind `interrupt`: the process is interrupted between two file-system calls but keeps
running its clean-up handlers).  `delete_any`, `chmod_if_possible`, `ensure_empty_directory_exists` are Rust:
they can only be failed as a whole call.

The seam is only active for a thread whose Sim called `osseam.activate(sim, roots)`;
everything else (warm-up, other checks, world construction through the real `os`
module) passes straight through.  Paths are logged relative to the registered roots so
that event logs never contain scratch directories with pids in them.
"""

import builtins
import errno as _errno
import importlib
import os as _os
import re as _re
import shutil as _shutil
import tempfile as _tempfile

from .sim import CTX

ERRNOS = {
    "EACCES": _errno.EACCES,
    "ENOSPC": _errno.ENOSPC,
    "EIO": _errno.EIO,
    "EXDEV": _errno.EXDEV,
    "ENOTEMPTY": _errno.ENOTEMPTY,
}

# modules whose attributes are replaced (the three transform modules; _FileMover, the
# helper all of them delegate file moves to, lives in breezy.transform)
TRANSFORM_MODULES = ("breezy.transform", "breezy.bzr.transform", "breezy.git.transform")


def os_error(name, path=""):
    """The OSError injected for errno `name` (message free of absolute paths)."""
    code = ERRNOS[name] if isinstance(name, str) else int(name)
    return OSError(code, f"{_os.strerror(code)} (injected)", path)


INTERRUPTS = {"INT": KeyboardInterrupt, "EXIT": SystemExit}


def fault_exception(name, path=""):
    """The exception a fault point raises before the intercepted call is made: an OSError
    for an errno name (fault kind `os_err`), KeyboardInterrupt for "INT" / SystemExit for
    "EXIT" (fault kind `interrupt`: Ctrl-C or a signal handler's sys.exit() arriving while
    the code under test is between two file-system calls).  Arm it like any error:
    {"kind": "err_before", "at": k, "count": "mut", "exc": fault_exception(name)}."""
    if name in INTERRUPTS:
        return INTERRUPTS[name]("injected interrupt") if name == "INT" else SystemExit(3)
    return os_error(name, path)


def fault_kind(name):
    return "interrupt" if name in INTERRUPTS else "os_err"


def activate(sim, roots):
    """Switch the seam on for `sim`.  `roots` = {label: absolute directory}; a path below
    a root is logged as `label/rel` (label "" = the tree root itself)."""
    sim.os_seam = True
    sim.os_roots = sorted(((_os.path.realpath(p), lab) for lab, p in roots.items()), key=lambda x: -len(x[0]))


def deactivate(sim):
    sim.os_seam = False


def _sim():
    s = getattr(CTX, "sim", None)
    if s is None or not getattr(s, "os_seam", False):
        return None
    return s


def rel(sim, path):
    """Normalised path for logs/monitors."""
    if isinstance(path, bytes):
        path = _os.fsdecode(path)
    elif not isinstance(path, str):
        try:
            path = _os.fspath(path)
        except TypeError:
            return f"<{type(path).__name__}>"
    p = _os.path.normpath(path)
    if not _os.path.isabs(p):
        p = _os.path.normpath(_os.path.join(_os.getcwd(), p))
    cands = [p]
    d, b = _os.path.split(p)
    rd = _os.path.realpath(d)
    if rd != d:
        cands.append(_os.path.join(rd, b))
    for c in cands:
        for root, label in getattr(sim, "os_roots", ()):
            if c == root:
                return label or "."
            if c.startswith(root + "/"):
                r = c[len(root) + 1 :]
                return f"{label}/{r}" if label else r
    # e.g. the mkdtemp() limbo of a TransformPreview: keep the shape, drop the random part
    tmp = _tempfile.gettempdir()
    if p.startswith(tmp + "/"):
        first, _, rest = p[len(tmp) + 1 :].partition("/")
        first = _re.sub(r"[A-Za-z0-9_]{8}$", "*", first)
        return "<tmp>/" + first + ("/" + rest if rest else "")
    return "<outside>/" + _os.path.basename(p)


def _call(op, path, fn, extra=""):
    s = _sim()
    if s is None:
        return fn()
    p = rel(s, path)
    if extra != "" and not isinstance(extra, str):
        extra = str(extra)
    s.before_op(op, p, True, extra)
    r = fn()
    s.after_op(op, p)
    return r


class FaultyOS:
    """Stands in for the `os` module attribute of a module under test."""

    def __init__(self, real=_os):
        self.__dict__["_real"] = real

    def __getattr__(self, name):
        return getattr(self._real, name)

    def rename(self, src, dst, **kw):
        s = _sim()
        return _call("os.rename", src, lambda: self._real.rename(src, dst, **kw), rel(s, dst) if s else "")

    def replace(self, src, dst, **kw):
        s = _sim()
        return _call("os.replace", src, lambda: self._real.replace(src, dst, **kw), rel(s, dst) if s else "")

    def link(self, src, dst, **kw):
        s = _sim()
        return _call("os.link", dst, lambda: self._real.link(src, dst, **kw), rel(s, src) if s else "")

    def symlink(self, src, dst, *a, **kw):
        return _call("os.symlink", dst, lambda: self._real.symlink(src, dst, *a, **kw), _os.fsdecode(src) if isinstance(src, bytes) else str(src))

    def unlink(self, path, **kw):
        return _call("os.unlink", path, lambda: self._real.unlink(path, **kw))

    def remove(self, path, **kw):
        return _call("os.remove", path, lambda: self._real.remove(path, **kw))

    def rmdir(self, path, **kw):
        return _call("os.rmdir", path, lambda: self._real.rmdir(path, **kw))

    def mkdir(self, path, *a, **kw):
        return _call("os.mkdir", path, lambda: self._real.mkdir(path, *a, **kw))

    def makedirs(self, path, *a, **kw):
        return _call("os.makedirs", path, lambda: self._real.makedirs(path, *a, **kw))

    def chmod(self, path, mode, **kw):
        return _call("os.chmod", path, lambda: self._real.chmod(path, mode, **kw), oct(mode & 0o7777))

    def utime(self, path, *a, **kw):
        # the time values are real-clock dependent: not logged
        return _call("os.utime", path, lambda: self._real.utime(path, *a, **kw))


class FaultyShutil:
    def __init__(self, real=_shutil):
        self.__dict__["_real"] = real

    def __getattr__(self, name):
        return getattr(self._real, name)

    def rmtree(self, path, *a, **kw):
        return _call("shutil.rmtree", path, lambda: self._real.rmtree(path, *a, **kw))

    def copyfile(self, src, dst, **kw):
        s = _sim()
        return _call("shutil.copyfile", dst, lambda: self._real.copyfile(src, dst, **kw), rel(s, src) if s else "")

    def move(self, src, dst, *a, **kw):
        s = _sim()
        return _call("shutil.move", src, lambda: self._real.move(src, dst, *a, **kw), rel(s, dst) if s else "")


# osutils functions that mutate the disk, by the position of the path that is logged
_OSUTILS_MUTATORS = {
    "delete_any": None,
    "chmod_if_possible": "mode",
    "ensure_empty_directory_exists": None,
    "rename": "dst",
    "fancy_rename": "dst",
    "link_or_copy": "dst",
    "copy_tree": "dst",
    "make_writable": None,
    "make_readonly": None,
    "rmtree": None,
}


def wrap_osutils_function(name, fn):
    """A whole-call fault point around an `osutils` function (possibly Rust)."""
    if getattr(fn, "_verif_os_seam", False):
        return fn
    how = _OSUTILS_MUTATORS.get(name)

    def wrapper(*a, **kw):
        s = _sim()
        if s is None or not a:
            return fn(*a, **kw)
        extra = ""
        if how == "dst" and len(a) > 1:
            extra = rel(s, a[1])
        elif how == "mode" and len(a) > 1:
            try:
                extra = oct(int(a[1]) & 0o7777)
            except (TypeError, ValueError):
                extra = ""
        return _call(name, a[0], lambda: fn(*a, **kw), extra)

    wrapper._verif_os_seam = True
    wrapper._verif_real = fn
    wrapper.__name__ = getattr(fn, "__name__", name)
    return wrapper


class FaultyOsutils:
    """Stands in for the `osutils` module attribute of a module under test."""

    def __init__(self, real):
        self.__dict__["_real"] = real
        self.__dict__["_wrapped"] = {}

    def __getattr__(self, name):
        val = getattr(self._real, name)
        if name in _OSUTILS_MUTATORS and callable(val):
            w = self._wrapped.get(name)
            if w is None or w._verif_real is not val:
                w = self._wrapped[name] = wrap_osutils_function(name, val)
            return w
        return val


def faulty_open(file, mode="r", *a, **kw):
    """`open` as a module attribute: opening for writing is a fault point (the writes
    themselves are not: a transform writes new content into limbo only)."""
    if isinstance(file, int) or not any(c in mode for c in "wax+"):
        return builtins.open(file, mode, *a, **kw)
    return _call("open_w", file, lambda: builtins.open(file, mode, *a, **kw), mode)


faulty_open._verif_os_seam = True


def install_module(modname, open_too=True):
    """Replace the file-system attributes of one module (idempotent)."""
    mod = importlib.import_module(modname)
    d = vars(mod)
    if "os" in d and not isinstance(d["os"], FaultyOS) and d["os"] is _os:
        mod.os = FaultyOS(_os)
    if "shutil" in d and not isinstance(d["shutil"], FaultyShutil) and d["shutil"] is _shutil:
        mod.shutil = FaultyShutil(_shutil)
    ou = d.get("osutils")
    if ou is not None and not isinstance(ou, FaultyOsutils) and getattr(ou, "__name__", "") == "breezy.osutils":
        mod.osutils = FaultyOsutils(ou)
    for name in _OSUTILS_MUTATORS:
        fn = d.get(name)
        if fn is not None and callable(fn) and not getattr(fn, "_verif_os_seam", False) and not isinstance(fn, type):
            setattr(mod, name, wrap_osutils_function(name, fn))
    if open_too and not getattr(d.get("open"), "_verif_os_seam", False):
        mod.open = faulty_open
    return mod


def install(modules=TRANSFORM_MODULES):
    for m in modules:
        install_module(m)


def installed(modname):
    mod = importlib.import_module(modname)
    return isinstance(vars(mod).get("os"), FaultyOS)
